#!/usr/bin/env python3
"""Regenerates the table of seeded changes in DESIGN.md (between the SEEDTABLE markers) from seeded/*/meta.json"""
import json, os, re
V = os.path.dirname(os.path.dirname(os.path.abspath(__file__)))
rows = []
for d in sorted(os.listdir(os.path.join(V, "seeded"))):
    mp = os.path.join(V, "seeded", d, "meta.json")
    if not os.path.exists(mp):
        continue
    m = json.load(open(mp))
    caught = "; ".join(m.get("caught_by", [])) or "NOT CAUGHT"
    extra = (" **Missed at first:** " + m["missed_before_strengthening"]) if m.get("missed_before_strengthening") else ""
    rows.append("| `%s` | %s | %s | %s | %s%s |" % (d, m.get("property"), m.get("change", "").replace("|", "/"), m.get("needs", "").replace("|", "/"), caught.replace("|", "/"), extra))
table = ("| seeded change (`seeded/<name>/`) | property | change | what it needs to manifest | caught by |\n|---|---|---|---|---|\n" + "\n".join(rows))
p = os.path.join(V, "DESIGN.md")
s = open(p).read()
s = re.sub(r"<!-- SEEDTABLE -->.*?<!-- /SEEDTABLE -->", lambda m: "<!-- SEEDTABLE -->\n" + table + "\n<!-- /SEEDTABLE -->", s, flags=re.S)
open(p, "w").write(s)
print(len(rows), "seeded changes in the table")
