#!/usr/bin/env python3
"""regenerates the 'what each check runs' table of DESIGN.md (between the CHECKTABLE markers) from cjv/props.py and MANIFEST.json"""
import json, re
src = open("/verif/cjv/props.py").read()
man = json.load(open("/verif/MANIFEST.json"))
helpers = {"passwd_allocfail_cases": "allocfail-passwd", "ns_allocfail_cases": "allocfail-ns", "fetch_allocfail_cases": "allocfail-fetch"}
rows = ["| property | level | scenario kinds (cjv/scen_*.py, harnesses) | configurations / lanes |", "|---|---|---|---|"]
blocks = re.split(r"\n@check\(\"(C\d\d)\"\)\n", src)
byid = {}
for i in range(1, len(blocks), 2):
    byid[blocks[i]] = re.split(r"\n(?:def |_unit\()", blocks[i + 1].split("\n@check(")[0].split("\n", 1)[1] if "\n" in blocks[i + 1] else blocks[i + 1])[0]
unit = {"C17": ("harness/ht via cjv/chk_c17.py (instantiations of hashtable.h for string / uint32 / uint64 keys, orders 2..13)", "ASan+UBSan"),
        "C18": ("harness/utf8 via cjv/chk_c18.py (utf8_checker.c: product automaton, all 2^32 words, chunked / aligned presentations)", "ASan+UBSan, -O2"),
        "C19": ("harness/wsx via cjv/chk_c19.py (websocket.c + compression.c + vendored zlib against Python zlib as the other endpoint)", "ASan+UBSan")}
levels = {c["property_id"]: c.get("level_claimed", {}).get("category", "") for c in man["checks"]}
for pid in ["C%02d" % i for i in range(1, 21)]:
    if pid in unit:
        rows.append("| %s | %s | %s | %s |" % (pid, levels.get(pid, ""), unit[pid][0], unit[pid][1]))
        continue
    b = byid.get(pid, "")
    kinds = re.findall(r'mk\("([a-z\-]+)"', b) + re.findall(r'kind="([a-z\-]+)"', b)
    for h, k in helpers.items():
        if h + "(" in b:
            kinds.append(k)
    if "fuzzlane" in b:
        kinds.append("libFuzzer lane")
    if "chk_c20_fs" in b:
        kinds.append("harness/authfs via chk_c20_fs")
    if "real_kernel_lane" in b and "realdiff" not in kinds:
        kinds.append("realdiff (real kernel)")
    seen = []
    for k in kinds:
        if k not in seen:
            seen.append(k)
    cfgs = []
    for c in re.findall(r'"(default|tiny|one|wide|lowheap|smallbuf|localadd)"', b):
        if c not in cfgs:
            cfgs.append(c)
    lanes = ["asan"] + (["msan"] if 'lane="msan"' in b or '"msan"' in b else []) + (["fuzz"] if "fuzzlane" in b else [])
    rows.append("| %s | %s | %s | %s; %s |" % (pid, levels.get(pid, ""), ", ".join(seen), ", ".join(cfgs), "+".join(lanes)))
txt = open("/verif/DESIGN.md").read()
new = "<!-- CHECKTABLE -->\n" + "\n".join(rows) + "\n<!-- /CHECKTABLE -->"
if "<!-- CHECKTABLE -->" in txt:
    txt = re.sub(r"<!-- CHECKTABLE -->.*?<!-- /CHECKTABLE -->", lambda m: new, txt, flags=re.S)
    open("/verif/DESIGN.md", "w").write(txt)
print("\n".join(rows))
