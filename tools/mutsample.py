#!/usr/bin/env python3
"""tools/mutsample.py <n> <seed> [file ...]: automatic first-order mutants (no judgement about whether a property breaks) of files
that the repository's own test suite does not link, each run against a fixed set of cheap checks.  A survivor is either an
equivalent mutant or a gap; survivors are listed for triage.  Scratch worktrees live under /tmp and are removed."""
import os, random, re, subprocess, sys, json
V = os.path.dirname(os.path.dirname(os.path.abspath(__file__)))
FILES = ["src/linux/eventloop_epoll.c", "src/linux/linux_io.c", "src/socket_peer.c", "src/websocket_peer.c", "src/linux/timer_linux.c",
         "src/posix/socket.c", "src/peer.c", "src/router.c", "src/buffered_socket.c"]
CHECKS = ["C05", "C07", "C09", "C10", "C11", "C14", "C03"]


def candidates(path, text):
    out = []
    lines = text.split("\n")
    infn = False
    for i, l in enumerate(lines):
        s = l.strip()
        if not s or s.startswith(("/*", "*", "//", "#")) or "log_" in s:
            continue
        if re.match(r"^[A-Za-z_][\w\.\->\[\]]*\(.*\);$", s) and not s.startswith(("return", "if", "while", "for")):
            out.append((i, "delete-call", l, re.sub(r"\S.*$", ";", l)))
        m = re.match(r"^(\s*(?:\} else )?if \()(.*)(\) \{)$", l)
        if m:
            out.append((i, "negate-condition", l, "%s!(%s)%s" % (m.group(1), m.group(2), m.group(3))))
        for a, b in (("<=", "<"), (">=", ">"), ("==", "!="), ("!=", "=="), (" < ", " <= "), (" > ", " >= "), ("&&", "||"), ("||", "&&")):
            if a in l and ("if" in l or "while" in l or "return" in l) and l.count(a) == 1:
                out.append((i, "op %s->%s" % (a.strip(), b.strip()), l, l.replace(a, b)))
        m = re.match(r"^(\s*)return (0|-1|1);$", l)
        if m:
            out.append((i, "return-value", l, "%sreturn %s;" % (m.group(1), {"0": "-1", "-1": "0", "1": "0"}[m.group(2)])))
        m = re.search(r"\b(\d+)\b", l)
        if m and "=" in l and not l.strip().startswith(("case", "static const")) and int(m.group(1)) < 100000:
            out.append((i, "constant+1", l, l[:m.start(1)] + str(int(m.group(1)) + 1) + l[m.end(1):]))
    return out


def main():
    n, seed = int(sys.argv[1]), int(sys.argv[2])
    files = sys.argv[3:] or FILES
    rng = random.Random(seed)
    pool = []
    for f in files:
        text = open(os.path.join("/repo", f)).read()
        for c in candidates(f, text):
            pool.append((f,) + c)
    rng.shuffle(pool)
    results = []
    done = 0
    for f, i, kind, old, new in pool:
        if done >= n:
            break
        wt = "/tmp/mut.%d.%d" % (os.getpid(), done)
        subprocess.run(["git", "-C", "/repo", "worktree", "add", "-q", "--detach", wt, "HEAD"], check=True)
        try:
            p = os.path.join(wt, f)
            lines = open(p).read().split("\n")
            assert lines[i] == old
            lines[i] = new
            open(p, "w").write("\n".join(lines))
            # must compile (as part of the simulated daemon, warnings as the project has them are not errors here)
            env = dict(os.environ, VERIF_REPO=wt)
            r = subprocess.run([sys.executable, "-c", "import sys; sys.path.insert(0,%r); from cjv import build; build.build(config='default', lane='asan')" % V],
                               env=env, stdout=subprocess.PIPE, stderr=subprocess.STDOUT)
            if r.returncode != 0:
                continue
            done += 1
            killed_by = []
            for c in CHECKS:
                q = subprocess.run([sys.executable, os.path.join(V, "checks", "run"), c, "--tier", "quick"], env=env, stdout=subprocess.PIPE, stderr=subprocess.STDOUT, cwd=V)
                if q.returncode == 1:
                    keys = re.findall(r"^  key: (\S+)", q.stdout.decode("utf-8", "replace"), re.M)
                    killed_by.append((c, keys[:2]))
                    break
                if q.returncode == 2:
                    killed_by.append((c, ["HARNESS-FAILURE"]))
                    break
            rec = dict(file=f, line=i + 1, kind=kind, old=old.strip(), new=new.strip(), killed_by=killed_by)
            results.append(rec)
            print(json.dumps(rec), flush=True)
        finally:
            subprocess.run(["git", "-C", "/repo", "worktree", "remove", "--force", wt])
    surv = [r for r in results if not r["killed_by"]]
    print("SUMMARY mutants=%d killed=%d survivors=%d" % (len(results), len(results) - len(surv), len(surv)))
    for r in surv:
        print("SURVIVOR %s:%d %s | %s  ==>  %s" % (r["file"], r["line"], r["kind"], r["old"], r["new"]))


if __name__ == "__main__":
    main()
