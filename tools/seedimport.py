#!/usr/bin/env python3
"""tools/seedimport.py <ID> <name> <needs...>: copies a confirmed seeded change into /verif/seeded/<name>/ with meta.json"""
import json, os, shutil, subprocess, sys
sid, name = sys.argv[1], sys.argv[2]
src = "%s/%s.out" % (os.environ.get("SEEDBASE", "/tmp/seed"), sid)
dst = "/verif/seeded/%s" % name
os.makedirs(dst, exist_ok=True)
for f in os.listdir(src):
    if f.endswith((".diff", ".py", ".md", ".c", ".sh", ".json")) and os.path.getsize(os.path.join(src, f)) < 200000:
        shutil.copy(os.path.join(src, f), os.path.join(dst, f))
meta = json.loads(sys.argv[3])
meta.setdefault("property", sid[:3])
meta["how_confirmed"] = ("applied in a scratch worktree of /repo HEAD; `cmake --build _build && ctest --test-dir _build -j8` passed 23/23 with the change; "
                         "the demonstration exited non-zero with the change and 0 without it (tools/seedcheck.sh); checks were run with VERIF_REPO=<worktree>")
json.dump(meta, open(os.path.join(dst, "meta.json"), "w"), indent=1)
print("imported", dst, sorted(os.listdir(dst)))
