#!/usr/bin/env python3
"""regenerates the findings table of DESIGN.md section 5 (between the FINDTABLE markers) from known_findings.json"""
import json, re, subprocess
d = json.load(open("/verif/known_findings.json"))
log = subprocess.run(["git", "-C", "/repo", "log", "--format=%h %s"], capture_output=True, text=True).stdout
rows = ["| property | fix commit | what failed (witness class) | violation key (regex) that reported it |", "|---|---|---|---|"]
nfix = len([l for l in log.splitlines() if l.split(" ", 1)[1].startswith("fix:")])
for f in d["findings"]:
    what = re.sub(r"^fixed: property=\S+ \S+ ", "", f["what"])
    st = "`%s`" % f["commit"] if f["status"] == "fixed" else "**open**"
    if f["status"] == "fixed":
        assert re.search(r"^%s\S* fix:" % re.escape(f["commit"][:7]), log, re.M), f["commit"]
    rows.append("| %s | %s | %s | `%s` |" % (f["property"], st, what.replace("|", "/"), f["key_regex"].replace("|", " / ")))
txt = open("/verif/DESIGN.md").read()
new = "<!-- FINDTABLE -->\n" + "\n".join(rows) + "\n<!-- /FINDTABLE -->"
txt = re.sub(r"<!-- FINDTABLE -->.*?<!-- /FINDTABLE -->", lambda m: new, txt, flags=re.S)
open("/verif/DESIGN.md", "w").write(txt)
print("%d findings in the table, %d fix: commits in /repo" % (len(d["findings"]), nfix))
