#!/usr/bin/env python3
"""Regenerates /verif/MANIFEST.json from the table below (kept valid at all times)."""
import json, os, subprocess, sys

V = os.path.dirname(os.path.dirname(os.path.abspath(__file__)))
props = [json.loads(l) for l in open(os.path.join(V, "properties.jsonl"))]

SIM_NOTE = ("trusted base: the simulated kernel simk (documented ET-epoll / non-blocking socket / timerfd contract), the Python reference model and "
            "decoders, gcc ASan/UBSan/LSan; the real cjet sources are compiled unmodified from /repo's working tree and linked with ld --wrap")

UNIT_NOTE = {
    "C19": "trusted base: harness/wsx (real websocket.c + compression.c + vendored zlib on an in-memory buffered_reader), CPython's zlib as independent peer, gcc ASan/UBSan/LSan; the daemon itself never enables the extension (compression level 0), so this property is decided in the harness",
    "C17": "trusted base: harness/ht (one TU per type x order instantiating the real macros), the reference arrays and the conservative FULL criterion (free or dead slot within min(add_range, 32) of the home bucket); gcc ASan/UBSan",
    "C20": "trusted base: harness/authfs (ld --wrap on the file-system calls of the real auth_file.c), the crash model 'effects of completed calls in program order', Python crypt for reference hashes; plus the simulated-kernel base for the daemon-level part",
    "C18": "trusted base: the independent reference DFA in harness/utf8/utf8_harness.c (written from RFC 3629), gcc ASan/UBSan; real utf8_checker.c compiled from /repo's working tree; little-endian word order",
}

CLAIMS = {
    "C01": ("exploration", "reference-model replica monitor over seeded histories on the simulated kernel (runtime monitoring)",
            "Random multi-peer histories on the real daemon; every fetch's replayed notification stream is compared with a reference model at every quiescent point, on default/tiny/one/wide/odd/roomy table and batch configurations; histories of 40..250 operations plus a few of 2 500 (thorough: 6 000) operations on one daemon, dense runs of the path index, slow subscribers, access groups, bare special values, messages filled to the limit.", "4 C01"),
    "C02": ("exploration", "JSON-RPC ledger monitor over grammar-generated requests (runtime monitoring)",
            "Every generated request is entered into a ledger keyed by connection and id; responses decoded from the wire are matched online (exactly one, right id, right connection, in order); requesters that stop reading, batches that end in a malformed element, last words in front of the end of a stream, a failing timer disarm.", "4 C02"),
    "C03": ("exploration", "routing-ledger monitor with virtual clock (runtime monitoring)",
            "Every set/call is tracked from the caller through the forwarded request on the owner's connection to the final answer; deadlines use the simulated clock; long histories (hundreds of routed requests on one daemon), odd / empty / very long / look-alike caller ids, payloads that grow when printed, callers replaced by successors, a failing timer disarm.", "4 C03"),
    "C04": ("exploration", "reference-map monitor compared after every response, observer replica and get results (runtime monitoring)",
            "A reference map predicts the class of every well-formed request and is compared with a fetch-all observer and get results at every quiescent point; paths that are not UTF-8 or hold escapes followed by hexadecimal digits, bare special values, dense runs of the path index, requests without a usable id (read back), allocation failures, long histories.", "4 C04"),
    "C07": ("exploration", "resource monitor (accounting, descriptor table, timers, epoll registrations at quiescence and at exit), descriptor-hygiene monitor of the simulated kernel, LeakSanitizer",
            "Bus and hostile histories incl. half-open HTTP upgrades and injected set-up failures, followed by closing everything (idle baseline) or SIGTERM at a seeded step (exit 0, heap 0, nothing open, LSan silent); simulated descriptors are never reused so double close / use after close / foreign descriptors are always visible; heap-cap assertion in the allocation tap; every system call of a corpus of 8 scripted sessions fails once (enumerated), updates of the credential file that fail at write / fsync / rename (descriptors of files the daemon opened itself are part of the baseline).", "4 C07"),
    "C08": ("exploration", "reference model with groups, allocator fill-byte variation and heap pre-conditioning, password-token scan of all output (runtime monitoring)",
            "Generated credential files and access declarations; visibility and set/call rights of every peer compared with a reference model; uninitialised memory explored through ASan malloc_fill_byte 0x00/0xff/0xa5/seeded and recycled chunks; every output byte and log line searched for the unique password tokens; local-only add from all origin kinds.", "4 C08"),
    "C14": ("exploration", "routing ledger on a virtual clock with explicitly composed epoll batches (runtime monitoring + ASan)",
            "Timeout grid x precedence; armed timerfd value compared with floor(t*1e9); clock stepped to deadline-1ns / deadline; expiry raced against reply / caller and owner FIN/RST inside one harvested batch in both orders on batch sizes 1,2,10,64; callers replaced by successors that number their requests alike (with immediate reuse of released memory), a failing timer disarm, look-alike ids up to the length of a message.", "4 C14"),
    "C19": ("exploration", "round-trip differential against Python zlib as the second endpoint, ASan/UBSan/LSan on corrupt streams, RFC 7692 negotiation oracle (runtime monitoring)",
            "Server-side WebSocket endpoint on an in-memory reader: server-to-client and client-to-server round trips for every payload class, level, window size, takeover setting and fragmentation incl. interleaved pings, corrupt / adversarial compressed streams under sanitizers, grammar-generated extension offers checked against RFC 7692 7.1; 2-4 connections with different parameters side by side in one process (broadcasts; connections replacing each other), messages that inflate to exactly the size of a grown output buffer, the books of the capped allocator after the last connection.", "4 C19"),
    "C20": ("fault_enumeration", "crash-point / short-write / error enumeration on intercepted file-system calls with fresh-loader probes; authorisation matrix on the daemon",
            "Every crash point before/after each mutating file-system call of a password change, sampled short-write counts and ENOSPC/EIO/EINTR per call; each on-disk snapshot probed by a fresh process with the real loader (old set or new set, never neither); daemon-level authorisation matrix over user kinds; the same enumeration with the credential file at the longest paths the system accepts, restarts on every directory state a crashed update leaves, odd (empty, 1-character, 280-character) passwords.", "4 C20"),
    "C15": ("fault_enumeration", "single-fault enumeration over every allocation of a scripted corpus (countdown failure injection in the allocation tap) with sanitizers, ledger, victim attribution and post-fault probe",
            "For each of 8 scripted sessions every allocation index fails in turn (exhaustive in thorough, every 2nd in quick), plus multi-fault runs and histories under a reduced heap cap; ASan/UBSan/LSan, at most one response per request, only the victim connection may be dropped, a fresh connection is served afterwards, accounting returns to the baseline; fetch / unfetch / add / change / remove / passwd with every allocation failing once (with 0..16 other subscribers in place), allocation failures inside bursts of connection attempts.", "4 C15"),
    "C16": ("exploration", "reference matcher vs get/fetch results of the real daemon over an adversarial operand alphabet (runtime monitoring)",
            "All single matchers x 41 operands x 3 option settings x 40 paths exhaustively, random multi-matcher rules, ill-formed rules and repeated option keys; results of the real daemon compared with an independent Python matcher.", "4 C16"),
    "C18": ("exploration", "differential monitoring of the real validator against an independent RFC 3629 DFA (product exploration, word sweeps)",
            "Exhaustive product of validator state x reference DFA state x 256 bytes; all 2^32 words (thorough) / class-representative alphabet (quick) through the 32-bit fast path, 64-bit lanes, all split points and alignments of the chunked and auto-aligned entry points; ASan+UBSan lane and -O2 lane.", "4 C18"),
    "C05": ("exploration", "enumerated product of transport x role x phase x ending on the simulated kernel with replica / routing / hygiene / resource monitors (runtime monitoring + ASan)",
            "All 870 cells of the product are executed on the real daemon; monitors: victim released, its elements removed from every replica, routed requests to it answered with an error, nothing generated for it afterwards, third parties undisturbed, idle baseline.", "4 C05"),
    "C09": ("exploration", "differential monitoring: reference execution vs kernel-policy variants (segmentation, coalescing, batching, spurious wake-ups, read-buffer scribbling); parse_message content tap",
            "The same multi-connection script is executed as reference and under up to 16 kernel policies incl. scribbling of the read buffer behind the received bytes; decoded outputs per connection must be identical; the content handed to the JSON layer must equal the k-th message sent.", "4 C09"),
    "C10": ("fault_enumeration", "byte-exact comparison of the kernel-accepted stream with the frames generated by the daemon (send-call tap) under enumerated write acceptance behaviours",
            "Write budgets, per-call caps, refills and hard errors are enumerated around frames of controlled sizes; for the 256-byte buffer configuration the acceptance point covers every byte position of two consecutive frames; equality once writable, prefix while blocked/closed, no spinning, always back to epoll_wait; transient write errors (ENOBUFS / ENOMEM / EAGAIN for a single call) during a flush, frames longer than the write buffer, SO_LINGER / blocking-mode modelling of the simulated kernel.", "4 C10"),
    "C11": ("fault_enumeration", "replica / RPC / routing monitors restricted to healthy peers while seeded faults (stall, write errors, RST, garbage, accept failures) hit other peers; read-back of uncertain effects",
            "Random histories with a growing set of faulty peers at seeded subscriber-table positions; healthy peers' replicas, responses and routed requests stay under the strict monitors; after accept() failures a fresh connection must be served; bursts of pending connections with one failing set-up, last words in front of a FIN, every system call of a scripted corpus failing once (enumerated): only connections involved in the failing call may be lost.", "4 C11"),
    "C12": ("exploration", "strict RFC 6455 decoder and close-status oracle on the real endpoint, digest recomputation, raw/WebSocket transparency differential (runtime monitoring)",
            "Handshake variants, strict decoding of every server frame, ping/pong over all control payload lengths and mask patterns, the listed protocol violations with their required close status, legal closes, identical JSON-RPC dialogue on raw and WebSocket transports.", "4 C12"),
    "C17": ("exploration", "reference-map and structural-invariant monitor on the real hashtable.h macros (exhaustive small orders, adversarial random histories)",
            "All op sequences up to length 6 (quick) / 7 (thorough) over 5 colliding keys for orders 2-4 x 3 key types, seeded adversarial histories for orders 5-13; whole-universe get comparison, hop-bit/slot bijection and FULL-only-when-unreachable after every operation.", "4 C17"),
    "C13": ("exploration", "validity-class oracle over templates truncated / corrupted at every byte, resource monitor and ASan/LSan at shutdown (runtime monitoring)",
            "Valid templates must get 101; requests invalid by construction must never get 101 and must get an HTTP error or a close; truncation at every byte and corruption at every position of every template; every exchange must release its connection; baseline and clean SIGTERM exit at the end.", "4 C13"),
    "C06": ("exploration", "sanitizers (ASan+UBSan+LSan) on the whole daemon under hostile inputs, with witness-connection monitor",
            "Whole daemon under gcc ASan/UBSan/LSan on the simulated kernel; hostile structured and mutated inputs on every endpoint with random segmentation, batching and buffer scribbling; witnesses must stay served.", "4 C06"),
}


def main():
    checks = []
    for pid, (level, technique, text, ref) in sorted(CLAIMS.items()):
        checks.append({
            "property_id": pid,
            "quick_cmd": "python3 checks/run %s --tier quick" % pid,
            "thorough_cmd": "python3 checks/run %s --tier thorough" % pid,
            "evidence_file": "/verif/evidence/%s.json" % pid,
            "replay_cmd_template": "python3 checks/run --replay {path}",
            "engine": "cjv",
            "level_claimed": {"category": level, "text": text, "design_ref": "DESIGN.md section " + ref},
            "level_note": UNIT_NOTE.get(pid, SIM_NOTE),
            "technique": technique,
        })
    na = [{"property_id": p["id"], "reason": "check not built yet (work in progress)"} for p in props if p["id"] not in CLAIMS]
    m = {
        "version": 1,
        "setup_cmd": "python3 -m cjv.setup",
        "hooks": {"guard": "CJET_VERIF", "enable": "no source hooks: all instrumentation is link-time (GNU ld --wrap) in the harness; the guard name is reserved only",
                  "baseline_off_cmd": "cmake --build /repo/_build && ctest --test-dir /repo/_build -j8 --timeout 900",
                  "source_commits": [], "add_only": True},
        "engines": [{"name": "cjv", "path": "/verif/cjv", "serves_properties": sorted(CLAIMS),
                     "kind_free_text": "runtime monitoring: real daemon on a simulated kernel (simk, ld --wrap), Python driver with online monitors, gcc sanitizers"}],
        "checks": checks,
        "notes": "exit 0 held / 1 VIOLATION / 2 harness failure; VERIF_SEED seeds every random choice; VERIF_REPO overrides /repo; known findings in /verif/known_findings.json",
        "not_applicable": na,
    }
    with open(os.path.join(V, "MANIFEST.json"), "w") as fh:
        json.dump(m, fh, indent=1)
    print("MANIFEST.json: %d checks, %d not claimed" % (len(checks), len(na)))


if __name__ == "__main__":
    main()
