#!/bin/sh
# tools/seedcheck.sh <ID> [worktree] : confirms a seeded change (tests pass, demo fails with / passes without) and runs the property's checks against it
ID=$1; BASE=${SEEDBASE:-/tmp/seed}; WT=${2:-$BASE/$ID}; OUT=${3:-$BASE/$ID.out}
cd $WT || exit 2
echo "--- patch"; git diff --stat | tail -3
echo "--- build+ctest with the change"
cmake --build _build >/dev/null 2>&1; ctest --test-dir _build -j8 --timeout 900 2>&1 | grep "tests passed\|tests failed"
DEMO=$(ls $OUT/demo.py $OUT/demo.sh 2>/dev/null | head -1)
if [ -n "$DEMO" ]; then
  echo "--- demo with the change (expect non-zero)"
  (cd $OUT && timeout 300 unshare -n sh -c "ip link set lo up; exec $( [ "${DEMO##*.}" = py ] && echo python3 || echo sh ) $DEMO" >$BASE/$ID.demo_with.log 2>&1); echo "rc=$?"; tail -3 $BASE/$ID.demo_with.log
  git diff > $BASE/$ID.reapply.diff; git apply -R $BASE/$ID.reapply.diff; cmake --build _build >/dev/null 2>&1
  echo "--- demo without the change (expect 0)"
  (cd $OUT && timeout 300 unshare -n sh -c "ip link set lo up; exec $( [ "${DEMO##*.}" = py ] && echo python3 || echo sh ) $DEMO" >$BASE/$ID.demo_without.log 2>&1); echo "rc=$?"; tail -2 $BASE/$ID.demo_without.log
  git apply $BASE/$ID.reapply.diff; cmake --build _build >/dev/null 2>&1
fi
echo "--- property check against the change"
cd /verif && VERIF_REPO=$WT python3 checks/run $ID --tier quick 2>&1 | grep "key:\|$ID quick\|HARNESS" | cut -c1-200 | head -12
