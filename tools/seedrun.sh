#!/bin/sh
# tools/seedrun.sh <seeded name> [check ids...]: applies seeded/<name>/patch.diff to a scratch worktree of /repo HEAD, runs the checks
# (default: the property named in meta.json) against it with VERIF_REPO, removes the worktree. Prints one line per check.
NAME=$1; shift
V=$(cd "$(dirname "$0")/.." && pwd)
WT=/tmp/seedrun.$$.$NAME
BASE=$(python3 -c "import json;print(json.load(open('$V/seeded/$NAME/meta.json')).get('base','HEAD'))")
git -C /repo worktree add -q --detach $WT $BASE || exit 2
if ! git -C $WT apply $V/seeded/$NAME/patch.diff; then echo "$NAME: patch does not apply to /repo HEAD"; git -C /repo worktree remove --force $WT; exit 2; fi
IDS="$@"
[ -z "$IDS" ] && IDS=$(python3 -c "import json;m=json.load(open('$V/seeded/$NAME/meta.json'));print(' '.join(m.get('checks',[m['property']])))")
for id in $IDS; do
  out=$(cd $V && VERIF_REPO=$WT python3 checks/run $id --tier quick 2>&1); rc=$?
  echo "$NAME $id rc=$rc keys: $(echo "$out" | grep '  key:' | sed 's/  key: //' | cut -c1-70 | head -4 | tr '\n' ' ')"
done
git -C /repo worktree remove --force $WT
