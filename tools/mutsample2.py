#!/usr/bin/env python3
"""tools/mutsample2.py <n> <seed> [file ...]: automatic first-order mutants in ALL files the properties are anchored in.  Unlike
tools/mutsample.py a mutant is kept only if it compiles AND the repository's own, unedited test suite still passes with it (the
definition of a "realistic change" of the brief); each kept mutant is run against the quick checks of the properties anchored in its
file.  No judgement is made about whether a property breaks: survivors are equivalent mutants or gaps and are listed for triage.
One scratch worktree under /tmp is built once (cmake + ninja), mutated in place and removed at the end."""
import os, random, re, subprocess, sys, json, time
V = os.path.dirname(os.path.dirname(os.path.abspath(__file__)))
sys.path.insert(0, os.path.dirname(os.path.abspath(__file__)))
from mutsample import candidates  # noqa: E402

MAP = {
    "src/fetch.c": ["C01", "C16", "C08", "C11", "C15", "C07"],
    "src/element.c": ["C04", "C01", "C03", "C08", "C14", "C15", "C07"],
    "src/router.c": ["C03", "C14", "C05", "C07", "C02"],
    "src/peer.c": ["C05", "C07", "C06", "C02"],
    "src/parse.c": ["C02", "C09", "C06", "C07"],
    "src/response.c": ["C02", "C03", "C15", "C07"],
    "src/config.c": ["C02", "C06", "C07"],
    "src/info.c": ["C02", "C07"],
    "src/authenticate.c": ["C08", "C20", "C07"],
    "src/posix/auth_file.c": ["C20", "C08", "C15"],
    "src/groups.c": ["C08", "C04", "C07"],
    "src/timer.c": ["C14", "C03", "C07"],
    "src/buffered_socket.c": ["C10", "C09", "C11", "C05", "C12", "C07"],
    "src/socket_peer.c": ["C09", "C05", "C10", "C07"],
    "src/websocket.c": ["C12", "C19", "C05", "C13", "C10", "C07"],
    "src/websocket_peer.c": ["C12", "C05", "C07", "C15"],
    "src/http_connection.c": ["C13", "C12", "C15", "C07"],
    "src/http_server.c": ["C13", "C12", "C07"],
    "src/compression.c": ["C19"],
    "src/utf8_checker.c": ["C18", "C12"],
    "src/hashtable.h": ["C17", "C04", "C03"],
    "src/table.c": ["C17", "C04"],
    "src/alloc.c": ["C15", "C07"],
    "src/base64.c": ["C12"],
    "src/linux/jet_string.c": ["C16", "C01"],
    "src/linux/eventloop_epoll.c": ["C14", "C11", "C09", "C05", "C07"],
    "src/linux/linux_io.c": ["C07", "C11", "C08", "C13", "C05"],
    "src/linux/timer_linux.c": ["C14", "C07", "C03"],
    "src/posix/socket.c": ["C10", "C09", "C11", "C07"],
}


def sh(cmd, **kw):
    return subprocess.run(cmd, stdout=subprocess.PIPE, stderr=subprocess.STDOUT, **kw)


def main():
    n, seed = int(sys.argv[1]), int(sys.argv[2])
    files = sys.argv[3:] or sorted(MAP)
    rng = random.Random(seed)
    pool = []
    for f in files:
        text = open(os.path.join("/repo", f)).read()
        for c in candidates(f, text):
            pool.append((f,) + c)
    rng.shuffle(pool)
    wt = "/tmp/mut2.%d" % os.getpid()
    subprocess.run(["git", "-C", "/repo", "worktree", "add", "-q", "--detach", wt, "HEAD"], check=True)
    results, done, tried, test_killed, nocompile = [], 0, 0, 0, 0
    try:
        r = sh(["cmake", "-G", "Ninja", "-S", wt, "-B", wt + "/_build", "-DCMAKE_BUILD_TYPE=RelWithDebInfo"])
        r = sh(["cmake", "--build", wt + "/_build"])
        assert r.returncode == 0, r.stdout.decode()[-2000:]
        for f, i, kind, old, new in pool:
            if done >= n:
                break
            p = os.path.join(wt, f)
            orig = open(p).read()
            lines = orig.split("\n")
            assert lines[i] == old
            lines[i] = new
            tried += 1
            try:
                open(p, "w").write("\n".join(lines))
                if sh(["cmake", "--build", wt + "/_build"]).returncode != 0:
                    nocompile += 1
                    continue
                t = sh(["ctest", "--test-dir", wt + "/_build", "-j8", "--timeout", "120"])
                if t.returncode != 0:
                    test_killed += 1
                    print(json.dumps(dict(file=f, line=i + 1, kind=kind, new=new.strip(), killed_by="repository test suite")), flush=True)
                    continue
                done += 1
                env = dict(os.environ, VERIF_REPO=wt)
                killed_by = []
                t0 = time.time()
                for c in MAP.get(f, ["C06", "C07"]):
                    q = sh([sys.executable, os.path.join(V, "checks", "run"), c, "--tier", "quick"], env=env, cwd=V)
                    if q.returncode == 1:
                        keys = re.findall(r"^  key: (\S+)", q.stdout.decode("utf-8", "replace"), re.M)
                        killed_by.append((c, keys[:2]))
                        break
                    if q.returncode == 2:
                        killed_by.append((c, ["HARNESS-FAILURE"]))
                        break
                rec = dict(file=f, line=i + 1, kind=kind, old=old.strip(), new=new.strip(), killed_by=killed_by, secs=round(time.time() - t0))
                results.append(rec)
                print(json.dumps(rec), flush=True)
            finally:
                open(p, "w").write(orig)
    finally:
        subprocess.run(["git", "-C", "/repo", "worktree", "remove", "--force", wt])
    surv = [r for r in results if not r["killed_by"]]
    print("SUMMARY tried=%d not-compiling=%d killed-by-test-suite=%d passed-test-suite=%d of-those-killed-by-checks=%d survivors=%d"
          % (tried, nocompile, test_killed, len(results), len(results) - len(surv), len(surv)))
    for r in surv:
        print("SURVIVOR %s:%d %s | %s  ==>  %s" % (r["file"], r["line"], r["kind"], r["old"], r["new"]))


main()
