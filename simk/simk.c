/*
 * simk - simulated kernel for the real cjet daemon.
 *
 * All cjet translation units are linked with GNU ld --wrap so that every
 * system call the daemon makes on sockets / epoll / timerfd / signals lands
 * here.  The daemon's main() is compiled as cjet_main() and runs on this
 * thread; whenever it blocks in epoll_wait() we read driver commands from
 * stdin and answer on stdout (one JSON line per command).
 *
 * Model (deliberately the documented contract of Linux, nothing cleverer):
 *  - simulated descriptors start at 1000 and are NEVER reused; any call on a
 *    closed / never issued / wrong-kind descriptor is recorded as an
 *    "fd-hygiene event" (with return addresses) and fails with EBADF.
 *  - stream sockets: rx queue of chunks (a read() never crosses a chunk),
 *    EOF / RST markers, tx log, write budget (bytes until EAGAIN), per-call
 *    cap (short writes), scripted hard write errors.
 *  - epoll is edge triggered exactly as cjet registers it; epoll_wait()
 *    harvests a batch chosen by the driver; the batch is a snapshot.
 *  - virtual CLOCK_MONOTONIC; timerfds expire only when the driver advances.
 */
#define _GNU_SOURCE
#include <arpa/inet.h>
#include <errno.h>
#include <execinfo.h>
#include <fcntl.h>
#include <netinet/in.h>
#include <signal.h>
#include <stdarg.h>
#include <stdint.h>
#include <stdio.h>
#include <stdlib.h>
#include <string.h>
#include <sys/epoll.h>
#include <sys/socket.h>
#include <sys/timerfd.h>
#include <sys/uio.h>
#include <sys/un.h>
#include <unistd.h>

#include "alloc.h"
#include "buffered_socket.h"
#include "generated/cjet_config.h"
#include "generated/os_config.h"
#include "peer.h"

int cjet_main(int argc, char **argv);

/* ------------------------------------------------------------------ */
/* real functions                                                      */
ssize_t __real_read(int fd, void *buf, size_t count);
ssize_t __real_writev(int fd, const struct iovec *iov, int iovcnt);
int __real_close(int fd);
int __real_open(const char *path, int flags, ...);
int __real_buffered_socket_writev(void *this_ptr, struct socket_io_vector *io_vec, unsigned int count);
int __real_parse_message(const char *msg, size_t length, struct peer *p);
void *__real_cjet_malloc(size_t size);
void *__real_cjet_calloc(size_t nmemb, size_t size);
void __real_cjet_free(void *ptr);
int __real_init_http_connection(void *connection, const void *server, void *reader, int is_local);
int init_http_connection2(void *connection, const void *server, void *reader, _Bool is_local, unsigned int level);

/* ------------------------------------------------------------------ */
/* dynamic string                                                      */
struct dstr {
	char *p;
	size_t len, cap;
};

static void ds_reserve(struct dstr *d, size_t extra)
{
	if (d->len + extra + 1 > d->cap) {
		size_t ncap = (d->cap ? d->cap * 2 : 256);
		while (ncap < d->len + extra + 1) ncap *= 2;
		d->p = realloc(d->p, ncap);
		if (!d->p) abort();
		d->cap = ncap;
	}
}

static void ds_put(struct dstr *d, const char *s)
{
	size_t l = strlen(s);
	ds_reserve(d, l);
	memcpy(d->p + d->len, s, l);
	d->len += l;
	d->p[d->len] = 0;
}

__attribute__((format(printf, 2, 3))) static void ds_printf(struct dstr *d, const char *fmt, ...)
{
	char tmp[512];
	va_list ap;
	va_start(ap, fmt);
	int n = vsnprintf(tmp, sizeof(tmp), fmt, ap);
	va_end(ap);
	if (n < 0) return;
	if ((size_t)n >= sizeof(tmp)) n = sizeof(tmp) - 1;
	ds_reserve(d, (size_t)n);
	memcpy(d->p + d->len, tmp, (size_t)n);
	d->len += (size_t)n;
	d->p[d->len] = 0;
}

static void ds_hex(struct dstr *d, const unsigned char *b, size_t n)
{
	if (n == 0) return;
	static const char hx[] = "0123456789abcdef";
	ds_reserve(d, n * 2);
	for (size_t i = 0; i < n; i++) {
		d->p[d->len++] = hx[b[i] >> 4];
		d->p[d->len++] = hx[b[i] & 15];
	}
	d->p[d->len] = 0;
}

static void ds_jsonstr(struct dstr *d, const char *s)
{
	ds_put(d, "\"");
	for (; *s; s++) {
		unsigned char c = (unsigned char)*s;
		if (c == '"' || c == '\\') {
			ds_printf(d, "\\%c", c);
		} else if (c < 0x20 || c >= 0x7f) {
			ds_printf(d, "\\u%04x", c);
		} else {
			ds_printf(d, "%c", c);
		}
	}
	ds_put(d, "\"");
}

static void ds_clear(struct dstr *d)
{
	d->len = 0;
	if (d->p) d->p[0] = 0;
}

/* ------------------------------------------------------------------ */
/* descriptor table                                                    */
#define SIM_FD_BASE 1000
#define MAX_FDS 20000

enum kind { K_NONE, K_LISTENER, K_STREAM, K_EPOLL, K_TIMER };
enum state { S_UNUSED, S_RESERVED, S_OPEN, S_CLOSED, S_DROPPED };
static const char *kind_name[] = {"none", "listener", "stream", "epoll", "timer"};
static const char *state_name[] = {"unused", "reserved", "open", "closed", "dropped"};

struct chunk {
	struct chunk *next;
	size_t len, off;
	unsigned char data[];
};

struct simfd {
	int kind, state;
	/* epoll registration */
	int registered;
	uint32_t reg_events; /* the mask given to epoll_ctl: decides what is reported (EPOLLRDHUP only on request, no EPOLLET = level triggered) */
	epoll_data_t data;
	int edge; /* an unreported edge is pending */
	unsigned long edge_seq;
	/* listener */
	int family, port, listening;
	int *pending;
	int npending, cappending;
	/* stream */
	struct chunk *rx_head, *rx_tail;
	int eof, rst;
	unsigned char *tx;
	size_t tx_len, tx_cap, tx_drained;
	long wbudget, wcap;   /* -1 = unlimited */
	int half_closed_by_daemon; /* shutdown(SHUT_WR) by the daemon */
	int werr_errno;       /* hard write error ... */
	long werr_after;      /* ... once this many further writev calls happened (-1: none) */
	int werr_once;        /* the error is transient: it is reported once, the next call is served normally */
	int blocked;          /* last write could not be taken completely */
	int linger_on, linger_secs; /* SO_LINGER as the daemon set it (accepted sockets inherit the listener's) */
	unsigned long nwritev, neagain;
	int listener;
	struct sockaddr_storage peer;
	socklen_t peerlen;
	int fl;
	/* timer */
	int armed;
	uint64_t deadline, armed_ns;
	uint64_t expirations;
	unsigned long nsettime;
};

static struct simfd fds[MAX_FDS];
static int next_fd = SIM_FD_BASE;
static unsigned long edge_counter = 1;
static uint64_t now_ns = 1000000000ull;
static int epoll_fd_sim = -1;

/* legitimate real descriptors obtained by daemon code through open() */
static int real_fds[64];
static int n_real_fds;

/* ------------------------------------------------------------------ */
/* records                                                             */
static struct dstr hyg;  /* hygiene events, JSON objects separated by commas */
static unsigned long n_hyg;
static struct dstr trace; /* ordered daemon activity: ["m",fd,hex] ["g",fd,hex,ret] ["c",fd] ["a",fd,lfd] ["x",fd] ["e",fd,errno] */
static unsigned long n_trace;
static struct dstr logs; /* syslog tap */
static struct dstr wlog; /* per writev call log: fd, offered, accepted/errno */
static int taps_on = 1;
static unsigned long n_logs;

static int in_daemon;          /* daemon code is running (between epoll_wait calls) */
static long failalloc_in = -1; /* countdown: this many further daemon allocations succeed */
static long failalloc_count = 1;
static unsigned long alloc_counter;
static unsigned long alloc_failed;
static int alloc_fail_fd = -1;
static int alloc_fail_fds[16];
static int n_alloc_fail_fds;
static size_t heap_peak;
static unsigned long cap_violations;
static int cur_read_fd = -1;
static int scribble_mode; /* 0 none, else pattern id */
static unsigned int scribble_seed = 12345;
static int ws_compression_level = 0;
static int startup_inject = 0;

static void (*sigterm_handler)(int);
static int pending_eintr;
static int pending_abort;
static int daemon_exited;
static int daemon_status;

struct inject {
	const char *name;
	long nth; /* countdown, 0 = disabled */
	int err;
	unsigned long calls, fired;
};
static struct inject injects[] = {
    {"accept", 0, 0, 0, 0},       {"fcntl", 0, 0, 0, 0},          {"getsockname", 0, 0, 0, 0},
    {"setsockopt", 0, 0, 0, 0},   {"timerfd_create", 0, 0, 0, 0}, {"timerfd_settime", 0, 0, 0, 0},
    {"epoll_ctl", 0, 0, 0, 0},    {"epoll_create", 0, 0, 0, 0},   {"socket", 0, 0, 0, 0},
    {"bind", 0, 0, 0, 0},         {"listen", 0, 0, 0, 0},         {"read", 0, 0, 0, 0},
    {"filewrite", 0, 0, 0, 0},    {"fsync", 0, 0, 0, 0},          {"rename", 0, 0, 0, 0},
    {"writev", 0, 0, 0, 0},
    {NULL, 0, 0, 0, 0}};

static int inj_arg_fd = -1;              /* descriptor argument of the call that is asking (set by the wrappers that have one) */
static int inj_fired_fds[8], n_inj_fired_fds; /* descriptor argument and connection in processing at the moment a fault fired */

static void note_fired(void)
{
	if (n_inj_fired_fds + 2 <= 8) {
		inj_fired_fds[n_inj_fired_fds++] = inj_arg_fd;
		inj_fired_fds[n_inj_fired_fds++] = cur_read_fd;
	}
}

static int inject_fire(const char *name)
{
	for (struct inject *i = injects; i->name; i++) {
		if (strcmp(i->name, name) == 0) {
			i->calls++;
			if (i->nth > 0) {
				i->nth--;
				if (i->nth == 0) {
					i->fired++;
					note_fired();
					inj_arg_fd = -1;
					return i->err;
				}
			}
			inj_arg_fd = -1;
			return 0;
		}
	}
	inj_arg_fd = -1;
	return 0;
}

static int resource_errno(int e)
{
	return e == EMFILE || e == ENFILE || e == ENOBUFS || e == ENOMEM;
}

/* like inject_fire, but a call is only counted (and the fault only fired) if the scheduled errno is of the given class */
static int inject_fire_if(const char *name, int (*cls)(int))
{
	for (struct inject *i = injects; i->name; i++) {
		if (strcmp(i->name, name) == 0) {
			if (i->nth > 0 && cls(i->err)) {
				i->calls++;
				i->nth--;
				if (i->nth == 0) {
					i->fired++;
					return i->err;
				}
			}
			return 0;
		}
	}
	return 0;
}

static void hygiene(const char *op, int fd, const char *what);

/* a call that cannot complete now: fine on a non-blocking descriptor (EAGAIN); on a blocking one the single-threaded
 * daemon would sleep in the kernel, with every other connection waiting */
static void would_block(const char *op, int fd)
{
	if (!(fds[fd].fl & O_NONBLOCK)) hygiene(op, fd, "would block: the descriptor is in blocking mode");
}

static int sigpipe_ignored;
static void (*sigpipe_handler)(int);
/* EPIPE comes with a SIGPIPE: the default action terminates the process, a handler the daemon installed runs now */
static void broken_pipe(int fd)
{
	if (sigpipe_handler) {
		sigpipe_handler(SIGPIPE);
		return;
	}
	if (!sigpipe_ignored) hygiene("writev", fd, "SIGPIPE is not ignored: this write would kill the daemon");
}

static void hygiene(const char *op, int fd, const char *what)
{
	void *bt[12];
	int n = backtrace(bt, 12);
	if (n_hyg) ds_put(&hyg, ",");
	n_hyg++;
	const char *k = "foreign", *s = "-";
	if (fd >= SIM_FD_BASE && fd < MAX_FDS) {
		k = kind_name[fds[fd].kind];
		s = state_name[fds[fd].state];
	}
	ds_printf(&hyg, "{\"op\":\"%s\",\"fd\":%d,\"kind\":\"%s\",\"state\":\"%s\",\"what\":\"%s\",\"bt\":[", op, fd, k, s, what);
	for (int i = 2; i < n; i++) {
		ds_printf(&hyg, "%s\"%p\"", i > 2 ? "," : "", bt[i]);
	}
	ds_put(&hyg, "]}");
}

__attribute__((format(printf, 1, 2))) static void trace_ev(const char *fmt, ...)
{
	if (!taps_on) return;
	char tmp[128];
	va_list ap;
	va_start(ap, fmt);
	vsnprintf(tmp, sizeof(tmp), fmt, ap);
	va_end(ap);
	if (n_trace) ds_put(&trace, ",");
	n_trace++;
	ds_put(&trace, tmp);
}

static int is_sim(int fd)
{
	return fd >= SIM_FD_BASE && fd < MAX_FDS;
}

static int is_real_legit(int fd)
{
	for (int i = 0; i < n_real_fds; i++) {
		if (real_fds[i] == fd) return 1;
	}
	return 0;
}

/* returns the live simulated descriptor or NULL after recording a hygiene event */
static struct simfd *live(const char *op, int fd, int want_kind)
{
	if (!is_sim(fd)) {
		hygiene(op, fd, "descriptor not owned by the daemon");
		errno = EBADF;
		return NULL;
	}
	struct simfd *f = &fds[fd];
	if (f->state != S_OPEN) {
		hygiene(op, fd, "descriptor not open");
		errno = EBADF;
		return NULL;
	}
	if (want_kind != K_NONE && f->kind != want_kind) {
		hygiene(op, fd, "wrong kind of descriptor");
		errno = EINVAL;
		return NULL;
	}
	return f;
}

static int new_fd(int kind, int state)
{
	if (next_fd >= MAX_FDS) {
		fprintf(stderr, "simk: descriptor table exhausted\n");
		abort();
	}
	int fd = next_fd++;
	struct simfd *f = &fds[fd];
	memset(f, 0, sizeof(*f));
	f->kind = kind;
	f->state = state;
	f->wbudget = -1;
	f->wcap = -1;
	f->werr_after = -1;
	f->listener = -1;
	return fd;
}

static void raise_edge(struct simfd *f)
{
	if (!f->edge) {
		f->edge = 1;
		f->edge_seq = edge_counter++;
	}
}

static uint32_t readiness(const struct simfd *f);

/* what epoll_wait() reports for a registration: its readiness filtered by the requested mask */
static uint32_t reported(const struct simfd *f)
{
	uint32_t m = readiness(f);
	if (f->kind == K_STREAM && (f->eof || f->rst) && (f->reg_events & EPOLLRDHUP)) m |= EPOLLRDHUP;
	return m & (f->reg_events | EPOLLERR | EPOLLHUP);
}

static uint32_t readiness(const struct simfd *f)
{
	uint32_t m = 0;
	switch (f->kind) {
	case K_LISTENER:
		if (f->npending > 0) m |= EPOLLIN;
		break;
	case K_STREAM:
		if (f->rx_head || f->eof || f->rst) m |= EPOLLIN;
		if (f->wbudget != 0 && !f->rst) m |= EPOLLOUT;
		if (f->rst) m |= EPOLLERR | EPOLLHUP;
		break;
	case K_TIMER:
		if (f->expirations > 0) m |= EPOLLIN;
		break;
	default:
		break;
	}
	return m;
}

/* ------------------------------------------------------------------ */
/* wrapped kernel interface                                            */

int __wrap_socket(int domain, int type, int protocol)
{
	(void)protocol;
	int e = inject_fire("socket");
	if (e) {
		errno = e;
		return -1;
	}
	int fd = new_fd(K_LISTENER, S_OPEN);
	fds[fd].family = domain;
	fds[fd].fl = (type & SOCK_NONBLOCK) ? O_NONBLOCK : 0;
	return fd;
}

int __wrap_bind(int fd, const struct sockaddr *addr, socklen_t len)
{
	struct simfd *f = live("bind", fd, K_LISTENER);
	if (!f) return -1;
	int e = inject_fire("bind");
	if (e) {
		errno = e;
		return -1;
	}
	(void)len;
	if (addr->sa_family == AF_INET) {
		f->port = ntohs(((const struct sockaddr_in *)addr)->sin_port);
	} else if (addr->sa_family == AF_INET6) {
		f->port = ntohs(((const struct sockaddr_in6 *)addr)->sin6_port);
	} else {
		f->port = 0;
	}
	f->family = addr->sa_family;
	return 0;
}

int __wrap_listen(int fd, int backlog)
{
	(void)backlog;
	struct simfd *f = live("listen", fd, K_LISTENER);
	if (!f) return -1;
	int e = inject_fire("listen");
	if (e) {
		errno = e;
		return -1;
	}
	f->listening = 1;
	return 0;
}

int __wrap_setsockopt(int fd, int level, int optname, const void *optval, socklen_t optlen)
{
	struct simfd *f = live("setsockopt", fd, K_NONE);
	if (!f) return -1;
	if (f->kind != K_LISTENER && f->kind != K_STREAM) {
		hygiene("setsockopt", fd, "wrong kind of descriptor");
		errno = ENOTSOCK;
		return -1;
	}
	if (f->kind == K_STREAM || startup_inject) {
		inj_arg_fd = fd;
		int e = inject_fire("setsockopt");
		if (e) {
			errno = e;
			return -1;
		}
	}
	if (level == SOL_SOCKET && optname == SO_LINGER && optval != NULL && optlen >= sizeof(struct linger)) {
		const struct linger *l = optval;
		f->linger_on = l->l_onoff != 0;
		f->linger_secs = l->l_linger;
	}
	return 0;
}

static int do_fcntl(int fd, int cmd, long arg)
{
	if (!is_sim(fd) && is_real_legit(fd)) {
		return fcntl(fd, cmd, arg);
	}
	struct simfd *f = live("fcntl", fd, K_NONE);
	if (!f) return -1;
	if (f->kind == K_STREAM || startup_inject) {
		inj_arg_fd = fd;
		int e = inject_fire("fcntl");
		if (e) {
			errno = e;
			return -1;
		}
	}
	if (cmd == F_GETFL) return f->fl | O_RDWR;
	if (cmd == F_SETFL) {
		f->fl = (int)arg;
		return 0;
	}
	return 0;
}

int __wrap_fcntl(int fd, int cmd, ...)
{
	va_list ap;
	va_start(ap, cmd);
	long arg = va_arg(ap, long);
	va_end(ap);
	return do_fcntl(fd, cmd, arg);
}

int __wrap_fcntl64(int fd, int cmd, ...)
{
	va_list ap;
	va_start(ap, cmd);
	long arg = va_arg(ap, long);
	va_end(ap);
	return do_fcntl(fd, cmd, arg);
}

int __wrap_getsockname(int fd, struct sockaddr *addr, socklen_t *len)
{
	struct simfd *f = live("getsockname", fd, K_NONE);
	if (!f) return -1;
	if (f->kind != K_LISTENER && f->kind != K_STREAM) {
		hygiene("getsockname", fd, "wrong kind of descriptor");
		errno = ENOTSOCK;
		return -1;
	}
	inj_arg_fd = fd;
	int e = inject_fire("getsockname");
	if (e) {
		errno = e;
		return -1;
	}
	struct sockaddr_storage ss;
	memset(&ss, 0, sizeof(ss));
	int fam = f->family;
	if (f->kind == K_STREAM && f->listener >= 0) fam = fds[f->listener].family;
	ss.ss_family = (sa_family_t)fam;
	socklen_t l = fam == AF_INET ? sizeof(struct sockaddr_in) : fam == AF_INET6 ? sizeof(struct sockaddr_in6) : sizeof(sa_family_t);
	if (*len < l) l = *len;
	memcpy(addr, &ss, l);
	*len = l;
	return 0;
}

int __wrap_accept(int fd, struct sockaddr *addr, socklen_t *len)
{
	struct simfd *f = live("accept", fd, K_LISTENER);
	if (!f) return -1;
	int e = 0;
	if (f->npending == 0) {
		/* the kernel reserves the new descriptor and the socket object BEFORE it looks at the queue: a process that is out
		 * of descriptors or memory gets EMFILE / ENFILE / ENOBUFS / ENOMEM from accept() even when nothing is pending */
		e = inject_fire_if("accept", resource_errno);
		if (e) {
			errno = e;
			return -1;
		}
		would_block("accept", fd);
		errno = EAGAIN;
		return -1;
	}
	e = inject_fire("accept");
	if (e) {
		if (e == ECONNABORTED) {
			/* the connection is gone from the queue */
			int cfd = f->pending[0];
			memmove(f->pending, f->pending + 1, sizeof(int) * (size_t)(f->npending - 1));
			f->npending--;
			fds[cfd].state = S_DROPPED;
		}
		errno = e;
		return -1;
	}
	int cfd = f->pending[0];
	memmove(f->pending, f->pending + 1, sizeof(int) * (size_t)(f->npending - 1));
	f->npending--;
	struct simfd *c = &fds[cfd];
	c->state = S_OPEN;
	c->linger_on = f->linger_on;
	c->linger_secs = f->linger_secs;
	cur_read_fd = cfd; /* set-up of this connection is "its" processing */
	trace_ev("[\"a\",%d,%d]", cfd, fd);
	if (addr && len) {
		socklen_t l = c->peerlen;
		if (*len < l) l = *len;
		memcpy(addr, &c->peer, l);
		*len = c->peerlen;
	}
	return cfd;
}

int __wrap_accept4(int fd, struct sockaddr *addr, socklen_t *len, int flags)
{
	int cfd = __wrap_accept(fd, addr, len);
	if (cfd >= 0 && (flags & SOCK_NONBLOCK)) fds[cfd].fl |= O_NONBLOCK;
	return cfd;
}

int __real_getpeername(int fd, struct sockaddr *addr, socklen_t *len);
int __wrap_getpeername(int fd, struct sockaddr *addr, socklen_t *len)
{
	if (!is_sim(fd)) return __real_getpeername(fd, addr, len);
	struct simfd *c = live("getpeername", fd, K_STREAM);
	if (!c) return -1;
	socklen_t l = c->peerlen;
	if (*len < l) l = *len;
	memcpy(addr, &c->peer, l);
	*len = c->peerlen;
	return 0;
}

int __real_shutdown(int fd, int how);
int __wrap_shutdown(int fd, int how)
{
	if (!is_sim(fd)) return __real_shutdown(fd, how);
	struct simfd *c = live("shutdown", fd, K_STREAM);
	if (!c) return -1;
	if (how == SHUT_WR || how == SHUT_RDWR) {
		/* the client sees the end of the daemon's stream; further writes fail like on a real socket */
		c->werr_errno = EPIPE;
		c->werr_after = 0;
		c->half_closed_by_daemon = 1;
	}
	return 0;
}

static void scribble(unsigned char *p, size_t n)
{
	static const char tail[] = "]}\"}]}";
	for (size_t i = 0; i < n; i++) {
		switch (scribble_mode) {
		case 1: p[i] = 0x00; break;
		case 2: p[i] = '}'; break;
		case 3: p[i] = '"'; break;
		case 4: p[i] = (unsigned char)tail[i % (sizeof(tail) - 1)]; break;
		case 5:
			scribble_seed = scribble_seed * 1103515245u + 12345u;
			p[i] = (unsigned char)(scribble_seed >> 16);
			break;
		case 6: p[i] = 0xff; break;
		case 7: p[i] = '1'; break;
		default: break;
		}
	}
}

ssize_t __wrap_read(int fd, void *buf, size_t count)
{
	if (!is_sim(fd)) {
		if (in_daemon && !is_real_legit(fd)) {
			hygiene("read", fd, "descriptor not owned by the daemon");
			errno = EBADF;
			return -1;
		}
		return __real_read(fd, buf, count);
	}
	struct simfd *f = live("read", fd, K_NONE);
	if (!f) return -1;
	if (f->kind == K_TIMER) {
		if (count < 8) {
			errno = EINVAL;
			return -1;
		}
		if (f->expirations == 0) {
			would_block("read", fd);
			errno = EAGAIN;
			return -1;
		}
		uint64_t v = f->expirations;
		memcpy(buf, &v, 8);
		f->expirations = 0;
		cur_read_fd = fd;
		trace_ev("[\"x\",%d]", fd);
		return 8;
	}
	if (f->kind != K_STREAM) {
		hygiene("read", fd, "wrong kind of descriptor");
		errno = EINVAL;
		return -1;
	}
	cur_read_fd = fd;
	inj_arg_fd = fd;
	int e = inject_fire("read");
	if (e) {
		trace_ev("[\"e\",%d,%d]", fd, e);
		errno = e;
		return -1;
	}
	struct chunk *c = f->rx_head;
	if (!c) {
		if (f->rst) {
			trace_ev("[\"e\",%d,%d]", fd, ECONNRESET);
			errno = ECONNRESET;
			return -1;
		}
		if (f->eof) {
			trace_ev("[\"e\",%d,0]", fd);
			return 0;
		}
		would_block("read", fd);
		errno = EAGAIN;
		return -1;
	}
	size_t n = c->len - c->off;
	if (n > count) n = count;
	memcpy(buf, c->data + c->off, n);
	c->off += n;
	if (c->off == c->len) {
		f->rx_head = c->next;
		if (!f->rx_head) f->rx_tail = NULL;
		free(c);
	}
	if (scribble_mode && count > n) {
		scribble((unsigned char *)buf + n, count - n);
	}
	return (ssize_t)n;
}

static void tx_append(struct simfd *f, const unsigned char *p, size_t n)
{
	if (n == 0) return;
	if (f->tx_len + n > f->tx_cap) {
		size_t ncap = f->tx_cap ? f->tx_cap * 2 : 1024;
		while (ncap < f->tx_len + n) ncap *= 2;
		f->tx = realloc(f->tx, ncap);
		if (!f->tx) abort();
		f->tx_cap = ncap;
	}
	memcpy(f->tx + f->tx_len, p, n);
	f->tx_len += n;
}

ssize_t __wrap_writev(int fd, const struct iovec *iov, int iovcnt)
{
	if (!is_sim(fd)) {
		if (in_daemon && !is_real_legit(fd)) {
			hygiene("writev", fd, "descriptor not owned by the daemon");
			errno = EBADF;
			return -1;
		}
		return __real_writev(fd, iov, iovcnt);
	}
	struct simfd *f = live("writev", fd, K_STREAM);
	if (!f) return -1;
	size_t total = 0;
	for (int i = 0; i < iovcnt; i++) total += iov[i].iov_len;
	f->nwritev++;
	inj_arg_fd = fd;
	int ie = inject_fire("writev");      /* the n-th writev of the whole daemon fails once (whoever's it is) */
	if (ie) {
		if (taps_on) ds_printf(&wlog, "%s[%d,%zu,-%d]", wlog.len ? "," : "", fd, total, ie);
		trace_ev("[\"w\",%d,%zu,-%d]", fd, total, ie);
		if (ie == EPIPE) broken_pipe(fd);
		errno = ie;
		return -1;
	}
	if (f->werr_after == 0) {
		if (taps_on) ds_printf(&wlog, "%s[%d,%zu,-%d]", wlog.len ? "," : "", fd, total, f->werr_errno);
		if (f->werr_errno == EPIPE) broken_pipe(fd);
		errno = f->werr_errno;
		if (f->werr_once) {
			f->werr_once = 0;
			f->werr_after = -1;
			if (f->werr_errno == EAGAIN) {
				/* "would block" for this one call although room comes back at once (the peer was reading at that very
				 * moment): as after every EAGAIN the kernel announces writability */
				would_block("writev", fd);
				if (f->wbudget == 0) {
					f->blocked = 1; /* nothing is taken anyway: writability is announced when room comes back */
				} else {
					f->blocked = 0;
					if (f->registered && f->state == S_OPEN) raise_edge(f);
				}
			}
		}
		return -1;
	}
	if (f->werr_after > 0) f->werr_after--;
	if (f->rst) {
		if (taps_on) ds_printf(&wlog, "%s[%d,%zu,-%d]", wlog.len ? "," : "", fd, total, EPIPE);
		broken_pipe(fd);
		errno = EPIPE;
		return -1;
	}
	if (total == 0) return 0;
	size_t take = total;
	if (f->wbudget >= 0 && (size_t)f->wbudget < take) take = (size_t)f->wbudget;
	if (f->wcap >= 0 && (size_t)f->wcap < take) take = (size_t)f->wcap;
	if (take == 0) {
		f->blocked = 1;
		f->neagain++;
		if (taps_on) ds_printf(&wlog, "%s[%d,%zu,-%d]", wlog.len ? "," : "", fd, total, EAGAIN);
		trace_ev("[\"w\",%d,%zu,-%d]", fd, total, EAGAIN);
		would_block("writev", fd);
		errno = EAGAIN;
		return -1;
	}
	size_t left = take;
	for (int i = 0; i < iovcnt && left > 0; i++) {
		size_t n = iov[i].iov_len < left ? iov[i].iov_len : left;
		tx_append(f, iov[i].iov_base, n);
		left -= n;
	}
	if (f->wbudget >= 0) {
		f->wbudget -= (long)take;
		if (f->wbudget == 0) f->blocked = 1;
	}
	if (taps_on) ds_printf(&wlog, "%s[%d,%zu,%zu]", wlog.len ? "," : "", fd, total, take);
	trace_ev("[\"w\",%d,%zu,%zu]", fd, total, take);
	return (ssize_t)take;
}

static void free_chunks(struct simfd *f)
{
	struct chunk *c = f->rx_head;
	while (c) {
		struct chunk *n = c->next;
		free(c);
		c = n;
	}
	f->rx_head = f->rx_tail = NULL;
}

/* other ways to move bytes over a descriptor: a simulated socket sees them as the read / writev they amount to; anything else
 * (the password file, stdio) goes to the real kernel */
ssize_t __real_write(int fd, const void *buf, size_t count);
ssize_t __wrap_write(int fd, const void *buf, size_t count)
{
	if (!is_sim(fd)) {
		if (in_daemon && fd > 2) {
			/* a write to a file of the daemon (the credential file's successor): full disk, I/O error */
			int e = inject_fire("filewrite");
			if (e) {
				errno = e;
				return -1;
			}
		}
		return __real_write(fd, buf, count);
	}
	struct iovec v;
	v.iov_base = (void *)buf;
	v.iov_len = count;
	return __wrap_writev(fd, &v, 1);
}

ssize_t __real_send(int fd, const void *buf, size_t count, int flags);
ssize_t __wrap_send(int fd, const void *buf, size_t count, int flags)
{
	if (!is_sim(fd)) return __real_send(fd, buf, count, flags);
	int was = sigpipe_ignored;
	if (flags & MSG_NOSIGNAL) sigpipe_ignored = 1;
	ssize_t r = __wrap_write(fd, buf, count);
	sigpipe_ignored = was;
	return r;
}

ssize_t __real_recv(int fd, void *buf, size_t count, int flags);
ssize_t __wrap_recv(int fd, void *buf, size_t count, int flags)
{
	if (!is_sim(fd)) return __real_recv(fd, buf, count, flags);
	return __wrap_read(fd, buf, count);
}

ssize_t __real_readv(int fd, const struct iovec *iov, int iovcnt);
ssize_t __wrap_readv(int fd, const struct iovec *iov, int iovcnt)
{
	if (!is_sim(fd)) return __real_readv(fd, iov, iovcnt);
	ssize_t total = 0;
	for (int i = 0; i < iovcnt; i++) {
		if (iov[i].iov_len == 0) continue;
		ssize_t r = __wrap_read(fd, iov[i].iov_base, iov[i].iov_len);
		if (r < 0) return total ? total : r;
		total += r;
		if ((size_t)r < iov[i].iov_len) break;
	}
	return total;
}

int __wrap_close(int fd)
{
	if (!is_sim(fd)) {
		if (in_daemon) {
			if (!is_real_legit(fd)) {
				hygiene("close", fd, "descriptor not owned by the daemon");
				errno = EBADF;
				return -1;
			}
			for (int i = 0; i < n_real_fds; i++) {
				if (real_fds[i] == fd) {
					real_fds[i] = real_fds[--n_real_fds];
					break;
				}
			}
		}
		return __real_close(fd);
	}
	struct simfd *f = &fds[fd];
	if (f->state != S_OPEN) {
		hygiene("close", fd, f->state == S_CLOSED ? "double close" : "descriptor not open");
		errno = EBADF;
		return -1;
	}
	if (f->kind == K_STREAM && f->linger_on && f->linger_secs > 0 && f->blocked && f->wbudget == 0 && !f->rst) {
		/* close(2) with SO_LINGER waits (also on a non-blocking socket) until the peer has taken what is queued or the
		 * time is over: the peer is not taking anything (the last write met a full queue), the whole daemon would sleep */
		hygiene("close", fd, "would block: SO_LINGER is set and the peer has not taken what was sent");
	}
	f->state = S_CLOSED;
	if (f->kind == K_STREAM || f->kind == K_TIMER) trace_ev("[\"c\",%d]", fd);
	f->registered = 0; /* closing removes the descriptor from every epoll set */
	f->edge = 0;
	f->armed = 0;
	if (f->kind == K_LISTENER) {
		for (int i = 0; i < f->npending; i++) fds[f->pending[i]].state = S_DROPPED;
		f->npending = 0;
	}
	if (f->kind == K_STREAM) free_chunks(f);
	if (f->kind == K_EPOLL && fd == epoll_fd_sim) epoll_fd_sim = -1;
	return 0;
}

int __wrap_open(const char *path, int flags, ...)
{
	mode_t mode = 0;
	if (flags & O_CREAT) {
		va_list ap;
		va_start(ap, flags);
		mode = va_arg(ap, mode_t);
		va_end(ap);
	}
	int fd = __real_open(path, flags, mode);
	if (fd >= 0 && n_real_fds < 64) real_fds[n_real_fds++] = fd;
	return fd;
}

int __real_fsync(int fd);
int __wrap_fsync(int fd)
{
	if (in_daemon) {
		int e = inject_fire("fsync");
		if (e) {
			errno = e;
			return -1;
		}
	}
	return __real_fsync(fd);
}

int __real_rename(const char *a, const char *b);
int __wrap_rename(const char *a, const char *b)
{
	if (in_daemon) {
		int e = inject_fire("rename");
		if (e) {
			errno = e;
			return -1;
		}
	}
	return __real_rename(a, b);
}

int __wrap_unlink(const char *path)
{
	(void)path;
	return 0;
}

int __wrap_daemon(int a, int b)
{
	(void)a;
	(void)b;
	return 0;
}

int __wrap_epoll_create(int size)
{
	(void)size;
	int e = inject_fire("epoll_create");
	if (e) {
		errno = e;
		return -1;
	}
	int fd = new_fd(K_EPOLL, S_OPEN);
	epoll_fd_sim = fd;
	return fd;
}

int __wrap_epoll_ctl(int epfd, int op, int fd, struct epoll_event *event)
{
	struct simfd *ep = live("epoll_ctl", epfd, K_EPOLL);
	if (!ep) return -1;
	struct simfd *f = live("epoll_ctl", fd, K_NONE);
	if (!f) return -1;
	if (f->kind == K_EPOLL) {
		hygiene("epoll_ctl", fd, "wrong kind of descriptor");
		errno = EINVAL;
		return -1;
	}
	inj_arg_fd = fd;
	int e = inject_fire("epoll_ctl");
	if (e && op == EPOLL_CTL_ADD) {
		errno = e;
		return -1;
	}
	switch (op) {
	case EPOLL_CTL_ADD:
		if (f->registered) {
			errno = EEXIST;
			return -1;
		}
		f->registered = 1;
		f->reg_events = event->events;
		f->data = event->data;
		f->edge = 0;
		if (readiness(f) != 0) raise_edge(f); /* Linux reports current readiness on ADD */
		return 0;
	case EPOLL_CTL_DEL:
		if (!f->registered) {
			errno = ENOENT; /* legal (own, open descriptor): e.g. teardown after a failed EPOLL_CTL_ADD */
			return -1;
		}
		f->registered = 0;
		f->edge = 0;
		return 0;
	case EPOLL_CTL_MOD:
		if (!f->registered) {
			errno = ENOENT;
			return -1;
		}
		f->data = event->data;
		f->reg_events = event->events;
		if (readiness(f) != 0) raise_edge(f); /* EPOLL_CTL_MOD re-arms */
		return 0;
	default:
		errno = EINVAL;
		return -1;
	}
}

int __wrap_timerfd_create(int clockid, int flags)
{
	(void)clockid;
	int e = inject_fire("timerfd_create");
	if (e) {
		errno = e;
		return -1;
	}
	int tfd = new_fd(K_TIMER, S_OPEN);
	fds[tfd].fl = (flags & TFD_NONBLOCK) ? O_NONBLOCK : 0;
	return tfd;
}

int __wrap_timerfd_settime(int fd, int flags, const struct itimerspec *nv, struct itimerspec *ov)
{
	(void)ov;
	struct simfd *f = live("timerfd_settime", fd, K_TIMER);
	if (!f) return -1;
	inj_arg_fd = fd;
	int e = inject_fire("timerfd_settime");
	if (e) {
		errno = e;
		return -1;
	}
	if (nv->it_value.tv_nsec < 0 || nv->it_value.tv_nsec > 999999999 || nv->it_value.tv_sec < 0) {
		errno = EINVAL;
		return -1;
	}
	uint64_t v = (uint64_t)nv->it_value.tv_sec * 1000000000ull + (uint64_t)nv->it_value.tv_nsec;
	if ((flags & TFD_TIMER_ABSTIME) && v != 0) {
		/* an absolute point of time on the timer's clock: what is left of it from now on (at once, if it has passed) */
		v = v > now_ns ? v - now_ns : 1;
	}
	f->nsettime++;
	trace_ev("[\"t\",%d,%llu]", fd, (unsigned long long)v);
	if (v == 0) {
		f->armed = 0;
		f->expirations = 0;
		f->edge = 0;
	} else {
		f->armed = 1;
		f->armed_ns = v;
		f->deadline = (v > UINT64_MAX - now_ns) ? UINT64_MAX : now_ns + v; /* Linux saturates, it never wraps */
		f->expirations = 0;
	}
	return 0;
}

typedef void (*sighandler_t)(int);
sighandler_t __real_signal(int signum, sighandler_t handler);
sighandler_t __wrap_signal(int signum, sighandler_t handler)
{
	if (signum == SIGPIPE) {
		sigpipe_ignored = handler == SIG_IGN;
		sigpipe_handler = (handler == SIG_IGN || handler == SIG_DFL) ? NULL : handler;
		return SIG_DFL;
	}
	if (signum == SIGTERM) {
		sighandler_t old = sigterm_handler;
		sigterm_handler = (handler == SIG_DFL || handler == SIG_IGN) ? NULL : handler;
		return old ? old : SIG_DFL;
	}
	return SIG_DFL;
}

void __wrap_syslog(int pri, const char *fmt, ...)
{
	char tmp[400];
	va_list ap;
	va_start(ap, fmt);
	vsnprintf(tmp, sizeof(tmp), fmt, ap);
	va_end(ap);
	if (!taps_on) return;
	if (n_logs) ds_put(&logs, ",");
	n_logs++;
	ds_printf(&logs, "[%d,", pri);
	ds_jsonstr(&logs, tmp);
	ds_put(&logs, "]");
}

#if defined(__has_feature)
#if __has_feature(memory_sanitizer)
#include <sanitizer/msan_interface.h>
#define SIMK_MSAN 1
#endif
#endif

char *__real_crypt(const char *key, const char *salt);
char *__wrap_crypt(const char *key, const char *salt)
{
	char *r = __real_crypt(key, salt);
#ifdef SIMK_MSAN
	if (r) __msan_unpoison(r, strlen(r) + 1); /* libcrypt is not instrumented */
#endif
	return r;
}

/* ------------------------------------------------------------------ */
/* observation taps on cjet-internal seams                             */

int __wrap_buffered_socket_writev(void *this_ptr, struct socket_io_vector *io_vec, unsigned int count)
{
	struct buffered_socket *bs = this_ptr;
	int fd = bs->ev.sock;
	struct dstr frame = {0};
	if (taps_on) {
		for (unsigned int i = 0; i < count; i++) ds_hex(&frame, io_vec[i].iov_base, io_vec[i].iov_len);
	}
	int ret = __real_buffered_socket_writev(this_ptr, io_vec, count);
	if (taps_on) {
		if (n_trace) ds_put(&trace, ",");
		n_trace++;
		ds_printf(&trace, "[\"g\",%d,\"", fd);
		if (frame.p) ds_put(&trace, frame.p);
		ds_printf(&trace, "\",%d]", ret);
		free(frame.p);
	}
	return ret;
}

int __wrap_parse_message(const char *msg, size_t length, struct peer *p)
{
	if (taps_on) {
		if (n_trace) ds_put(&trace, ",");
		n_trace++;
		ds_printf(&trace, "[\"m\",%d,\"", cur_read_fd);
		ds_hex(&trace, (const unsigned char *)msg, length);
		ds_put(&trace, "\"]");
	}
	return __real_parse_message(msg, length, p);
}

int __wrap_init_http_connection(void *connection, const void *server, void *reader, int is_local)
{
	if (ws_compression_level > 0) {
		return init_http_connection2(connection, server, reader, is_local != 0, (unsigned int)ws_compression_level);
	}
	return __real_init_http_connection(connection, server, reader, is_local);
}

/* where an injected allocation failure happens: 0 = the accounting allocator refuses (as at the heap cap), 1 = the C library
 * returns NULL inside the accounting allocator (alloc.c is compiled with malloc / calloc renamed to the two functions below) */
static int failalloc_site;
static int libc_fail_pending;

void *simk_libc_malloc(size_t n)
{
	if (libc_fail_pending) {
		libc_fail_pending = 0;
		errno = ENOMEM;
		return NULL;
	}
	return malloc(n);
}

void *simk_libc_calloc(size_t a, size_t b)
{
	if (libc_fail_pending) {
		libc_fail_pending = 0;
		errno = ENOMEM;
		return NULL;
	}
	return calloc(a, b);
}

static int alloc_should_fail(void)
{
	if (!in_daemon) return 0;
	alloc_counter++;
	if (failalloc_in >= 0) {
		if (failalloc_in == 0) {
			if (failalloc_count > 0) {
				failalloc_count--;
				alloc_failed++;
				alloc_fail_fd = cur_read_fd;
				if (n_alloc_fail_fds < 16) alloc_fail_fds[n_alloc_fail_fds++] = cur_read_fd;
				if (failalloc_count == 0) failalloc_in = -1;
				return 1;
			}
			failalloc_in = -1;
		} else {
			failalloc_in--;
		}
	}
	return 0;
}

static void check_cap(void)
{
	size_t s = cjet_get_alloc_size();
	if (s > heap_peak) heap_peak = s;
	if (s > CONFIG_MAX_HEAPSIZE_IN_KBYTE * 1024) cap_violations++;
}

void *__wrap_cjet_malloc(size_t size)
{
	if (alloc_should_fail()) {
		if (!failalloc_site) return NULL;
		libc_fail_pending = 1;
	}
	void *p = __real_cjet_malloc(size);
	libc_fail_pending = 0;
	check_cap();
	return p;
}

void *__wrap_cjet_calloc(size_t nmemb, size_t size)
{
	if (alloc_should_fail()) {
		if (!failalloc_site) return NULL;
		libc_fail_pending = 1;
	}
	void *p = __real_cjet_calloc(nmemb, size);
	libc_fail_pending = 0;
	check_cap();
	return p;
}

/* ------------------------------------------------------------------ */
/* control                                                             */

static struct dstr out;

#ifdef SIMK_FUZZ
static void reply(void)
{
	ds_clear(&out);
}
static char *fuzz_next_line(void);
#else
static void reply(void)
{
	ds_put(&out, "\n");
	size_t off = 0;
	while (off < out.len) {
		ssize_t n = __real_write(1, out.p + off, out.len - off);
		if (n <= 0) {
			if (n < 0 && errno == EINTR) continue;
			_exit(3);
		}
		off += (size_t)n;
	}
	ds_clear(&out);
}

#endif

static char *linebuf;
static size_t linecap;

#ifdef SIMK_FUZZ
static char *read_line(void)
{
	return fuzz_next_line();
}
#else
static char *read_line(void)
{
	size_t len = 0;
	static char ibuf[65536];
	static size_t ilen, ioff;
	for (;;) {
		if (ioff == ilen) {
			ssize_t n = __real_read(0, ibuf, sizeof(ibuf));
			if (n == 0) return NULL;
			if (n < 0) {
				if (errno == EINTR) continue;
				return NULL;
			}
			ilen = (size_t)n;
			ioff = 0;
		}
		char c = ibuf[ioff++];
		if (len + 2 > linecap) {
			linecap = linecap ? linecap * 2 : 4096;
			linebuf = realloc(linebuf, linecap);
			if (!linebuf) abort();
		}
		if (c == '\n') {
			linebuf[len] = 0;
			return linebuf;
		}
		linebuf[len++] = c;
	}
}

#endif

static int hexval(int c)
{
	if (c >= '0' && c <= '9') return c - '0';
	if (c >= 'a' && c <= 'f') return c - 'a' + 10;
	if (c >= 'A' && c <= 'F') return c - 'A' + 10;
	return -1;
}

/* registrations without EPOLLET are level triggered: ready means reportable, again and again */
static void refresh_level_triggered(void)
{
	for (int fd = SIM_FD_BASE; fd < next_fd; fd++) {
		struct simfd *f = &fds[fd];
		if (f->state == S_OPEN && f->registered && !(f->reg_events & EPOLLET) && reported(f) != 0) raise_edge(f);
	}
}

static void put_pending(void)
{
	refresh_level_triggered();
	ds_put(&out, "\"pending\":[");
	int first = 1;
	for (int fd = SIM_FD_BASE; fd < next_fd; fd++) {
		struct simfd *f = &fds[fd];
		if (f->state == S_OPEN && f->registered && f->edge) {
			ds_printf(&out, "%s%d", first ? "" : ",", fd);
			first = 0;
		}
	}
	ds_put(&out, "]");
}

static void put_stat(void)
{
	int cnt[5] = {0, 0, 0, 0, 0}, regs = 0;
	for (int fd = SIM_FD_BASE; fd < next_fd; fd++) {
		struct simfd *f = &fds[fd];
		if (f->state == S_OPEN) {
			cnt[f->kind]++;
			if (f->registered) regs++;
		}
	}
	ds_printf(&out, "\"heap\":%zu,\"heap_peak\":%zu,\"cap_violations\":%lu,\"peers\":%d,\"fds\":{\"listener\":%d,\"stream\":%d,\"epoll\":%d,\"timer\":%d},\"regs\":%d,\"allocs\":%lu,\"alloc_failed\":%lu,\"alloc_fail_fd\":%d,\"now\":%llu,\"n_hygiene\":%lu,\"real_fds\":%d,",
	          cjet_get_alloc_size(), heap_peak, cap_violations, get_number_of_peers(), cnt[K_LISTENER], cnt[K_STREAM], cnt[K_EPOLL], cnt[K_TIMER], regs, alloc_counter, alloc_failed, alloc_fail_fd,
	          (unsigned long long)now_ns, n_hyg, n_real_fds);
	ds_put(&out, "\"alloc_fail_fds\":[");
	for (int i = 0; i < n_alloc_fail_fds; i++) ds_printf(&out, "%s%d", i ? "," : "", alloc_fail_fds[i]);
	ds_put(&out, "],");
	ds_put(&out, "\"timers\":[");
	int first = 1;
	for (int fd = SIM_FD_BASE; fd < next_fd; fd++) {
		struct simfd *f = &fds[fd];
		if (f->state == S_OPEN && f->kind == K_TIMER) {
			ds_printf(&out, "%s{\"fd\":%d,\"armed\":%d,\"deadline\":%llu,\"armed_ns\":%llu,\"registered\":%d,\"nsettime\":%lu}", first ? "" : ",", fd, f->armed,
			          (unsigned long long)f->deadline, (unsigned long long)f->armed_ns, f->registered, f->nsettime);
			first = 0;
		}
	}
	ds_put(&out, "],\"open_streams\":[");
	first = 1;
	for (int fd = SIM_FD_BASE; fd < next_fd; fd++) {
		struct simfd *f = &fds[fd];
		if (f->state == S_OPEN && f->kind == K_STREAM) {
			ds_printf(&out, "%s%d", first ? "" : ",", fd);
			first = 0;
		}
	}
	ds_put(&out, "],\"inject_fired_fds\":[");
	for (int i = 0; i < n_inj_fired_fds; i++) ds_printf(&out, "%s%d", i ? "," : "", inj_fired_fds[i]);
	ds_put(&out, "],\"injects\":{");
	first = 1;
	for (struct inject *i = injects; i->name; i++) {
		ds_printf(&out, "%s\"%s\":[%lu,%lu]", first ? "" : ",", i->name, i->calls, i->fired);
		first = 0;
	}
	ds_put(&out, "}");
}

static void put_taps(void)
{
	ds_put(&out, "\"trace\":[");
	if (trace.p) ds_put(&out, trace.p);
	ds_put(&out, "],\"log\":[");
	if (logs.p) ds_put(&out, logs.p);
	ds_put(&out, "],\"writes\":[");
	if (wlog.p) ds_put(&out, wlog.p);
	ds_put(&out, "],\"hygiene\":[");
	if (hyg.p) ds_put(&out, hyg.p);
	ds_put(&out, "]");
	ds_clear(&trace);
	n_trace = 0;
	ds_clear(&logs);
	ds_clear(&wlog);
	ds_clear(&hyg);
	n_logs = 0;
	n_hyg = 0;
}

static long arg_long(const char *line, const char *key, long dflt)
{
	const char *p = strstr(line, key);
	if (!p) return dflt;
	p += strlen(key);
	if (strncmp(p, "inf", 3) == 0) return -1;
	return strtol(p, NULL, 10);
}

static void expire_timers(void)
{
	for (int fd = SIM_FD_BASE; fd < next_fd; fd++) {
		struct simfd *f = &fds[fd];
		if (f->state == S_OPEN && f->kind == K_TIMER && f->armed && f->deadline <= now_ns) {
			f->armed = 0;
			f->expirations++;
			if (f->registered) raise_edge(f);
		}
	}
}

/* handles one command; returns 1 when the daemon shall be resumed */
static int n_batch;
static struct epoll_event *batch_out;
static int batch_max;
static struct dstr delivered;

static int cmp_seq(const void *a, const void *b)
{
	const struct simfd *fa = &fds[*(const int *)a], *fb = &fds[*(const int *)b];
	return fa->edge_seq < fb->edge_seq ? -1 : fa->edge_seq > fb->edge_seq;
}

static void harvest(const char *line)
{
	int cand[1024];
	int n = 0;
	refresh_level_triggered();
	long max = arg_long(line, "max=", batch_max);
	if (max > batch_max || max < 0) max = batch_max;
	const char *order = strstr(line, "order=");
	const char *only = strstr(line, "only=");
	long seed = arg_long(line, "shuffle=", 0);
	long spurious = arg_long(line, "spurious=", 0);
	if (order) {
		const char *p = order + 6;
		while (*p && *p != ' ' && n < 1024) {
			int fd = (int)strtol(p, (char **)&p, 10);
			if (is_sim(fd) && fds[fd].state == S_OPEN && fds[fd].registered && (fds[fd].edge || (spurious && fd == spurious))) cand[n++] = fd;
			if (*p == ',') p++;
		}
	} else {
		for (int fd = SIM_FD_BASE; fd < next_fd && n < 1024; fd++) {
			struct simfd *f = &fds[fd];
			if (f->state == S_OPEN && f->registered && f->edge) {
				if (only) {
					char key[16];
					snprintf(key, sizeof(key), ",%d,", fd);
					char tmp[512];
					const char *e = only + 5;
					size_t l = strcspn(e, " ");
					if (l > sizeof(tmp) - 3) l = sizeof(tmp) - 3;
					tmp[0] = ',';
					memcpy(tmp + 1, e, l);
					tmp[l + 1] = ',';
					tmp[l + 2] = 0;
					if (!strstr(tmp, key)) continue;
				}
				cand[n++] = fd;
			}
		}
		qsort(cand, (size_t)n, sizeof(int), cmp_seq);
		if (seed) {
			unsigned int s = (unsigned int)seed;
			for (int i = n - 1; i > 0; i--) {
				s = s * 1103515245u + 12345u;
				int j = (int)((s >> 16) % (unsigned int)(i + 1));
				int t = cand[i];
				cand[i] = cand[j];
				cand[j] = t;
			}
		}
	}
	if (n > max) n = (int)max;
	ds_clear(&delivered);
	for (int i = 0; i < n; i++) {
		struct simfd *f = &fds[cand[i]];
		uint32_t m = reported(f);
		if (m == 0) m = EPOLLIN; /* spurious wake-up */
		batch_out[i].events = m;
		batch_out[i].data = f->data;
		f->edge = 0;
		ds_printf(&delivered, "%s[%d,%u]", i ? "," : "", cand[i], m);
	}
	n_batch = n;
}

static void put_listeners(void)
{
	ds_put(&out, "\"listeners\":[");
	int first = 1;
	for (int fd = SIM_FD_BASE; fd < next_fd; fd++) {
		struct simfd *f = &fds[fd];
		if (f->kind == K_LISTENER) {
			ds_printf(&out, "%s{\"fd\":%d,\"family\":%d,\"port\":%d,\"open\":%d,\"registered\":%d}", first ? "" : ",", fd, f->family, f->port, f->state == S_OPEN, f->registered);
			first = 0;
		}
	}
	ds_put(&out, "]");
}

static int handle_command(char *line)
{
	char cmd[32];
	int fd = -1;
	if (sscanf(line, "%31s", cmd) != 1) {
		ds_put(&out, "{\"err\":\"empty\"}");
		reply();
		return 0;
	}
	const char *rest = line + strlen(cmd);
	while (*rest == ' ') rest++;

	if (strcmp(cmd, "poll") == 0) {
		if (daemon_exited) {
			ds_printf(&out, "{\"exit\":%d}", daemon_status);
			reply();
			return 0;
		}
		expire_timers();
		harvest(line);
		return 1;
	}
	if (strcmp(cmd, "sigterm") == 0) {
		if (daemon_exited) {
			ds_printf(&out, "{\"exit\":%d}", daemon_status);
			reply();
			return 0;
		}
		if (sigterm_handler) sigterm_handler(SIGTERM);
		pending_eintr = 1;
		return 1;
	}
	if (strcmp(cmd, "eintr") == 0) {
		/* epoll_wait() interrupted without any handler of the daemon having run (the process was stopped and continued):
		 * -1 / EINTR, nothing harvested, every pending edge stays pending */
		if (daemon_exited) {
			ds_printf(&out, "{\"exit\":%d}", daemon_status);
			reply();
			return 0;
		}
		pending_eintr = 1;
		return 1;
	}
	if (strcmp(cmd, "abortloop") == 0) {
		if (daemon_exited) {
			ds_printf(&out, "{\"exit\":%d}", daemon_status);
			reply();
			return 0;
		}
		pending_abort = 1;
		return 1;
	}
	if (strcmp(cmd, "connect") == 0) {
		/* connect <listener fd> <4|6|u> <addrhex> <port> */
		int lfd, port = 0;
		char fam[8] = "", addr[80] = "";
		int n = sscanf(rest, "%d %7s %79s %d", &lfd, fam, addr, &port);
		if (n < 2 || !is_sim(lfd) || fds[lfd].kind != K_LISTENER || fds[lfd].state != S_OPEN || !fds[lfd].listening) {
			ds_put(&out, "{\"err\":\"no such listener\"}");
			reply();
			return 0;
		}
		struct simfd *l = &fds[lfd];
		int cfd = new_fd(K_STREAM, S_RESERVED);
		struct simfd *c = &fds[cfd];
		c->listener = lfd;
		memset(&c->peer, 0, sizeof(c->peer));
		if (fam[0] == '4') {
			struct sockaddr_in *a = (struct sockaddr_in *)&c->peer;
			a->sin_family = AF_INET;
			a->sin_port = htons((uint16_t)port);
			inet_pton(AF_INET, addr, &a->sin_addr);
			c->peerlen = sizeof(*a);
		} else if (fam[0] == '6') {
			struct sockaddr_in6 *a = (struct sockaddr_in6 *)&c->peer;
			a->sin6_family = AF_INET6;
			a->sin6_port = htons((uint16_t)port);
			inet_pton(AF_INET6, addr, &a->sin6_addr);
			c->peerlen = sizeof(*a);
		} else {
			struct sockaddr_un *a = (struct sockaddr_un *)&c->peer;
			a->sun_family = AF_UNIX;
			c->peerlen = sizeof(sa_family_t); /* unnamed unix client, as Linux reports it */
		}
		if (l->npending == l->cappending) {
			l->cappending = l->cappending ? l->cappending * 2 : 8;
			l->pending = realloc(l->pending, sizeof(int) * (size_t)l->cappending);
		}
		l->pending[l->npending++] = cfd;
		if (l->registered) raise_edge(l);
		ds_printf(&out, "{\"c\":%d}", cfd);
		reply();
		return 0;
	}
	if (strcmp(cmd, "send") == 0) {
		char *end;
		fd = (int)strtol(rest, &end, 10);
		while (*end == ' ') end++;
		if (!is_sim(fd) || fds[fd].kind != K_STREAM) {
			ds_put(&out, "{\"err\":\"no such stream\"}");
			reply();
			return 0;
		}
		struct simfd *f = &fds[fd];
		size_t hl = strlen(end) / 2;
		if (f->state == S_CLOSED || f->state == S_DROPPED || f->eof || f->rst) {
			ds_printf(&out, "{\"queued\":0,\"closed\":%d}", f->state == S_CLOSED);
			reply();
			return 0;
		}
		struct chunk *c = malloc(sizeof(*c) + hl);
		c->next = NULL;
		c->len = hl;
		c->off = 0;
		for (size_t i = 0; i < hl; i++) c->data[i] = (unsigned char)((hexval(end[2 * i]) << 4) | hexval(end[2 * i + 1]));
		if (hl == 0) {
			free(c);
		} else {
			if (f->rx_tail) f->rx_tail->next = c; else f->rx_head = c;
			f->rx_tail = c;
			if (f->registered) raise_edge(f);
		}
		ds_printf(&out, "{\"queued\":%zu}", hl);
		reply();
		return 0;
	}
	if (strcmp(cmd, "eof") == 0 || strcmp(cmd, "rst") == 0) {
		fd = atoi(rest);
		if (!is_sim(fd) || fds[fd].kind != K_STREAM) {
			ds_put(&out, "{\"err\":\"no such stream\"}");
			reply();
			return 0;
		}
		struct simfd *f = &fds[fd];
		if (f->state == S_OPEN || f->state == S_RESERVED) {
			if (cmd[0] == 'e') {
				f->eof = 1;
			} else {
				f->rst = 1;
				free_chunks(f);
			}
			if (f->registered) raise_edge(f);
		}
		ds_put(&out, "{\"ok\":1}");
		reply();
		return 0;
	}
	if (strcmp(cmd, "wpol") == 0) {
		fd = atoi(rest);
		if (!is_sim(fd) || fds[fd].kind != K_STREAM) {
			ds_put(&out, "{\"err\":\"no such stream\"}");
			reply();
			return 0;
		}
		struct simfd *f = &fds[fd];
		long b = arg_long(line, "budget=", -2), c = arg_long(line, "cap=", -2);
		long en = arg_long(line, "err=", 0), after = arg_long(line, "after=", 0);
		if (b != -2) {
			int was_blocked = f->blocked && f->wbudget == 0;
			f->wbudget = b;
			if (b != 0 && was_blocked) {
				f->blocked = 0;
				if (f->registered && f->state == S_OPEN) raise_edge(f);
			}
		}
		if (c != -2) f->wcap = c;
		if (en > 0) {
			f->werr_errno = (int)en;
			f->werr_after = after;
			f->werr_once = arg_long(line, "once=", 0) != 0;
		}
		ds_put(&out, "{\"ok\":1}");
		reply();
		return 0;
	}
	if (strcmp(cmd, "drain") == 0) {
		fd = atoi(rest);
		if (!is_sim(fd) || fds[fd].kind != K_STREAM) {
			ds_put(&out, "{\"err\":\"no such stream\"}");
			reply();
			return 0;
		}
		struct simfd *f = &fds[fd];
		ds_put(&out, "{\"hex\":\"");
		ds_hex(&out, f->tx + f->tx_drained, f->tx_len - f->tx_drained);
		f->tx_drained = f->tx_len;
		ds_printf(&out, "\",\"closed\":%s,\"state\":\"%s\",\"rx_left\":%d,\"blocked\":%d,\"nwritev\":%lu,\"neagain\":%lu,\"registered\":%d}", f->state == S_CLOSED ? "true" : "false", state_name[f->state],
		          f->rx_head != NULL, f->blocked, f->nwritev, f->neagain, f->registered);
		reply();
		return 0;
	}
	if (strcmp(cmd, "advance") == 0) {
		now_ns += strtoull(rest, NULL, 10);
		expire_timers();
		ds_printf(&out, "{\"now\":%llu,", (unsigned long long)now_ns);
		put_pending();
		ds_put(&out, "}");
		reply();
		return 0;
	}
	if (strcmp(cmd, "inject") == 0) {
		char name[32];
		long nth = 0;
		int err = 0;
		if (sscanf(rest, "%31s %ld %d", name, &nth, &err) == 3) {
			for (struct inject *i = injects; i->name; i++) {
				if (strcmp(i->name, name) == 0) {
					i->nth = nth;
					i->err = err;
				}
			}
		}
		ds_put(&out, "{\"ok\":1}");
		reply();
		return 0;
	}
	if (strcmp(cmd, "failalloc") == 0) {
		long nth = 0, count = 1, site = 0;
		sscanf(rest, "%ld %ld %ld", &nth, &count, &site);
		failalloc_in = nth;
		failalloc_count = count;
		failalloc_site = (int)site;
		ds_put(&out, "{\"ok\":1}");
		reply();
		return 0;
	}
	if (strcmp(cmd, "scribble") == 0) {
		scribble_mode = atoi(rest);
		ds_put(&out, "{\"ok\":1}");
		reply();
		return 0;
	}
	if (strcmp(cmd, "compression") == 0) {
		ws_compression_level = atoi(rest);
		ds_put(&out, "{\"ok\":1}");
		reply();
		return 0;
	}
	if (strcmp(cmd, "taps") == 0) {
		if (strncmp(rest, "off", 3) == 0) {
			taps_on = 0;
			ds_put(&out, "{\"ok\":1}");
		} else if (strncmp(rest, "on", 2) == 0) {
			taps_on = 1;
			ds_put(&out, "{\"ok\":1}");
		} else {
			ds_put(&out, "{");
			put_taps();
			ds_put(&out, "}");
		}
		reply();
		return 0;
	}
	if (strcmp(cmd, "stat") == 0) {
		ds_put(&out, "{");
		put_stat();
		ds_put(&out, ",");
		put_pending();
		ds_put(&out, "}");
		reply();
		return 0;
	}
	if (strcmp(cmd, "listeners") == 0) {
		ds_put(&out, "{");
		put_listeners();
		ds_put(&out, "}");
		reply();
		return 0;
	}
	if (strcmp(cmd, "quit") == 0) {
		return -1;
	}
	ds_put(&out, "{\"err\":\"unknown command\"}");
	reply();
	return 0;
}

int __wrap_epoll_wait(int epfd, struct epoll_event *events, int maxevents, int timeout)
{
	(void)timeout;
	in_daemon = 0;
	struct simfd *ep = live("epoll_wait", epfd, K_EPOLL);
	if (!ep) {
		in_daemon = 1;
		return -1;
	}
	/* the daemon is idle: tell the driver */
	ds_put(&out, "{\"idle\":1,\"delivered\":[");
	if (delivered.p) ds_put(&out, delivered.p);
	ds_put(&out, "],");
	ds_clear(&delivered);
	put_pending();
	ds_put(&out, "}");
	reply();

	batch_out = events;
	batch_max = maxevents;
	for (;;) {
		char *line = read_line();
#ifdef SIMK_FUZZ
		if (!line) {
			pending_abort = 1; /* end of the script: leave the loop through its error exit, all clean-up code runs */
			break;
		}
#else
		if (!line) _exit(0); /* driver went away */
#endif
		int r = handle_command(line);
		if (r < 0) _exit(0);
		if (r == 1) break;
	}
	in_daemon = 1;
	if (pending_eintr) {
		pending_eintr = 0;
		errno = EINTR;
		return -1;
	}
	if (pending_abort) {
		pending_abort = 0;
		errno = EBADF;
		return -1;
	}
	return n_batch;
}

#ifdef SIMK_FUZZ
#include "simk_fuzz.inc"
#else
int main(int argc, char **argv)
{
	__real_signal(SIGPIPE, SIG_IGN); /* the harness' own pipes; the daemon's request goes through __wrap_signal */
	/* failures of start-up calls are scripted through the environment: SIMK_STARTUP_INJECT="bind:2:98,listen:1:12" */
	const char *si = getenv("SIMK_STARTUP_INJECT");
	startup_inject = si != NULL;
	while (si && *si) {
		char name[32];
		long nth = 0;
		int err = 0;
		if (sscanf(si, "%31[^:]:%ld:%d", name, &nth, &err) == 3) {
			for (struct inject *i = injects; i->name; i++) {
				if (strcmp(i->name, name) == 0) {
					i->nth = nth;
					i->err = err;
				}
			}
		}
		si = strchr(si, ',');
		if (si) si++;
	}
	in_daemon = 1;
	int ret = cjet_main(argc, argv);
	in_daemon = 0;
	daemon_exited = 1;
	daemon_status = ret;
	ds_printf(&out, "{\"exit\":%d,\"delivered\":[", ret);
	if (delivered.p) ds_put(&out, delivered.p);
	ds_put(&out, "]}");
	reply();
	for (;;) {
		char *line = read_line();
		if (!line) break;
		if (handle_command(line) < 0) break;
	}
	/* leave through exit() so that LeakSanitizer runs */
	free(out.p);
	free(hyg.p);
	free(trace.p);
	free(logs.p);
	free(wlog.p);
	free(delivered.p);
	free(linebuf);
	for (int fd = SIM_FD_BASE; fd < next_fd; fd++) {
		free(fds[fd].tx);
		free(fds[fd].pending);
		free_chunks(&fds[fd]);
	}
	return ret;
}
#endif
