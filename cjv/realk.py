"""Real-kernel lane (fidelity anchor): the same script that scen_seg executes on the simulated kernel is executed against
the real daemon binary (no --wrap, real Linux sockets / epoll / timerfd) inside its own network namespace.  Quiescence is
detected by fencing (an `info` request with a unique id on every live connection; the daemon is single threaded and in
order per connection), never by sleeping.  A watchdog that fires makes the run inconclusive.

Run as:  unshare -n python3 -m cjv.realk <binary> <script.json>   -> prints {"outputs": [...]} or {"inconclusive": "..."}"""
import json, os, re, socket, subprocess, sys, time

from . import wire

CANON = re.compile(r"(?:[^\"]*_)?[0-9a-f]+_0x[0-9a-f]+")   # "<origin id>_<counter>_<peer address>", no origin part for numeric ids
TIMEOUT = 8.0


class Inconclusive(Exception):
    pass


def main():
    binary, script = sys.argv[1], sys.argv[2]
    with open(script) as fh:
        sc = json.load(fh)
    conns = sc["conns"]
    steps = sc["steps"]
    subprocess.run(["ip", "link", "set", "lo", "up"], check=True)
    env = dict(os.environ, ASAN_OPTIONS="abort_on_error=0:exitcode=97:detect_leaks=1", UBSAN_OPTIONS="halt_on_error=1:exitcode=98")
    errf = open(script + ".stderr", "wb")
    d = subprocess.Popen([binary, "-f"], stdin=subprocess.DEVNULL, stdout=subprocess.DEVNULL, stderr=errf, env=env)
    try:
        out = run(d, conns, steps)
        d.terminate()
        try:
            rc = d.wait(timeout=10)
        except subprocess.TimeoutExpired:
            d.kill()
            rc = "hang-at-sigterm"
        out["exit"] = rc
    except Inconclusive as e:
        d.kill()
        out = {"inconclusive": str(e)}
    errf.close()
    with open(script + ".stderr", "rb") as fh:
        out["stderr"] = fh.read().decode("utf-8", "replace")[-3000:]
    os.unlink(script + ".stderr")
    print(json.dumps(out))


def connect(t):
    deadline = time.time() + TIMEOUT
    while True:
        try:
            if t == "uds":
                s = socket.socket(socket.AF_UNIX, socket.SOCK_STREAM)
                s.connect("\0/var/run/jet.socket")
            else:
                s = socket.create_connection(("127.0.0.1", 11123 if t == "ws" else 11122), timeout=TIMEOUT)
            s.settimeout(TIMEOUT)
            return s
        except OSError:
            if time.time() > deadline:
                raise Inconclusive("daemon does not accept connections")
            time.sleep(0.02)


def run(d, conns, steps):
    # connections are made in the order of their first step, right before it (the simulated executor does the same: the
    # order of the daemon's peer list is part of the script, not of the kernel's choices)
    socks = [None for t in conns]
    decs = [wire.WsDecoder() if t == "ws" else wire.RawDecoder() for t in conns]
    outputs = [[] for _ in conns]
    fwd = [[] for _ in conns]
    closed = [False] * len(conns)
    upgraded = [t != "ws" for t in conns]
    fencec = [0]

    fences_seen = set()

    def feed(i, data):
        for kind, payload, obj, _w in decs[i].feed(data):
            if kind == "msg" and isinstance(obj, dict) and isinstance(obj.get("id"), str) and obj["id"].startswith("fence-"):
                fences_seen.add(obj["id"])
                continue
            if kind == "msg" and isinstance(obj, dict) and "method" in obj and "id" in obj:
                fwd[i].append(obj["id"])
            if kind == "http":
                outputs[i].append(["http", obj])
                if obj == 101:
                    upgraded[i] = True
            elif kind == "msg":
                outputs[i].append(obj)
            else:
                outputs[i].append([kind, payload.hex()])

    def fence():
        """returns when everything sent so far was processed and everything it produced was received"""
        for i, s in enumerate(socks):
            if s is None or closed[i] or not upgraded[i] or halfclosed[i]:
                continue
            fencec[0] += 1
            fid = "fence-%d" % fencec[0]
            pl = json.dumps({"id": fid, "method": "info"}).encode()
            fr = wire.ws_frame(1, pl, mask=b"\x0a\x0b\x0c\x0d") if conns[i] == "ws" else wire.raw_frame(pl)
            try:
                s.sendall(fr)
            except OSError:
                pass
            while fid not in fences_seen:
                try:
                    data = s.recv(65536)
                except socket.timeout:
                    raise Inconclusive("fence timed out on connection %d" % i)
                except OSError:
                    data = b""
                if not data:
                    closed[i] = True
                    outputs[i].append("<closed>")
                    break
                feed(i, data)

    halfclosed = [False] * len(conns)
    replied = [0] * len(conns)
    for st in steps:
        c = st["c"]
        if closed[c] or halfclosed[c]:
            continue
        if socks[c] is None:
            socks[c] = connect(conns[c])
            fence()
        if st.get("eof"):
            try:
                socks[c].shutdown(socket.SHUT_WR)
            except OSError:
                pass
            halfclosed[c] = True
            # the daemon releases the connection: wait for its EOF
            while not closed[c]:
                try:
                    data = socks[c].recv(65536)
                except socket.timeout:
                    raise Inconclusive("no EOF after FIN on connection %d" % c)
                except OSError:
                    data = b""
                if not data:
                    closed[c] = True
                    outputs[c].append("<closed>")
                else:
                    feed(c, data)
            fence()
            continue
        if "reply" in st:
            if replied[c] >= len(fwd[c]):
                continue
            rid = fwd[c][replied[c]]
            replied[c] += 1
            payload = json.dumps({"id": rid, st["reply"]: {"n": replied[c]}}).encode()
            unit = wire.ws_frame(1, payload, mask=b"\x09\x08\x07\x06") if conns[c] == "ws" else wire.raw_frame(payload)
        else:
            unit = bytes.fromhex(st["unit"])
        try:
            socks[c].sendall(unit)
        except OSError:
            pass
        if not upgraded[c]:
            # the handshake: wait for the response head
            while not upgraded[c] and not closed[c]:
                try:
                    data = socks[c].recv(65536)
                except socket.timeout:
                    raise Inconclusive("no handshake response on connection %d" % c)
                if not data:
                    closed[c] = True
                    outputs[c].append("<closed>")
                else:
                    feed(c, data)
        fence()
    for i in range(len(socks)):
        if socks[i] is None:
            socks[i] = connect(conns[i])
            fence()
        s = socks[i]
        if not closed[i] and not halfclosed[i]:
            try:
                s.shutdown(socket.SHUT_WR)
            except OSError:
                pass
            halfclosed[i] = True
        while not closed[i]:
            try:
                data = s.recv(65536)
            except (socket.timeout, OSError):
                data = b""
            if not data:
                closed[i] = True
                outputs[i].append("<closed>")
            else:
                feed(i, data)
        fence()
    seen = {}
    txt = CANON.sub(lambda m: seen.setdefault(m.group(0), "<routed-%d>" % len(seen)), json.dumps(outputs))
    return {"outputs": json.loads(txt)}


if __name__ == "__main__":
    main()
