"""C10: outbound byte streams are whole frames in order, whatever the socket accepts."""
import errno, json

from .runner import scenario, sim_case
from .sim import Hang
from .workloads import pick_chunks


def spin_check(S, trace):
    """several would-block results on one descriptor while ONE frame is being sent (no other daemon activity in between)
    = the daemon retries without waiting for writability"""
    run = {}
    for ev in trace:
        if ev[0] == "w":
            if ev[3] == -errno.EAGAIN:
                run[ev[1]] = run.get(ev[1], 0) + 1
                if run[ev[1]] > 2:
                    S.v("wire/spinning-on-would-block", "fd %d: %d EAGAIN results inside one send" % (ev[1], run[ev[1]]))
                    return
            else:
                run[ev[1]] = 0
        elif ev[0] in ("g", "m", "x", "c", "e"):
            run.clear()


def exact_fit(S, c, slack=0):
    """an id-less request (nothing to answer) whose payload ends `slack` bytes in front of the end of the connection's read buffer
    (a payload of the maximum size always does: the reader moves it to the start of the buffer)"""
    room = S.max_msg - slack
    m = {"method": "info", "params": {"p": ""}}
    m["params"]["p"] = "p" * (room - len(json.dumps(m)))
    pl = json.dumps(m).encode()
    assert len(pl) == room
    return S.frame_for(c, pl)


@scenario("outbound")
def outbound(case, res):
    prm = case["params"]

    def body(S, rng):
        wbuf = int(S.cfg.get("CONFIG_MAX_WRITE_BUFFER_SIZE", 5120))
        t = prm.get("transport") or rng.choice(["raw", "uds", "ws"])
        sub = S.connect("sub", t)
        own = S.connect("own", "raw")
        if t == "ws":
            S.handshake(sub)
        S.settle()
        S.request(sub, "fetch", {"id": "f"})
        S.request(own, "add", {"path": "s", "value": 0})
        # a few more states: the result of a `get` is then ONE frame that is longer than a small write buffer
        for i in range(6):
            S.request(own, "add", {"path": "t/%d" % i, "value": "t" * 30})
        S.settle()
        sub.ledger = False          # only the byte stream of sub is judged here
        sub.keep_healthy_check = True
        S.strict_close = False
        allw = []
        alltrace = []
        sub.track_input = False
        orig_taps = S.sim.taps

        def taps():
            t_ = orig_taps()
            allw.extend(t_["writes"])
            alltrace.extend(t_["trace"])
            return t_
        S.sim.taps = taps
        combos = prm["combos"]
        for (b0, cap, sizes, cont, incoming) in combos:
            # frame overhead: {"method":"f","params":{"path":"s","event":"change","value":"..."}} ~ 62 bytes + prefix/header
            S.sim.wpol(sub.fd, budget=b0, cap=cap)
            sub.healthy = False
            S.ops.append(["policy", b0, cap, sizes, cont, incoming])
            S.sig("policy", min(b0, 9) if b0 < 9 else ("<frame" if b0 < 70 else "<buf" if b0 < wbuf else ">=buf"), cap if cap < 0 else min(cap, 5),
                  tuple(min(x // (wbuf // 4 + 1), 9) for x in sizes), cont, incoming)
            for n in sizes:
                S.request(own, "change", {"path": "s", "value": "v" * n}).expect_override = "any"
                if incoming and rng.random() < 0.5:
                    S.send_bytes(sub, S.frame_for(sub, json.dumps({"id": S.next_id(sub), "method": rng.choice(["info", "get", "get"]), "params": {}}).encode()))
            try:
                S.settle()
            except Hang:
                S.v("wire/daemon-does-not-return-to-the-event-loop", "while a reader is slow")
                raise
            if cont == "error":
                S.sim.wpol(sub.fd, err=errno.ECONNRESET, after=0)
                S.sim.wpol(sub.fd, budget=-1)
                S.request(own, "change", {"path": "s", "value": "after-error"}).expect_override = "any"
                S.settle()
                sub.may_close = True
                break
            if cont == "transient":
                # the kernel is short of memory for a moment: while parked output is flushed, one writev takes a part and the next
                # one fails with ENOBUFS / ENOMEM (once). Whether the daemon gives the connection up or goes on is its business -
                # if the connection stays, its stream is still exactly the generated frames
                S.settle()
                if rng.random() < 0.4:
                    # ... or the kernel says "would block" to one call and takes the very next one (the reader was reading right
                    # then); the owner's next change is handled BEFORE the connection's own "writable" event
                    if rng.random() < 0.6:
                        # first a frame that is longer than a small write buffer (the result of a get), of which the kernel takes a part
                        S.sim.wpol(sub.fd, budget=rng.choice([64, 100, 200, 400]))
                        S.send_bytes(sub, S.frame_for(sub, json.dumps({"id": S.next_id(sub), "method": "get", "params": {}}).encode()))
                        S.settle()
                    S.sim.wpol(sub.fd, budget=rng.choice([-1, -1, 4000, 300]), cap=rng.choice([-1, -1, 64]), err=errno.EAGAIN, after=rng.choice([0, 0, 1]), once=True)
                    S.request(own, "change", {"path": "s", "value": "after-would-block-once"}).expect_override = "any"
                    if incoming:
                        S.send_bytes(sub, S.frame_for(sub, json.dumps({"id": S.next_id(sub), "method": "info"}).encode()))
                    S.step(order=[own.fd, sub.fd])
                    S.sig("would-block-once", t)
                else:
                    S.sim.wpol(sub.fd, budget=rng.choice([3, 40, 700, wbuf // 2]), cap=rng.choice([-1, 7, 300]), err=rng.choice([errno.ENOBUFS, errno.ENOMEM]), after=rng.choice([0, 1, 1, 2]), once=True)
                S.settle()
                S.request(own, "change", {"path": "s", "value": "after-transient-error"}).expect_override = "any"
                S.settle()
                S.sim.wpol(sub.fd, err=errno.ENOBUFS, after=-1)         # (an error that did not come up in these calls is withdrawn)
                sub.may_close = True
                cont = "small"
            steps = {"one": [1] * 6, "two": [2, 2, 2], "frame-1": [max(1, sizes[0] + 60)], "small": [3, 1, 5], "inf": []}[cont]
            if t != "ws" and rng.random() < 0.5:
                # while output is parked: input that fills the read buffer to its last byte (and up to 3 bytes short of it)
                S.settle()
                S.send_bytes(sub, exact_fit(S, sub, rng.choice([0, 0, 1, 2, 3])))
                S.settle()
                S.sig("read-buffer-filled-to-the-end-while-output-is-parked", t)
            for r in steps:
                S.sim.wpol(sub.fd, budget=r)
                if incoming and rng.random() < 0.3:
                    S.send_bytes(sub, S.frame_for(sub, json.dumps({"id": S.next_id(sub), "method": rng.choice(["info", "get"]), "params": {}}).encode()))
                if rng.random() < 0.3:
                    S.request(own, "change", {"path": "s", "value": "m" * rng.choice([1, 10, wbuf // 3])}).expect_override = "any"
                S.settle()
            S.sim.wpol(sub.fd, budget=-1, cap=-1)
            rest = b""
            if rng.random() < 0.5:
                # the socket turns writable and readable in ONE event: the first bytes of a message that is not complete yet
                # (nothing to answer on this connection) arrive together with the writability edge
                full = S.frame_for(sub, json.dumps({"id": S.next_id(sub), "method": "info"}).encode())
                k = rng.choice([1, 2, 3, 5, len(full) - 1])
                S.send_bytes(sub, full[:k])
                rest = full[k:]
                S.sig("writable-and-readable-together", t)
            S.settle()
            S.settle()
            S.stats["policies"] += 1
            if sub.closed:
                break
            # writable kernel, quiescent, connection open: everything that was generated successfully must be on the wire, nothing else
            if bytes(sub.wire) != bytes(sub.expected_wire):
                w, e = bytes(sub.wire), bytes(sub.expected_wire)
                if any(w.startswith(e[:L]) and F.startswith(w[L:]) for L, F in sub.failed_at):
                    # the head of a frame whose send failed, and then nothing else, ever: the connection is dead for output
                    # (the engine's wire monitor goes on watching that nothing follows)
                    S.stats["partial_frame_then_silence"] += 1
                    S.sig("dead-after-partial-frame", t)
                    break
                S.v("wire/stream-differs-from-generated-frames", "after refill: wire %d bytes, generated %d bytes (policy %r)" % (len(sub.wire), len(sub.expected_wire), (b0, cap, sizes, cont)))
                break
            if rest:
                S.send_bytes(sub, rest)
                S.settle()
            sub.healthy = True
        spin_check(S, alltrace)
        S.stats["eagain_results"] += sum(1 for w in allw if w[2] == -errno.EAGAIN)
        S.stats["short_writes"] += sum(1 for w in allw if 0 < w[2] < w[1])
        # a strict decode of what the client saw: only whole frames (a closed connection may end inside one)
        st = S.close_all()
        S.check_idle_baseline(st)
        return S.ops[:10]
    sim_case(case, res, body, session_kw=dict(timeout=20))
