"""Build the real cjet sources (from VERIF_REPO, default /repo, *current working tree*) into
harness binaries.  Content-addressed cache under /verif/.build: the key hashes every source and
header of the tree plus flags and configuration, so a changed tree is always rebuilt and an
unchanged one is reused."""
import hashlib, os, re, shutil, subprocess, sys, time
from concurrent.futures import ThreadPoolExecutor

VERIF = os.path.dirname(os.path.dirname(os.path.abspath(__file__)))
REPO = os.environ.get("VERIF_REPO", "/repo")
BUILD_ROOT = os.path.join(VERIF, ".build")

DEFAULT_CFG = dict(
    CONFIG_JET_PORT=11122, CONFIG_JETWS_PORT=11123, CONFIG_LISTEN_BACKLOG=40,
    CONFIG_MAX_MESSAGE_SIZE=512, CONFIG_MAX_WRITE_BUFFER_SIZE=5120,
    CONFIG_ELEMENT_TABLE_ORDER=13, CONFIG_ROUTING_TABLE_ORDER=6,
    CONFIG_INITIAL_FETCH_TABLE_SIZE=4, CONFIG_ROUTED_MESSAGES_TIMEOUT="5.0",
    CONFIG_MAX_NUMBERS_OF_MATCHERS_IN_FETCH=12, CONFIG_ALLOW_ADD_ONLY_FROM_LOCALHOST="false",
    CONFIG_MAX_HEAPSIZE_IN_KBYTE=20480, CONFIG_MAX_EPOLL_EVENTS=10,
    CONFIG_UDS_FILE="/var/run/jet.socket", WEBSOCKET_PATH="/api/jet/",
    CJET_VERSION="1.10.0", CJET_LAST="-verif", PROJECT_NAME="cjet")

CONFIGS = {
    "default": {},
    "tiny": dict(CONFIG_ELEMENT_TABLE_ORDER=3, CONFIG_ROUTING_TABLE_ORDER=2,
                 CONFIG_INITIAL_FETCH_TABLE_SIZE=1, CONFIG_MAX_EPOLL_EVENTS=2),
    "one": dict(CONFIG_MAX_EPOLL_EVENTS=1),
    "wide": dict(CONFIG_MAX_EPOLL_EVENTS=64),
    "lowheap": dict(CONFIG_MAX_HEAPSIZE_IN_KBYTE=256),   # the idle daemon needs 192 KiB (path index)
    "smallbuf": dict(CONFIG_MAX_WRITE_BUFFER_SIZE=256, CONFIG_MAX_MESSAGE_SIZE=128),
    "localadd": dict(CONFIG_ALLOW_ADD_ONLY_FROM_LOCALHOST="true"),
    # values nobody would pick as defaults: sub-second default deadline, fetch table that is not a power of two, few matchers,
    # mid-sized tables (order 7: the smallest path index in which hopscotch displacement happens)
    "odd": dict(CONFIG_ROUTED_MESSAGES_TIMEOUT="0.25", CONFIG_INITIAL_FETCH_TABLE_SIZE=3, CONFIG_MAX_NUMBERS_OF_MATCHERS_IN_FETCH=2,
                CONFIG_ELEMENT_TABLE_ORDER=7, CONFIG_ROUTING_TABLE_ORDER=4, CONFIG_MAX_EPOLL_EVENTS=3, CONFIG_MAX_MESSAGE_SIZE=300),
    # ... and values on the generous side: more matchers than fit into 4 bits, messages larger than 1 KiB with a write buffer that
    # holds just one and a half of them, large tables, a batch size that is no power of two, a short listen backlog
    "roomy": dict(CONFIG_MAX_NUMBERS_OF_MATCHERS_IN_FETCH=20, CONFIG_MAX_MESSAGE_SIZE=1024, CONFIG_MAX_WRITE_BUFFER_SIZE=1536,
                  CONFIG_INITIAL_FETCH_TABLE_SIZE=16, CONFIG_ELEMENT_TABLE_ORDER=9, CONFIG_ROUTING_TABLE_ORDER=8, CONFIG_MAX_EPOLL_EVENTS=17,
                  CONFIG_LISTEN_BACKLOG=5, CONFIG_ROUTED_MESSAGES_TIMEOUT="30.5"),
}

LANES = {
    "asan": dict(cc="gcc", flags="-O1 -g -fno-omit-frame-pointer -fsanitize=address,undefined "
                 "-fsanitize=float-cast-overflow -fno-sanitize-recover=all -fno-common".split(),
                 ld="-fsanitize=address,undefined".split()),
    "plain": dict(cc="gcc", flags="-O1 -g -fno-omit-frame-pointer -fno-common".split(), ld=[]),
    "fuzz": dict(cc="clang", flags="-O1 -g -fno-omit-frame-pointer -fsanitize=fuzzer-no-link,address,undefined "
                 "-fno-sanitize-recover=all -fno-common -DSIMK_FUZZ".split(),
                 ld="-fsanitize=fuzzer,address,undefined".split()),
    "msan": dict(cc="clang", flags="-O1 -g -fno-omit-frame-pointer -fsanitize=memory "
                 "-fsanitize-memory-track-origins -fno-common".split(),
                 ld="-fsanitize=memory".split()),
}

WRAPS = ("socket bind listen accept accept4 getpeername shutdown getsockname setsockopt fcntl fcntl64 read writev write send recv readv close open "
         "unlink fsync rename daemon epoll_create epoll_ctl epoll_wait timerfd_create timerfd_settime signal "
         "syslog buffered_socket_writev parse_message cjet_malloc cjet_calloc "
         "init_http_connection crypt").split()


def cfg_of(name):
    c = dict(DEFAULT_CFG)
    c.update(CONFIGS[name])
    return c


def cmake_lists(repo=None):
    repo = repo or REPO
    txt = open(os.path.join(repo, "src/CMakeLists.txt")).read()
    groups = {}
    for m in re.finditer(r"SET\s*\(\s*(CJET\w*_FILES)\s+([^)]*)\)", txt):
        groups[m.group(1)] = m.group(2).split()
    return groups


GROUP_FLAGS = {
    "CJET_FILES": ["-std=c99"],
    "CJET_LINUX_FILES": ["-D_GNU_SOURCE", "-std=c99"],
    "CJET_POSIX_FILES": ["-D_XOPEN_SOURCE=500", "-std=c99"],
    "CJET_ZLIB_FILES": ["-DNO_GZIP", "-std=c99", "-w"],
}


def tree_hash(repo=None):
    repo = repo or REPO
    h = hashlib.sha1()
    src = os.path.join(repo, "src")
    for root, dirs, files in os.walk(src):
        dirs[:] = sorted(d for d in dirs if d not in ("tests", "autobahnfiles", "win32"))
        for f in sorted(files):
            if f.endswith((".c", ".h", ".in", ".txt")):
                p = os.path.join(root, f)
                h.update(p[len(src):].encode())
                with open(p, "rb") as fh:
                    h.update(fh.read())
    return h.hexdigest()


def _subst(template, cfg):
    return re.sub(r"\$\{(\w+)\}", lambda m: str(cfg.get(m.group(1), "")), template)


def write_generated(incdir, cfg, repo=None):
    repo = repo or REPO
    g = os.path.join(incdir, "generated")
    os.makedirs(g, exist_ok=True)
    for src, dst in (("src/cjet_config.h.in", "cjet_config.h"),
                     ("src/linux/config/os_config.h.in", "os_config.h"),
                     ("src/version.h.in", "version.h")):
        with open(os.path.join(repo, src)) as fh:
            out = _subst(fh.read(), cfg)
        with open(os.path.join(g, dst), "w") as fh:
            fh.write(out)


def _run(cmd):
    r = subprocess.run(cmd, stdout=subprocess.PIPE, stderr=subprocess.STDOUT, text=True)
    return r.returncode, r.stdout, cmd


def _prune(keep=40):
    try:
        ents = [(os.path.getmtime(os.path.join(BUILD_ROOT, d)), d) for d in os.listdir(BUILD_ROOT)]
    except FileNotFoundError:
        return
    ents.sort(reverse=True)
    now = time.time()
    for mt, d in ents[keep:]:
        if now - mt < 3 * 3600:
            continue        # possibly in use by a running check
        shutil.rmtree(os.path.join(BUILD_ROOT, d), ignore_errors=True)


class BuildError(Exception):
    pass


def build(kind="simd", config="default", lane="asan", extra_sources=(), extra_flags=(),
          cjet_units=None, wraps=None, main_rename=True, name=None, link_extra=(), repo=None,
          cxx=False):
    """Returns the path of the binary.  kind 'simd' = all cjet units + simk.  Otherwise
    cjet_units (list of paths relative to src/) + extra_sources (absolute) are linked."""
    repo = repo or REPO
    cfg = cfg_of(config) if isinstance(config, str) else config
    lane_d = LANES[lane]
    groups = cmake_lists(repo)
    units = []  # (path, flags)
    for gname, files in groups.items():
        for f in files:
            if cjet_units is not None and f not in cjet_units:
                continue
            units.append((os.path.join(repo, "src", f), GROUP_FLAGS.get(gname, ["-std=c99"])))
    if kind == "simd":
        extra_sources = [os.path.join(VERIF, "simk", "simk.c")] + list(extra_sources)
        wraps = WRAPS if wraps is None else wraps
    wraps = wraps or []
    key = hashlib.sha1()
    key.update(tree_hash(repo).encode())
    key.update(repr((kind, sorted(cfg.items()), lane, lane_d, sorted(wraps), cjet_units,
                     list(extra_flags), list(link_extra), main_rename, 'libc-alloc-v1')).encode())
    for s in list(extra_sources) + [os.path.join(VERIF, "simk", "simk_fuzz.inc")]:
        with open(s, "rb") as fh:
            key.update(fh.read())
    bdir = os.path.join(BUILD_ROOT, (name or kind) + "-" + key.hexdigest()[:16])
    binary = os.path.join(bdir, name or kind)
    if os.path.exists(binary):
        os.utime(bdir)
        return binary
    tmp = bdir + ".tmp%d" % os.getpid()
    shutil.rmtree(tmp, ignore_errors=True)
    os.makedirs(os.path.join(tmp, "obj"))
    write_generated(os.path.join(tmp, "inc"), cfg, repo)
    cc = lane_d["cc"]
    inc = ["-I" + os.path.join(repo, "src"), "-I" + os.path.join(tmp, "inc")]
    jobs = []
    objs = []
    for i, (p, fl) in enumerate(units):
        o = os.path.join(tmp, "obj", "%03d_%s.o" % (i, os.path.basename(p)))
        objs.append(o)
        cmd = [cc] + lane_d["flags"] + fl + inc + list(extra_flags)
        if main_rename and p.endswith("posix/main.c"):
            cmd += ["-Dmain=cjet_main"]
        if kind == "simd" and p.endswith("src/alloc.c"):
            # the C library calls INSIDE the accounting allocator go through the harness, which can make exactly one of them fail
            cmd += ["-Dmalloc=simk_libc_malloc", "-Dcalloc=simk_libc_calloc"]
        cmd += ["-c", p, "-o", o]
        jobs.append(cmd)
    for i, p in enumerate(extra_sources):
        o = os.path.join(tmp, "obj", "x%02d_%s.o" % (i, os.path.basename(p)))
        objs.append(o)
        if p.endswith((".cpp", ".cc")):
            comp = "g++" if cc == "gcc" else "clang++"
            cmd = [comp] + lane_d["flags"] + ["-std=gnu++17", "-D_GNU_SOURCE"] + inc + list(extra_flags) + ["-c", p, "-o", o]
        else:
            cmd = [cc] + lane_d["flags"] + ["-std=gnu11", "-D_GNU_SOURCE"] + inc + list(extra_flags) + ["-c", p, "-o", o]
        jobs.append(cmd)
    with ThreadPoolExecutor(max_workers=min(16, os.cpu_count() or 4)) as ex:
        for rc, outp, cmd in ex.map(_run, jobs):
            if rc != 0:
                shutil.rmtree(tmp, ignore_errors=True)
                raise BuildError("compile failed: %s\n%s" % (" ".join(cmd), outp))
    linker = cc
    if cxx or any(p.endswith((".cpp", ".cc")) for p in extra_sources):
        linker = "g++" if cc == "gcc" else "clang++"
    link = [linker] + lane_d["ld"] + ["-no-pie", "-rdynamic", "-o", os.path.join(tmp, name or kind)] + objs
    if wraps:
        link += ["-Wl," + ",".join("--wrap=" + w for w in wraps)]
    link += ["-lm", "-lcrypt", "-ldl"] + list(link_extra)
    rc, outp, cmd = _run(link)
    if rc != 0:
        shutil.rmtree(tmp, ignore_errors=True)
        raise BuildError("link failed: %s\n%s" % (" ".join(cmd), outp))
    os.makedirs(BUILD_ROOT, exist_ok=True)
    try:
        os.rename(tmp, bdir)
    except OSError:
        shutil.rmtree(tmp, ignore_errors=True)  # someone else won the race
    _prune()
    return binary


if __name__ == "__main__":
    t = time.time()
    b = build(config=sys.argv[1] if len(sys.argv) > 1 else "default",
              lane=sys.argv[2] if len(sys.argv) > 2 else "asan")
    print(b, "%.1fs" % (time.time() - t))
