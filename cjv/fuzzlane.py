"""Coverage-guided lane (libFuzzer): one input = one whole daemon lifetime on the simulated kernel (simk/simk_fuzz.inc)."""
import collections, glob, os, re, shutil, subprocess, tempfile

from . import build
from .runner import Result
from .sim import crash_key, default_env

DICT = ['"id"', '"method"', '"params"', '"path"', '"value"', '"result"', '"error"', '"add"', '"remove"', '"change"', '"set"', '"call"', '"fetch"',
        '"unfetch"', '"get"', '"config"', '"info"', '"authenticate"', '"passwd"', '"timeout"', '"fetchOnly"', '"access"', '"fetchGroups"',
        '"caseInsensitive"', '"equals"', '"startsWith"', '"containsAllOf"', '"name"', '"args"', '"match"', "true", "false", "null", "[{", "}]",
        "\\x81\\x85", "\\x88\\x82", "\\x89\\x80", "\\x01\\x85", "\\x80\\x80", "GET /api/jet/ HTTP/1.1\\x0d\\x0a", "Upgrade: websocket\\x0d\\x0a",
        "Sec-WebSocket-Key: ", "Sec-WebSocket-Version: 13\\x0d\\x0a", "\\x0d\\x0a\\x0d\\x0a", "\\x00\\x00\\x00\\x00", "\\x00\\x00\\x02\\x01", "1e400", "0.001"]


def enc(ops):
    out = bytearray()
    for op in ops:
        k = op[0]
        if k == "connect":
            out += bytes([0, op[1]])
        elif k == "raw":
            out += bytes([1, op[1], len(op[2])]) + op[2]
        elif k == "msg":
            out += bytes([2, op[1], len(op[2])]) + op[2]
        elif k == "poll":
            out += bytes([3, op[1] if len(op) > 1 else 0])
        elif k == "eof":
            out += bytes([4, op[1]])
        elif k == "rst":
            out += bytes([5, op[1]])
        elif k == "wpol":
            out += bytes([6, op[1], op[2], op[3]])
        elif k == "advance":
            out += bytes([7, op[1]])
        elif k == "hs":
            out += bytes([8, op[1]])
        elif k == "wsmsg":
            out += bytes([9, op[1], len(op[2])]) + op[2]
        elif k == "scribble":
            out += bytes([10, op[1]])
        elif k == "canned":
            out += bytes([11, op[1], op[2]])
        elif k == "wscanned":
            out += bytes([12, op[1], op[2]])
        elif k == "wsraw":
            out += bytes([13, op[1], len(op[2])]) + op[2]
    return bytes(out)


def seeds():
    P = ("poll",)
    s = []
    # owner + subscriber + caller on raw sockets, routed request answered, everything torn down
    s.append([("connect", 0), ("connect", 0), ("connect", 2), P, P, ("canned", 0, 0), ("canned", 0, 1), ("canned", 1, 3), P, ("canned", 2, 6), ("canned", 2, 7), P,
              ("canned", 0, 5), ("canned", 1, 9), P, ("advance", 3), P, ("eof", 2), P, ("canned", 0, 11), ("eof", 0), P, ("eof", 1), P])
    # websocket peers
    s.append([("connect", 1), ("connect", 1), P, ("hs", 0), ("hs", 1), P, ("wscanned", 0, 0), ("wscanned", 1, 4), P, ("wscanned", 0, 5), ("wscanned", 1, 6), P,
              ("wsraw", 0, b"\x89\x80\x01\x02\x03\x04"), ("wsraw", 1, b"\x88\x82\x01\x02\x03\x04\x02\xea"), P, ("rst", 0), P])
    # slow reader, timeouts, batches
    s.append([("connect", 0), ("connect", 0), P, ("canned", 0, 0), ("canned", 1, 3), ("wpol", 1, 1, 0), P] + [("canned", 0, 5), P] * 6 +
             [("canned", 1, 6), P, ("advance", 4), P, ("wpol", 1, 0, 7), P, ("canned", 0, 14), ("eof", 1), P])
    # hostile bits
    s.append([("connect", 0), ("connect", 1), P, ("raw", 0, b"\x00\x00\x02\x01xxxx"), ("raw", 1, b"GET /api/jet/ HTTQ/1.1\r\n\r\n"), P, ("connect", 2), ("msg", 2, b'{"id":1,"method":'), P,
              ("msg", 2, b'[1,2]'), P])
    s.append([("connect", 1), P, ("hs", 0), P, ("wsmsg", 0, b'{"id":1,"method":"fetch","params":{"id":1,"path":{"caseInsensitive":true,"caseInsensitive":true,"equals":"a"}}}'), P,
              ("wsraw", 0, b"\x01\x83\x00\x00\x00\x00abc"), ("wsraw", 0, b"\x80\x83\x00\x00\x00\x00def"), P, ("scribble", 2), ("canned", 0, 12), P])
    return [enc(x) for x in s]


def run(tier, seed, repo_results_prefix="fuzz"):
    """-> list of Result"""
    q = tier == "quick"
    binary = build.build(config="default", lane="fuzz")
    workers = 8 if q else 16
    runs = 8000 if q else 400000
    work = tempfile.mkdtemp(prefix="cjv-fuzz-")
    res = []
    try:
        corpus = os.path.join(work, "corpus")
        os.makedirs(corpus)
        persistent = os.path.join(build.BUILD_ROOT, "fuzz-corpus")
        if not q and os.path.isdir(persistent):
            for f in os.listdir(persistent)[:20000]:
                shutil.copy(os.path.join(persistent, f), corpus)
        for i, sd in enumerate(seeds()):
            with open(os.path.join(corpus, "seed%02d" % i), "wb") as fh:
                fh.write(sd)
        dpath = os.path.join(work, "dict")
        with open(dpath, "w") as fh:
            for i, d in enumerate(DICT):
                fh.write('kw%d="%s"\n' % (i, d.replace('"', '\\"')))
        env = default_env()
        env["ASAN_OPTIONS"] = "abort_on_error=1:detect_leaks=1:allocator_may_return_null=1:handle_abort=1:symbolize=1"
        procs = []
        for w in range(workers):
            wd = os.path.join(work, "w%d" % w)
            os.makedirs(wd)
            cmd = [binary, "-runs=%d" % runs, "-max_len=3000", "-seed=%d" % (seed * 100 + w + 1), "-dict=" + dpath, "-artifact_prefix=" + wd + "/", "-print_final_stats=1",
                   "-reload=1", "-timeout=20", "-rss_limit_mb=4096", corpus]
            procs.append((w, wd, subprocess.Popen(cmd, stdout=subprocess.DEVNULL, stderr=open(os.path.join(wd, "log"), "wb"), env=env, cwd=wd)))
        for w, wd, p in procs:
            try:
                rc = p.wait(timeout=3600 if not q else 600)
            except subprocess.TimeoutExpired:
                p.kill()
                rc = "watchdog"
            r = Result(dict(kind="fuzz", worker=w, seed=seed, runs=runs))
            log = open(os.path.join(wd, "log"), "rb").read().decode("utf-8", "replace")
            m = re.search(r"stat::number_of_executed_units:\s*(\d+)", log)
            r.stats["fuzz_executions"] += int(m.group(1)) if m else 0
            covs = re.findall(r"cov: (\d+) ft: (\d+) corp: (\d+)", log)
            if covs:
                r.stats["fuzz_edge_coverage_summed_over_workers"] = int(covs[-1][0])
                r.stats["fuzz_features_summed_over_workers"] = int(covs[-1][1])
                r.sigs.add(("fuzz-coverage-bucket", w, int(covs[-1][0]) // 100))
            arts = [a for a in glob.glob(os.path.join(wd, "*")) if os.path.basename(a).startswith(("crash-", "leak-", "timeout-", "oom-"))]
            if rc == "watchdog":
                r.inconclusive = "fuzz worker exceeded its watchdog"
            for a in arts:
                kind = os.path.basename(a).split("-")[0]
                # re-run the artifact alone to get a clean report
                pr = subprocess.run([binary, a], stdout=subprocess.PIPE, stderr=subprocess.PIPE, env=env, cwd=wd, timeout=120)
                err = pr.stderr.decode("utf-8", "replace")
                if "SIMK-FUZZ-INVARIANT" in err:
                    mm = re.search(r"SIMK-FUZZ-INVARIANT: heap=(\d+) peers=(\d+) open_fds=(\d+) hygiene=(\d+) cap=(\d+)", err)
                    what = "+".join(n for n, v in zip(("heap", "peers", "descriptors", "hygiene", "cap"), mm.groups()) if v != "0") if mm else "?"
                    key = "fuzz/lifetime-invariant:" + what
                else:
                    key = "crash/" + (crash_key(pr.returncode, err) or (kind + "-not-reproduced"))
                keep = os.path.join(build.VERIF, "replays", "fuzz-" + os.path.basename(a))
                os.makedirs(os.path.dirname(keep), exist_ok=True)
                shutil.copy(a, keep)
                r.viol.append((key, "artifact %s (re-run: %s %s)\n%s" % (keep, binary, keep, err[:3000])))
            r.sample = {"worker": w, "final": covs[-1] if covs else None}
            res.append(r)
        if not q:
            os.makedirs(persistent, exist_ok=True)
            for f in os.listdir(corpus)[:20000]:
                shutil.copy(os.path.join(corpus, f), persistent)
        tot = collections.Counter()
        for r in res:
            tot.update(r.stats)
        if res:
            res[0].stats["fuzz_corpus_files"] = len(os.listdir(corpus))
    finally:
        shutil.rmtree(work, ignore_errors=True)
    return res
