"""C08 (access control) and the daemon-level half of C20 (who may change which password)."""
import crypt, json, os, random, tempfile

from . import build
from .engine import AUTO, Session
from .model import Creds
from .runner import scenario, sim_case, Result
from .sim import DaemonDied, DaemonExited, Hang, crash_key
from .workloads import batch_policy, pick_chunks

# group names are compared exactly: the pool starts with names that differ only in case, by a trailing blank or by being prefixes
GROUP_POOL = ["ops", "Ops", "op", "OPS", "opsx", "ops "] + ["g%02d" % i for i in range(30)]


def token(rng, n=12):
    return "pw" + "".join(rng.choice("abcdefghijklmnopqrstuvwxyzABCDEFGHIJKLMNOPQRSTUVWXYZ0123456789") for _ in range(n))


def make_creds(rng, ngroups=None):
    ngroups = ngroups if ngroups is not None else rng.choice([0, 1, 2, 3, 5, 8, 16, 31, 32])     # 0: a credential file whose accounts are in no group at all
    pool = GROUP_POOL[:ngroups]
    if ngroups >= 3 and rng.random() < 0.35:
        # group names far longer than anybody's fixed-size idea of a name, telling apart only behind their 64th / 128th byte (URN or
        # directory style names), next to the short ones
        stem = "urn:plant:site-4711:building-12:floor-3:line-7:cell-42:role:operator-group"     # 78 bytes
        pool = [stem + ":day-shift", stem + ":night-shift", stem * 2 + "a", stem * 2 + "b"][:max(2, ngroups // 2)] + pool[:ngroups - 2]
        pool = pool[:ngroups]
    users = {}
    kinds = ["plain", "plain", "admin", "readonly", "plain", "admin-readonly"]
    for i in range(rng.randint(1, 6)):
        k = kinds[i] if i < len(kinds) else "plain"
        u = {"password": token(rng)}
        for key in ("fetchGroups", "setGroups", "callGroups"):
            r = rng.random()
            if r < 0.15:
                continue
            u[key] = rng.sample(pool, rng.randint(0, min(len(pool), 4)))
        if "admin" in k:
            u["admin"] = True
        if "readonly" in k:
            u["readonly"] = True
        users["user%d" % i] = u
    # accounts nobody can log into: the stored string is not a complete hash (locked account, method prefix only, empty)
    for i, h in enumerate(rng.sample(["*", "!", "", "$6$", "$6$salt$", "$1$", "ab", "x"], rng.randint(1, 3))):
        users["locked%d" % i] = {"password": token(rng), "hash": h, "fetchGroups": list(pool[:2]), "setGroups": list(pool[:2]), "callGroups": list(pool[:2]),
                                 "admin": rng.random() < 0.3}
    # make sure every pool group is known to the daemon (it learns groups from the file only)
    users["user0"].setdefault("fetchGroups", [])
    for g in pool:
        if not any(g in users[n].get(k, []) for n in users for k in ("fetchGroups", "setGroups", "callGroups")):
            users["user0"]["fetchGroups"].append(g)
    return Creds(users), pool


def crypt_fn(rng):
    def f(pw):
        m = rng.choice([crypt.METHOD_SHA512, crypt.METHOD_SHA512, crypt.METHOD_MD5, crypt.METHOD_SHA256])
        return crypt.crypt(pw, crypt.mksalt(m))
    return f


def creds_case(case, res, body, config=None):
    """like sim_case but with a generated credential file (-p)"""
    rng = random.Random(case["seed"])
    creds, pool = make_creds(rng, case.get("params", {}).get("ngroups"))
    d = tempfile.mkdtemp(prefix="cjv-cred-")
    path = os.path.join(d, "passwd.json")
    with open(path, "w") as fh:
        fh.write(creds.file_json(crypt_fn(rng)))
    try:
        def b2(S, rng2):
            S.passwords = set(u["password"] for u in creds.users.values())
            S.cred_path = path
            return body(S, rng, creds, pool)
        sim_case(case, res, b2, session_kw=dict(args=("-f", "-p", path), creds=creds))
    finally:
        for f in os.listdir(d):
            os.unlink(os.path.join(d, f))
        os.rmdir(d)


def leak_scan(S):
    """no password (all are unique random tokens) may appear in anything the daemon wrote or logged"""
    blobs = [bytes(c.wire) for c in S.conns.values()] + [json.dumps(S.log).encode()]
    for pw in S.passwords:
        b = pw.encode()
        for blob in blobs:
            if b in blob or b[:8] in blob:
                S.v("access/password-in-output-or-log", pw[:4] + "...")
                return
    S.stats["leak_scans"] += 1


@scenario("access")
def access(case, res):
    prm = case.get("params", {})

    def body(S, rng, creds, pool):
        names = sorted(creds.users)
        peers = []

        def new_peer():
            t = rng.choice(["raw", "raw", "uds", "ws"])
            c = S.connect("p%d" % len(S.conns), t)
            if t == "ws":
                S.handshake(c)
            peers.append(c)
            return c

        def auth(c, user=None, right=True):
            user = user or rng.choice(names)
            pw = creds.users[user]["password"] if user in creds.users else "nobody"
            if user in creds.users and creds.users[user].get("hash") is not None:
                pw = rng.choice(["", "x", token(rng), creds.users[user]["hash"], "*0"])      # nothing opens a locked account
            if not right:
                pw = rng.choice([token(rng), "", pw[:-1], pw + "x"])
                S.passwords.add(pw) if len(pw) > 8 else None
            S.ops.append(["authenticate", c.name, user, right])
            S.request(c, "authenticate", {"user": user, "password": pw}, chunks=pick_chunks(rng))

        if prm.get("precondition", True):
            # heap pre-conditioning: peers that held every group come and go first, so recycled memory carries hostile contents
            for i in range(rng.randint(0, 3)):
                c = S.connect("pre%d" % i, rng.choice(["raw", "uds", "ws"]))
                if c.transport == "ws":
                    S.handshake(c)
                auth(c, "user0")
                S.settle()
                S.end(c)
            S.settle()
        owners = [new_peer() for _ in range(rng.randint(1, 2))]
        for _ in range(rng.randint(2, 4)):
            new_peer()
        S.settle()
        npaths = 0
        for step in range(prm.get("n_ops", 50)):
            al = [c for c in peers if c.alive()]
            if len(al) < 3:
                new_peer()
                S.settle()
                continue
            c = rng.choice(al)
            r = rng.random()
            if r < 0.2:
                npaths += 1
                pr = {"path": "e/%d" % npaths}
                is_state = rng.random() < 0.7
                if is_state:
                    pr["value"] = S.next_val(c)
                acc = {}
                for k in (["fetchGroups", "setGroups"] if is_state else ["fetchGroups", "callGroups"]):
                    if rng.random() < 0.85:
                        acc[k] = rng.sample(pool + ["nogroup"], rng.randint(0, min(3, len(pool))))
                if acc or rng.random() < 0.5:
                    pr["access"] = acc
                S.ops.append(["add", c.name, pr])
                S.request(c, "add", pr)
            elif r < 0.38:
                rr = rng.random()
                if rr < 0.6:
                    auth(c, right=True)
                elif rr < 0.85:
                    auth(c, right=False)
                else:
                    auth(c, user="ghost")
            elif r < 0.5:
                if not any(p.method in ("authenticate",) for p in c.pending.values()):
                    S.fidc = getattr(S, "fidc", 0) + 1
                    pr = {"id": "f%d" % S.fidc}
                    if rng.random() < 0.4:
                        pr["path"] = {"startsWith": "e/"}
                    S.ops.append(["fetch", c.name, pr])
                    S.request(c, "fetch", pr)
            elif r < 0.6:
                S.ops.append(["get", c.name])
                S.request(c, "get", {"path": {"startsWith": "e"}} if rng.random() < 0.5 else {})
            elif r < 0.75 and S.elements:
                path = rng.choice(sorted(S.elements))
                e = S.elements[path]
                pr = {"path": path}
                if e.is_state:
                    pr["value"] = S.next_val(c)
                else:
                    pr["args"] = [S.next_val(c)]
                S.ops.append(["route", c.name, pr])
                S.request(c, "set" if e.is_state else "call", pr)
            elif r < 0.78 and S.elements:
                # a caller pipelines several requests to one element and leaves before the owner answers; somebody new arrives;
                # then the owner answers: no answer (to a privileged request) may reach anybody else
                path = rng.choice(sorted(S.elements))
                e = S.elements[path]
                if e.owner is not c and e.owner.alive():
                    for _ in range(rng.choice([2, 3, 4])):
                        pr = {"path": path}
                        if e.is_state:
                            pr["value"] = S.next_val(c)
                        else:
                            pr["args"] = [S.next_val(c)]
                        S.request(c, "set" if e.is_state else "call", pr)
                    S.settle()
                    S.ops.append(["pipelined-then-leave", c.name, path])
                    S.sig("pipelined-then-leave", e.is_state)
                    S.end(c, rng.choice(["eof", "rst"]))
                    S.settle()
                    new_peer()
                    S.settle()
                    for cc in peers:
                        for p in list(cc.pending.values()):
                            if p.state == "forwarded" and p.reply is None and p.owner.alive():
                                S.reply(p.owner, p, "result")
                    S.settle()
            elif r < 0.82:
                own = [e for e in S.elements.values() if e.owner is c and e.is_state]
                if own:
                    e = rng.choice(own)
                    S.request(c, "change", {"path": e.path, "value": S.next_val(c)})
            elif r < 0.9:
                # owners answer
                for cc in peers:
                    for p in list(cc.pending.values()):
                        if p.state == "forwarded" and p.reply is None and p.owner.alive() and rng.random() < 0.7:
                            S.reply(p.owner, p, "result")
            elif r < 0.96:
                tgt = rng.choice(names + ["ghost"])
                npw = token(rng)
                if rng.random() < 0.2:
                    # passwords as short, as empty or as long as a JSON string can be
                    npw = rng.choice(["", " ", "0", "null", "\u00fc\u00e4", token(rng) * 20])
                if len(npw) > 8:
                    S.passwords.add(npw)
                S.ops.append(["passwd", c.name, c.user, tgt])
                filefault = rng.random() < 0.25
                if filefault:
                    # the update of the credential file runs into a full disk / an I/O error: the change is refused (or not), the
                    # model follows the answer; nothing of the attempt stays behind
                    import errno as E
                    call = rng.choice(["filewrite", "fsync", "rename"])
                    S.sim.inject(call, 1, rng.choice([E.ENOSPC, E.EIO, E.EDQUOT]))
                    S.sig("passwd-file-fault", call)
                    S.stats["passwd_file_faults"] += 1
                pq = S.request(c, "passwd", {"user": tgt, "password": npw})
                if filefault:
                    pq.may_refuse = True
                S.stats["passwd_requests"] += 1
                S.settle()
                if filefault:
                    for call in ("filewrite", "fsync", "rename"):
                        S.sim.inject(call, 0, 0)
                # effectiveness is judged from a different connection
                old = None
                for nm in ([tgt] if tgt in creds.users else []):
                    v = new_peer()
                    auth(v, nm, right=True)         # the password the model believes to be current
                    S.settle()
                    v2 = new_peer()
                    S.request(v2, "authenticate", {"user": nm, "password": npw if creds.users[nm]["password"] != npw else token(rng)})
                    S.settle()
                    cur = creds.users[nm]["password"]
                    if len(cur) > 9:
                        # ... and a password that agrees with the current one in its first 8 characters only opens nothing
                        v3 = new_peer()
                        S.request(v3, "authenticate", {"user": nm, "password": cur[:8] + "#" + cur[9:][::-1]})
                        S.settle()
                        S.end(v3)
                    S.end(v)
                    S.end(v2)
            else:
                S.ops.append(["end", c.name])
                S.end(c, "eof")
            if rng.random() < 0.6:
                S.settle(**batch_policy(rng))
            S.sig("access-step", c.user is not None, len(c.groups["fetch"]) > 0, c.transport)
        S.settle()
        leak_scan(S)
        st = S.close_all()
        # a changed password hash may have another length: the idle heap legitimately moves with it
        S.check_idle_baseline(st, heap=S.stats["passwd_ok"] == 0)
        S.shutdown()
        return S.ops[:20]
    creds_case(case, res, body)


@scenario("manysessions")
def manysessions(case, res):
    """many connections logged in as the SAME account at once (17 .. 40), then some more; some of them were another account
    before. Whether the daemon accepts yet another session of an account is its own business - but a peer holds exactly the rights
    of the last authenticate that was ANSWERED WITH SUCCESS ("a failed authentication changes nothing", "a peer that has not
    successfully authenticated holds no groups"): visibility, get, set and call of every session follow the answers it got"""
    prm = case.get("params", {})

    def body(S, rng, creds, pool):
        usable = sorted(n for n, u in creds.users.items() if u.get("hash") is None)
        rich = [n for n in usable if creds.filt(creds.users[n].get("fetchGroups"))]
        if not rich or not pool:
            S.stats["manysessions_without_groups"] += 1
            rich = usable
        U = rng.choice(rich)
        others = [n for n in usable if n != U]
        own = S.connect("own", "uds")
        ug = creds.users[U]
        acc_secret = {"fetchGroups": list(ug.get("fetchGroups", []))[:2] or ["nogroup"], "setGroups": list(ug.get("setGroups", []))[:2] or ["nogroup"]}
        S.request(own, "add", {"path": "m/secret", "value": 0, "access": acc_secret})
        S.request(own, "add", {"path": "m/method", "access": {"fetchGroups": acc_secret["fetchGroups"], "callGroups": list(ug.get("callGroups", []))[:2] or ["nogroup"]}})
        S.request(own, "add", {"path": "m/public", "value": 0})
        S.settle()
        k = rng.choice([15, 16, 17, 18, 20, 33, 40])
        sess = []
        for i in range(k):
            t = rng.choice(["raw", "raw", "uds", "ws"])
            c = S.connect("s%d" % i, t)
            if t == "ws":
                S.handshake(c)
            if others and rng.random() < 0.3:
                # was somebody else before
                v = rng.choice(others)
                S.request(c, "authenticate", {"user": v, "password": creds.users[v]["password"]}).may_refuse = True
            p = S.request(c, "authenticate", {"user": U, "password": creds.users[U]["password"]}, chunks=pick_chunks(rng))
            p.may_refuse = True
            sess.append(c)
            if rng.random() < 0.3:
                S.settle()
        S.settle()
        S.sig("manysessions", min(k, 18), sum(1 for c in sess if c.user == U) >= 17)
        S.stats["sessions_of_one_account"] += sum(1 for c in sess if c.user == U)
        S.stats["sessions_refused"] += sum(1 for c in sess if c.user != U)
        for c in sess:
            S.request(c, "fetch", {"id": 1, "path": {"startsWith": "m/"}})
        S.settle()
        for rnd in range(3):
            S.request(own, "change", {"path": "m/secret", "value": rnd + 1})
            for c in rng.sample(sess, min(len(sess), 8)):
                r = rng.random()
                if r < 0.4:
                    S.request(c, "get", {})
                elif r < 0.7:
                    S.request(c, "set", {"path": "m/secret", "value": S.next_val(c)})
                else:
                    S.request(c, "call", {"path": "m/method", "args": [S.next_val(c)]})
            S.settle()
            for c in sess:
                for p in list(c.pending.values()):
                    if p.state == "forwarded" and p.reply is None:
                        S.reply(own, p, "result")
            S.settle()
        # sessions end, new ones take their place
        for c in rng.sample(sess, min(len(sess), 6)):
            S.end(c, rng.choice(["eof", "rst"]))
        S.settle()
        for i in range(6):
            c = S.connect("n%d" % i, rng.choice(["raw", "ws"]))
            if c.transport == "ws":
                S.handshake(c)
            S.request(c, "authenticate", {"user": U, "password": creds.users[U]["password"]}).may_refuse = True
            S.settle()
            S.request(c, "fetch", {"id": 1})
        S.request(own, "change", {"path": "m/secret", "value": "last"})
        S.settle()
        leak_scan(S)
        st = S.close_all()
        S.check_idle_baseline(st)
        S.shutdown()
        return S.ops[:20]
    creds_case(case, res, body)


@scenario("passwd-filefault")
def passwd_filefault(case, res):
    """authorised password changes whose update of the credential file fails at one of its steps (write, fsync, rename; full disk,
    I/O error, quota): the change is answered (refused or not) exactly once, the credentials the daemon accepts afterwards agree with
    the answer, and nothing of the attempt stays behind - no descriptor, no memory"""
    import errno as E

    def body(S, rng, creds, pool):
        usable = sorted(n for n, u in creds.users.items() if u.get("hash") is None and not u.get("readonly"))
        if not usable:
            S.stats["filefault_no_account"] += 1
            return []
        for rnd in range(6):
            u = rng.choice(usable)
            c = S.connect("c%d" % rnd, rng.choice(["raw", "uds", "ws"]))
            if c.transport == "ws":
                S.handshake(c)
            S.request(c, "authenticate", {"user": u, "password": creds.users[u]["password"]})
            S.settle()
            call = rng.choice(["filewrite", "fsync", "rename", "none"])
            if call != "none":
                S.sim.inject(call, rng.choice([1, 1, 2]), rng.choice([E.ENOSPC, E.EIO, E.EDQUOT]))
            npw = token(rng)
            S.passwords.add(npw)
            p = S.request(c, "passwd", {"user": u, "password": npw})
            p.may_refuse = call != "none"
            S.settle()
            for k in ("filewrite", "fsync", "rename"):
                S.sim.inject(k, 0, 0)
            S.stats["passwd_file_faults"] += 1 if call != "none" else 0
            S.sig("passwd-file-fault", call, creds.users[u]["password"] == npw)
            # what the daemon accepts now is what the model derived from the answer
            v = S.connect("v%d" % rnd, "raw")
            S.request(v, "authenticate", {"user": u, "password": creds.users[u]["password"]})
            S.settle()
            S.end(v)
            S.end(c)
            S.settle()
        leak_scan(S)
        st = S.close_all()
        S.check_idle_baseline(st, heap=S.stats["passwd_ok"] == 0)
        S.shutdown()
        return S.ops[:10]
    creds_case(case, res, body)


@scenario("localadd")
def localadd(case, res):
    def body(S, rng):
        origins = [("raw", ("4", "127.0.0.1", 5000), True), ("raw", ("6", "::1", 5001), True), ("raw", ("6", "::ffff:127.0.0.1", 5002), True),
                   ("uds", None, True), ("ws", ("4", "127.0.0.1", 5003), True), ("ws", ("6", "::1", 5004), True),
                   ("raw", ("4", "10.0.0.7", 5005), False), ("raw", ("6", "2001:db8::1", 5006), False), ("raw", ("4", "127.0.0.2", 5007), False),
                   ("raw", ("6", "::ffff:10.0.0.1", 5008), False), ("ws", ("4", "192.168.1.1", 5009), False), ("raw", ("6", "::2", 5010), False),
                   ("raw", ("4", "128.0.0.1", 5011), False), ("ws", ("6", "fe80::1", 5012), False),
                   # addresses that share a part of their bytes with a loopback address
                   ("raw", ("6", "fd00::7f00:1", 5013), False), ("ws", ("6", "2001:db8::7f00:1", 5014), False), ("raw", ("6", "::fffe:7f00:1", 5015), False),
                   ("raw", ("6", "1::1", 5016), False), ("raw", ("6", "::1:0:0:1", 5017), False), ("raw", ("6", "::ffff:7f00:2", 5018), False),
                   ("raw", ("6", "::ffff:0:7f00:1", 5019), False), ("raw", ("4", "1.0.0.127", 5020), False), ("ws", ("6", "::ffff:127.0.0.1", 5021), True)]
        rng.shuffle(origins)
        for i, (t, addr, local) in enumerate(origins):
            c = S.connect("o%d" % i, t, addr)
            c.local = local
            if t == "ws":
                S.handshake(c)
            S.ops.append(["add from", t, addr, local])
            S.request(c, "add", {"path": "l/%d" % i, "value": i}, chunks=pick_chunks(rng))
            S.request(c, "add", {"path": "l/m%d" % i})
            S.settle()
            S.sig("origin", t, addr[1] if addr else "unix", local)
        st = S.close_all()
        S.check_idle_baseline(st)
        return S.ops[:20]
    sim_case(case, res, body)


@scenario("credfile-size")
def credfile_size(case, res):
    """a valid credential file must be loadable whatever its size is (the loader maps the file: page multiples have no terminator)"""
    import tempfile
    rng = random.Random(case["seed"])
    creds, pool = make_creds(rng, rng.choice([2, 8, 32]))
    txt = creds.file_json(crypt_fn(rng))
    size = case["params"]["size"]
    if size is not None:
        if len(txt) > size:
            size = ((len(txt) // 4096) + 1) * 4096 + (size % 4096)
        txt = txt + " " * (size - len(txt))
    d = tempfile.mkdtemp(prefix="cjv-cred-")
    path = os.path.join(d, "passwd.json")
    with open(path, "w") as fh:
        fh.write(txt)
    binary = build.build(config="default", lane=case.get("lane", "asan"))
    res.sample = {"file_size": len(txt)}
    res.stats["credential_files_loaded"] += 1
    res.sigs.add(("credfile-size", len(txt) % 4096 == 0, len(txt) // 4096))
    S = None
    try:
        try:
            S = Session(binary, config=build.cfg_of("default"), args=("-f", "-p", path), creds=creds, seed=case["seed"])
        except (DaemonExited, DaemonDied) as e:
            res.viol.append(("authfile/valid-file-not-loadable:size%%4096=%d" % (len(txt) % 4096), "file of %d bytes: %s" % (len(txt), e)))
            return
        c = S.connect("c", "raw")
        u = sorted(creds.users)[0]
        S.request(c, "authenticate", {"user": u, "password": creds.users[u]["password"]})
        S.settle()
        S.close_all()
        S.shutdown()
        rc, err = S.finish()
        k = crash_key(rc, err)
        res.viol = S.viol + ([("crash/" + k, err[:2000])] if k else [])
        res.stats.update(S.stats)
        S = None
    finally:
        if S is not None:
            S.sim.finish(kill=True)
        os.unlink(path)
        os.rmdir(d)


@scenario("lookalike-users")
def lookalike_users(case, res):
    """accounts whose names differ only in letter case (or are prefixes of each other): whatever the daemon's idea of name
    equality is, a password change must only ever touch an ENTRY of the credential file that the actor was entitled to change
    (its own entry = the one whose password it authenticated with, or any non-read-only entry for an admin entry)"""
    import crypt as _crypt
    rng = random.Random(case["seed"])
    entries = [("admin", dict(admin=True)), ("Admin", {}), ("bob", {}), ("BOB", dict(readonly=True)), ("bo", {}), ("ADMIN", dict(readonly=True, admin=True))]
    rng.shuffle(entries)
    pw = {i: token(rng) for i in range(len(entries))}         # entry index -> current clear-text password (unique tokens)
    cf = crypt_fn(rng)
    # hand-written JSON: the order of the entries matters and names may look alike
    body_ = ",".join('%s:%s' % (json.dumps(n), json.dumps(dict({"password": cf(pw[i]), "auth": {"fetchGroups": ["g"], "setGroups": ["g"], "callGroups": ["g"]}}, **fl)))
                     for i, (n, fl) in enumerate(entries))
    d = tempfile.mkdtemp(prefix="cjv-cred-")
    path = os.path.join(d, "passwd.json")
    with open(path, "w") as fh:
        fh.write('{"users":{%s}}' % body_)

    def hashes():
        with open(path) as fh:
            txt = fh.read()
        # parse keeping duplicates-by-case apart: names are distinct strings, so a normal parse keeps all of them
        doc = json.loads(txt)
        return [doc["users"][n]["password"] for n, _ in entries]

    def b(S, rng2):
        S.desync = True
        names = [n for n, _ in entries]

        def ask(c, method, params):
            c.keep_log = True
            q = S.request(c, method, params)
            q.expect_override = "any"
            S.settle()
            r = [m for m in c.msglog if isinstance(m, dict) and m.get("id") == q.idv]
            return bool(r and "result" in r[0])
        for step in range(case["params"].get("n", 14)):
            ai = rng.randrange(len(entries))                  # the entry whose password the actor knows
            login = rng.choice(names) if rng.random() < 0.6 else entries[ai][0]
            c = S.connect("c%d" % step, rng.choice(["raw", "ws", "uds"]))
            if c.transport == "ws":
                S.handshake(c)
            ok = ask(c, "authenticate", {"user": login, "password": pw[ai]})
            S.sig("lookalike-auth", login == entries[ai][0], ok)
            if ok:
                target = rng.choice(names)
                new = token(rng)
                before = hashes()
                done = ask(c, "passwd", {"user": target, "password": new})
                after = hashes()
                changed = [i for i in range(len(entries)) if before[i] != after[i]]
                S.stats["passwd_requests"] += 1
                S.stats["passwd_ok"] += 1 if done else 0
                if len(changed) > 1 or (changed and not done) or (done and not changed):
                    S.v("authfile/answer-and-file-disagree", "passwd %r by entry %d (%r) logged in as %r: answered %s, entries changed %r" % (target, ai, entries[ai][0], login, done, changed))
                for i in changed:
                    fl_a, fl_t = entries[ai][1], entries[i][1]
                    allowed = (i == ai and not fl_t.get("readonly")) or (fl_a.get("admin") and not fl_t.get("readonly"))
                    if not allowed:
                        S.v("authz/entry-changed-by-unauthorised-account", "entry %d (%r, %r) changed by the holder of entry %d (%r, %r) logged in as %r, passwd for %r" %
                            (i, entries[i][0], fl_t, ai, entries[ai][0], fl_a, login, target))
                    if _crypt.crypt(new, after[i]) != after[i]:
                        S.v("authfile/changed-entry-does-not-hold-the-new-password", "entry %d" % i)
                    pw[i] = new
            S.end(c, "eof")
            S.settle()
        st = S.close_all()
        S.check_idle_baseline(st, heap=False)
        S.shutdown()
        return [[n for n, _ in entries]]
    try:
        sim_case(case, res, b, session_kw=dict(args=("-f", "-p", path)))
    finally:
        for f in os.listdir(d):
            os.unlink(os.path.join(d, f))
        os.rmdir(d)
