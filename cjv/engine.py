"""Session engine: drives one simd lifetime, decodes everything the daemon generates (in the
daemon's own global order, from the ordered trace tap), and runs the online monitors:

  rpc     - JSON-RPC ledger (one response per id, none otherwise, right connection, right id)
  ns      - element namespace reference map (expected class of every well-formed request)
  replica - per-fetch replica vs the model at every quiescent point
  route   - routing ledger (forward once to the owner, one final answer, right payload, deadlines)
  wire    - bytes on the wire == concatenation of successfully generated frames, strict decoders
  conn    - closure discipline (ended connections are released, healthy ones are not dropped)
  res     - resources at quiescence / at the end (heap, peers, descriptors, timers, hygiene)
"""
import collections, json, random

from . import wire
from .model import MISSING, Elem, Rule, id_key, jeq, rule_matches
from .sim import DaemonDied, DaemonExited, Hang, Sim

AUTO = ("auto-id",)
DEBUG_TRACE = bool(__import__("os").environ.get("CJV_TRACE"))


class Pending:
    def __init__(self, conn, idv, method, params, hostile=False):
        self.conn, self.idv, self.key = conn, idv, id_key(idv)
        self.method, self.params, self.hostile = method, params, hostile
        self.state = "sent"      # sent | forwarded | final
        self.owner = None
        self.fwd_id = None
        self.armed_ns = None
        self.deadline = None
        self.reply = None        # (kind, payload) the owner sent
        self.reply_delivered = False
        self.owner_gone = False
        self.expect_override = None
        self.sent_at = 0


class Fetch:
    def __init__(self, conn, fid, rule):
        self.conn, self.fid, self.key, self.rule = conn, fid, id_key(fid), rule
        self.replica = {}
        self.state = "pending"   # pending | active | ended
        self.notes = 0


class Conn:
    def __init__(self, name, fd, transport, local):
        self.name, self.fd, self.transport, self.local = name, fd, transport, local
        self.dec = wire.WsDecoder() if transport == "ws" else wire.RawDecoder()
        self.expected_wire = bytearray()
        self.wire = bytearray()
        self.sent_payloads = collections.deque()
        self.track_input = True
        self.pending = {}
        self.done = {}
        self.fetches = {}
        self.healthy = True       # kernel accepts everything the daemon writes
        self.slow = False         # healthy, but the kernel takes the daemon's bytes later than they are generated
        self.ended = None         # 'eof' | 'rst' once the driver ended it
        self.closed = False       # daemon closed the descriptor
        self.accepted = False
        self.may_close = False    # the daemon is entitled to drop it (ill-formed traffic, faults)
        self.user = None
        self.groups = {"fetch": set(), "set": set(), "call": set()}
        self.upgraded = False
        self.hs_sent = False
        self.hs_valid = None
        self.hs_key = None
        self.failed_frames = 0
        self.nreq = 0
        self.inbox = []           # decoded messages not consumed by a monitor (for custom checks)
        self.pings = collections.deque()
        self.msglog = []
        self.failed_at = []
        self.ledger = True        # responses / notifications on this connection are matched against requests
        self.last_seq = -1

    def alive(self):
        return not self.closed and self.ended is None


class Session:
    def __init__(self, binary, config=None, args=("-f",), seed=0, creds=None, fill_byte=None, limits=None,
                 strict_close=True, timeout=60, reuse=False):
        self.cfg = config or {}
        self.rng = random.Random(seed)
        self.seed = seed
        self.sim = Sim(binary, args=args, fill_byte=fill_byte, timeout=timeout, reuse=reuse)
        self.reuse = reuse
        self.conns = {}
        self.by_fd = {}
        self.elements = {}
        self.viol = []           # (key, detail)
        self.stats = collections.Counter()
        self.sigs = set()
        self.reasons = collections.Counter()
        self.creds = creds
        self.now = 1000000000
        self.idc = 0
        self.per_conn_ids = False
        self.sys_faults = False      # system calls are made to fail anywhere (a failed send says nothing about the connection then)
        self.valc = 0
        self.default_timeout = float(self.cfg.get("CONFIG_ROUTED_MESSAGES_TIMEOUT", 5.0))
        eo = int(self.cfg.get("CONFIG_ELEMENT_TABLE_ORDER", 13))
        ro = int(self.cfg.get("CONFIG_ROUTING_TABLE_ORDER", 6))
        self.elem_limit = min(1 << (eo - 1), 32)
        self.route_limit = min(1 << (ro - 1), 32)
        self.localadd = str(self.cfg.get("CONFIG_ALLOW_ADD_ONLY_FROM_LOCALHOST", "false")) == "true"
        self.max_matchers = int(self.cfg.get("CONFIG_MAX_NUMBERS_OF_MATCHERS_IN_FETCH", 12))
        self.max_msg = int(self.cfg.get("CONFIG_MAX_MESSAGE_SIZE", 512))
        self.heap_cap = int(self.cfg.get("CONFIG_MAX_HEAPSIZE_IN_KBYTE", 20480)) * 1024
        self.strict_close = strict_close
        self.faults_active = False      # some peer is faulty: tolerate delivery-failure errors (C11 rules)
        self.alloc_faults = False
        self.last_armed = None
        self.trace_ctx = None
        self.log = []
        self.baseline = self.sim.stat()
        self.ops = []               # executed abstract ops (replay)
        self.timer_owner = {}       # timer fd -> Pending
        self.unmodelled = 0
        self.closed_log = []
        self.check_m = True
        self.idless = []
        self.uncertain = set()      # paths whose state the model can not derive (error answers under faults): read back
        self.desync = False
        self.deferred = []

    # ------------------------------------------------------------------
    def v(self, key, detail=""):
        if self.desync and key.split("/")[0] in ("ns", "replica", "route") and not (self.alloc_faults and key == "replica/notification-for-unknown-fetch"):
            # (a notification that names a fetch its receiver never asked for is wrong whatever was lost to a failed allocation)
            self.stats["suppressed_after_desync"] += 1
            return
        self.viol.append((self.key_prefix + key, str(detail)[:600]))

    def sig(self, *parts):
        self.sigs.add(parts)

    def next_id(self, conn):
        if self.per_conn_ids and conn is not None:
            # every connection numbers its requests itself, as real clients do: equal ids on different connections
            conn.idc += 1
            return conn.idc
        self.idc += 1
        return self.idc

    def next_val(self, conn=None):
        self.valc += 1
        return {"w": conn.name if conn else "-", "n": self.valc}

    # ------------------------------------------------------------------
    # connections
    def connect(self, name, transport="raw", addr=None):
        if transport == "uds":
            fd = self.sim.connect("uds", ("u",))
            local = True
        else:
            addr = addr or ("4", "127.0.0.1", 40000 + len(self.conns))
            fd = self.sim.connect("ws" if transport == "ws" else "jet", addr)
            local = addr[1] in ("127.0.0.1", "::1", "::ffff:127.0.0.1")
        c = Conn(name, fd, transport, local)
        self.conns[name] = c
        self.by_fd[fd] = c
        self.stats["connect_" + transport] += 1
        return c

    def handshake(self, c, chunks=None, **kw):
        key = kw.pop("key", None) or wire.base64.b64encode(bytes(self.rng.randrange(256) for _ in range(16)))
        data = wire.ws_handshake(key=key, **kw)
        c.hs_sent, c.hs_key, c.hs_valid = True, key, True
        self.send_bytes(c, data, chunks)

    def send_bytes(self, c, data, chunks=None):
        if c.closed or c.ended:
            return
        for ch in wire.chunkings(data, chunks, self.rng):
            self.sim.send(c.fd, ch)
        self.stats["bytes_sent"] += len(data)

    def frame_for(self, c, payload, **kw):
        if c.transport == "ws":
            return wire.ws_frame(1, payload, **kw)
        return wire.raw_frame(payload)

    def send_payload(self, c, payload, chunks=None, **kw):
        """one complete JSON-RPC payload in the connection's framing"""
        if c.closed or c.ended:
            return False
        if len(payload) > (self.max_msg if c.transport != "ws" else self.max_msg - 14):
            c.may_close = True      # longer than the configured maximum: the daemon ends the connection
            self.stats["oversize_messages"] += 1
        if c.track_input:
            c.sent_payloads.append(payload)
        self.send_bytes(c, self.frame_for(c, payload, **kw), chunks)
        return True

    # ------------------------------------------------------------------
    # requests
    def request(self, c, method, params=AUTO, idv=AUTO, chunks=None, hostile=False, extra=None, send=True):
        if idv is AUTO:
            idv = self.next_id(c)
        msg = {}
        if idv is not None:
            msg["id"] = idv
        msg["method"] = method
        if params is not AUTO:
            msg["params"] = params
        if extra:
            msg.update(extra)
        p = self._register(c, msg, hostile)
        if send:
            ea = self.rng.random() < 0.5
            text = json.dumps(msg, ensure_ascii=False)
            if any(0xDC80 <= ord(ch) <= 0xDCFF for ch in text):
                # bytes that are not UTF-8 (kept as escaped surrogates inside the driver) go out as the raw bytes they stand for
                data = text.encode("utf-8", "surrogateescape")
            else:
                data = json.dumps(msg, ensure_ascii=ea).encode()
            self.send_payload(c, data, chunks)
        self.stats["req_" + str(method)[:12]] += 1
        return p

    def _register(self, c, msg, hostile=False):
        """book-keeping for one request object that is about to be sent on c"""
        idv = msg.get("id")
        method = msg.get("method")
        params = msg.get("params", AUTO)
        p = Pending(c, idv, method, params, hostile)
        p.sent_at = self.now
        c.nreq += 1
        p.seq = c.nreq
        if method == "fetch" and isinstance(params, dict) and hostile:
            k0 = id_key(params.get("id"))
            f0 = c.fetches.get(k0) if k0 is not None else None
            if f0 is not None and f0.state == "pending":
                # the same fetch id is requested again while the first request is still in flight: which of the two
                # the daemon accepts decides whose notifications follow; they are not judged
                f0.opaque = True
                f0.refs += 1
                p.fetch = f0
        if method == "fetch" and isinstance(params, dict):
            fid = params.get("id")
            k = id_key(fid)
            if k is not None and "match" not in params and (k not in c.fetches or c.fetches[k].state == "ended"):
                rd = params.get("path")
                if rd is None or Rule.well_formed(rd, self.max_matchers):
                    f = Fetch(c, fid, None if rd is None else Rule(rd))
                    f.request = p
                    c.fetches[k] = f
                    p.fetch = f
                elif hostile:
                    # a rule the reference matcher does not define: if the daemon accepts it, its notifications are not judged
                    f = Fetch(c, fid, None)
                    f.opaque = True
                    f.request = p
                    c.fetches[k] = f
                    p.fetch = f
        if p.key is None and method in ("set", "call") and "id" not in msg:
            self.idless.append(p)
        if p.key is None and method in ("add", "remove", "change", "fetch", "unfetch", "authenticate", "passwd"):
            # no response will tell whether it took effect: the model cannot follow
            self.desync = True
            self.stats["desync"] += 1
            self.stats["desync:idless-%s" % method] += 1
        if p.key is not None:
            if p.key in c.pending or p.key in c.done:
                # the scenario reuses an id: the ledger cannot attribute responses; count only
                p.ambiguous = True
                c.pending.setdefault(p.key, p)
            else:
                c.pending[p.key] = p
        return p

    def batch(self, c, msgs, chunks=None, hostile=False):
        for m in msgs:
            if isinstance(m, dict):
                self._register(c, m, hostile)
        self.send_payload(c, json.dumps(msgs).encode(), chunks)
        self.stats["batches"] += 1

    def reply(self, owner, p, kind="result", payload=None, idmode="right", chunks=None, raw_ctrl=False):
        """the owner answers forwarded request p"""
        if payload is None:
            payload = {"r": self.next_val(owner)} if kind == "result" else {"code": 4711, "message": "owner-error", "data": self.next_val(owner)}
        fid = p.fwd_id
        if idmode == "forged":
            fid = "forged_%d" % self.rng.randrange(1 << 30)
        msg = {"id": fid, kind: payload}
        text = json.dumps(msg).encode()
        if raw_ctrl:
            text = text.replace(b"\\u0001", b"\x01")
        sent = self.send_payload(owner, text, chunks)
        if sent and idmode == "right" and p.state == "forwarded" and p.reply is None:
            p.reply = (kind, payload)
            p.reply_trusted = owner.healthy and owner.track_input   # a faulty owner's reply may or may not get through
            if p.deadline is not None and self.now >= p.deadline:
                p.race = True
        self.stats["owner_reply_" + idmode] += 1

    def end(self, c, how="eof"):
        if c.closed or c.ended:
            return
        if how == "rst":
            c.healthy = False
            self.sim.rst(c.fd)
        else:
            self.sim.eof(c.fd)
        c.ended = how
        self.stats["end_" + how] += 1

    def advance(self, ns):
        self.now += ns
        self.sim.advance(ns)
        self.stats["advance"] += 1

    # ------------------------------------------------------------------
    # prediction (evaluated when the daemon's answer is processed, i.e. in processing order)
    def visible(self, e, c):
        if self.creds is None:
            return True
        return bool(self.creds.filt(e.groups.get("fetchGroups")) & c.groups["fetch"])

    def can_route(self, e, c):
        if self.creds is None:
            return True
        k = "setGroups" if e.is_state else "callGroups"
        return bool(self.creds.filt(e.groups.get(k)) & c.groups["set" if e.is_state else "call"])

    @staticmethod
    def _timeout_ok(pr):
        if "timeout" not in pr:
            return True
        t = pr["timeout"]
        if isinstance(t, bool) or not isinstance(t, (int, float)):
            return False
        if t > 1e10:
            return None     # not representable in nanoseconds: refusing is as good as accepting
        return t >= 0.001

    def predict(self, p):
        """-> (expect, effect) ; expect in ok | err | any | routed"""
        c, m, pr = p.conn, p.method, p.params
        if not isinstance(m, str):
            return "err", None
        if m == "info":
            return "ok", None
        if pr is AUTO or pr is None:
            return ("err" if pr is AUTO else "any"), None
        if not isinstance(pr, dict):
            return "any", None
        path = pr.get("path")
        if m == "add":
            if not isinstance(path, str):
                return "err", None
            if "fetchOnly" in pr and not isinstance(pr["fetchOnly"], bool):
                return "err", None
            tok = self._timeout_ok(pr)
            if tok is False:
                return "err", None
            acc = pr.get("access")
            if acc is not None and not isinstance(acc, dict):
                return "any", None
            if isinstance(acc, dict):
                for k in ("fetchGroups", "setGroups", "callGroups"):
                    if k in acc and not isinstance(acc[k], list):
                        return "any", None
            if self.localadd and not c.local:
                return "err", None
            if path in self.elements:
                return "err", None
            is_state = "value" in pr

            def eff():
                self.elements[path] = Elem(path, c, is_state, pr.get("value"), pr.get("fetchOnly") is True,
                                           pr.get("timeout"), acc or {})
            # a timeout that nanoseconds cannot represent may be refused or accepted; the model follows the answer. The same holds
            # for a path that is not UTF-8 (no well-formed JSON text): the daemon may store it as it is or refuse it
            if any(0xDC80 <= ord(ch) <= 0xDCFF for ch in path):
                tok = None
            return ("ok" if tok else "any"), eff
        if m == "remove":
            e = self.elements.get(path) if isinstance(path, str) else None
            if e is None or e.owner is not c:
                return "err", None

            def eff():
                del self.elements[path]
            return "ok", eff
        if m == "change":
            e = self.elements.get(path) if isinstance(path, str) else None
            if e is None or e.owner is not c or not e.is_state or "value" not in pr:
                return "err", None

            def eff():
                e.value = pr["value"]
            return "ok", eff
        if m in ("set", "call"):
            e = self.elements.get(path) if isinstance(path, str) else None
            if e is None:
                return "err", None
            if m == "set" and (not e.is_state or e.fetch_only or "value" not in pr):
                return "err", None
            if m == "call" and e.is_state:
                return "err", None
            if m == "call" and e.fetch_only:
                return "any", None
            if not self.can_route(e, c):
                return "err", None
            if not self._timeout_ok(pr):
                return ("err" if self._timeout_ok(pr) is False else "any"), None
            return "routed", None
        if m == "fetch":
            if "match" in pr:
                return "err", None
            f = getattr(p, "fetch", None)
            if f is None:
                return "err", None

            def eff():
                f.state = "active"
                self._check_replica(f, "at-fetch-response")
            return "ok", eff
        if m == "unfetch":
            k = id_key(pr.get("id"))
            f = c.fetches.get(k) if k is not None else None
            if f is None or f.state != "active":
                return "err", None

            def eff():
                f.state = "ended"
            return "ok", eff
        if m == "get":
            rd = pr.get("path")
            if rd is not None and not Rule.well_formed(rd, self.max_matchers):
                return "err", None
            return "ok", None
        if m == "config":
            if "name" in pr and not isinstance(pr["name"], str):
                return "err", None
            return "ok", None
        if m == "authenticate":
            u, pw = pr.get("user"), pr.get("password")
            if not isinstance(u, str) or not isinstance(pw, str) or self.creds is None:
                return "err", None
            if any(f.state != "ended" for f in c.fetches.values() if f.request is not p):
                return "err", None
            usr = self.creds.users.get(u)
            # (an account that got its password while its stored string named no hash method is hashed with traditional DES
            # crypt, which looks at the first 8 characters only)
            same = usr is not None and (pw[:8] == usr["password"][:8] if usr.get("des") else pw == usr["password"])
            if usr is None or not same or usr.get("hash") is not None:
                return "err", None      # (an account whose stored hash is no complete hash - locked, half provisioned - accepts no password at all)

            def eff():
                c.user = u
                c.groups = {"fetch": self.creds.filt(usr.get("fetchGroups")), "set": self.creds.filt(usr.get("setGroups")),
                            "call": self.creds.filt(usr.get("callGroups"))}
            return "ok", eff
        if m == "passwd":
            u, pw = pr.get("user"), pr.get("password")
            if not isinstance(u, str) or not isinstance(pw, str) or self.creds is None:
                return "err", None
            if c.user is None:
                return "err", None
            tgt = self.creds.users.get(u)
            if tgt is None or tgt.get("readonly"):
                return "err", None
            if c.user != u and not self.creds.users[c.user].get("admin"):
                return "err", None
            if tgt.get("hash") is not None:
                p.may_refuse = True     # whether a salt can be derived from a stored string that is no hash depends on that string

            def eff():
                tgt["password"] = pw
                oldh = tgt.pop("hash", None)
                if oldh is not None and not oldh.startswith("$"):
                    tgt["des"] = True   # from now on an ordinary account, hashed with the fall-back method
                self.stats["passwd_ok"] += 1
            return "ok", eff
        return "err", None

    # ------------------------------------------------------------------
    # processing of daemon output
    def _on_frame(self, c, kind, payload, obj):
        if kind == "http":
            self.stats["http_status_%s" % obj] += 1
            if obj == 101:
                c.upgraded = True
                acc = c.dec.headers.get("sec-websocket-accept")
                if c.hs_key is not None and acc != wire.ws_accept(c.hs_key):
                    self.v("ws/bad-accept-digest", "%r for key %r" % (acc, c.hs_key))
                if c.dec.headers.get("upgrade", b"").lower() != b"websocket":
                    self.v("ws/101-without-upgrade-header", c.dec.head_raw)
            c.inbox.append(("http", obj))
            return
        if kind == "close":
            self.stats["ws_close_%s" % obj] += 1
            c.inbox.append(("close", obj))
            return
        if kind == "pong":
            self.stats["ws_pong"] += 1
            if not c.ledger or not c.healthy or not c.track_input:
                return      # pongs for frames that garbage happened to form are not judged
            if c.pings and c.pings[0] == payload:
                c.pings.popleft()
            else:
                self.v("ws/pong-mismatch", "pong %r, expected %r" % (payload[:40], list(c.pings)[:1]))
            return
        if kind in ("ping", "other", "cmsg"):
            c.inbox.append((kind, payload))
            return
        # a JSON message
        self.stats["msgs_from_daemon"] += 1
        if c.keep_log:
            c.msglog.append(obj)
        if not isinstance(obj, dict):
            if c.ledger:
                self.v("rpc/output-not-an-object", payload[:200])
            return
        if "method" in obj and "id" not in obj:
            self._on_notification(c, obj)
        elif "method" in obj:
            self._on_forward(c, obj)
        elif "id" in obj:
            self._on_response(c, obj)
        else:
            self.v("rpc/output-neither-request-nor-response", payload[:200])

    def _on_notification(self, c, obj):
        if not c.ledger or not c.healthy:
            self.stats["unledgered_notifications"] += 1
            return
        fid = obj["method"]
        k = id_key(fid)
        f = c.fetches.get(k)
        pr = obj.get("params")
        self.stats["notifications"] += 1
        if f is None or not isinstance(pr, dict):
            self.v("replica/notification-for-unknown-fetch", json.dumps(obj)[:200])
            return
        if f.state == "ended":
            self.v("replica/notification-after-unfetch", json.dumps(obj)[:200])
            return
        path, ev = pr.get("path"), pr.get("event")
        f.notes += 1
        self.stats["note_" + str(ev)] += 1
        if ev == "add":
            if path in f.replica:
                self.v("replica/add-for-path-already-reported", json.dumps(obj)[:200])
            if f.state == "active" and getattr(f, "request", None) is not None and False:
                pass
            f.replica[path] = pr.get("value", MISSING) if "value" in pr else MISSING
        elif ev == "change":
            if path not in f.replica:
                self.v("replica/change-for-path-not-reported", json.dumps(obj)[:200])
            f.replica[path] = pr.get("value", MISSING) if "value" in pr else MISSING
        elif ev == "remove":
            if path not in f.replica:
                self.v("replica/remove-for-path-not-reported", json.dumps(obj)[:200])
            f.replica.pop(path, None)
        else:
            self.v("replica/unknown-event", json.dumps(obj)[:200])

    def _find_routed(self, owner, obj):
        path = obj.get("method")
        pr = obj.get("params")
        for c in self.conns.values():
            for p in c.pending.values():
                if p.state != "sent" or p.method not in ("set", "call") or not isinstance(p.params, dict):
                    continue
                if p.params.get("path") != path:
                    continue
                if p.method == "set":
                    if isinstance(pr, dict) and "value" in pr and jeq(pr["value"], p.params.get("value")) and len(pr) == 1:
                        return p
                else:
                    want = p.params.get("args", {})
                    if jeq(pr, want):
                        return p
        # requests without id are not in pending; they are kept separately
        for p in self.idless:
            if p.state == "sent" and isinstance(p.params, dict) and p.params.get("path") == path:
                if p.method == "set" and isinstance(pr, dict) and len(pr) == 1 and "value" in pr and "value" in p.params and jeq(pr["value"], p.params["value"]):
                    return p        # (a set without value is never forwarded: it must not claim another request's forward)
                if p.method == "call" and jeq(pr, p.params.get("args", {})):
                    return p
        return None

    def _on_forward(self, c, obj):
        self.stats["forwards"] += 1
        p = self._find_routed(c, obj)
        if p is None and (self.tolerate_unknown_forwards or not c.ledger):
            self.stats["unledgered_forwards"] += 1
            return
        if p is None:
            self.v("route/unexpected-forward", "on %s: %s" % (c.name, json.dumps(obj)[:200]))
            return
        e = self.elements.get(obj.get("method"))
        if e is None or e.owner is not c:
            self.v("route/forward-to-non-owner", "on %s: %s" % (c.name, json.dumps(obj)[:200]))
        exp, _ = self.predict(p)
        if exp not in ("routed", "any"):
            self.v("route/forwarded-although-refusable:" + p.method, json.dumps(obj)[:200])
        fid = obj.get("id")
        if not isinstance(fid, str):
            self.v("route/forward-id-not-a-string", json.dumps(obj)[:200])
        for cc in self.conns.values():
            for q in cc.pending.values():
                if q.state == "forwarded" and q.fwd_id == fid:
                    self.v("route/forward-id-not-unique", fid)
        p.state, p.owner, p.fwd_id = "forwarded", c, fid
        p.armed_ns = self.last_armed
        self.last_armed = None
        if p.armed_ns is not None:
            p.deadline = self.now + p.armed_ns
            t = p.params.get("timeout", e.timeout if e is not None and e.timeout is not None else self.default_timeout)
            want = int(float(t) * 1e9)
            if abs(p.armed_ns - want) > 1 and float(t) <= 1e10:
                self.v("route/wrong-deadline-armed", "armed %d ns, expected %d ns (%r)" % (p.armed_ns, want, t))
            self.sig("deadline", "req" if "timeout" in p.params else "elem" if e is not None and e.timeout is not None else "default")
        else:
            self.v("route/no-deadline-armed", json.dumps(obj)[:200])
        c.forwarded = getattr(c, "forwarded", [])
        c.forwarded.append(p)

    def _inflight(self, owner):
        n = 0
        for cc in self.conns.values():
            for q in cc.pending.values():
                if q.state == "forwarded" and q.owner is owner:
                    n += 1
        for q in self.idless:
            if q.state == "forwarded" and q.owner is owner:
                n += 1
        return n

    def _on_response(self, c, obj):
        self.stats["responses"] += 1
        if not c.ledger:
            self.stats["unledgered_responses"] += 1
            return
        k = id_key(obj.get("id"))
        if k is None:
            self.stats["responses_with_non_scalar_id"] += 1
            return
        has_r, has_e = "result" in obj, "error" in obj
        if has_r == has_e:
            self.v("rpc/response-without-exactly-one-of-result-error", json.dumps(obj)[:200])
        p = c.pending.get(k) if k is not None else None
        if p is None:
            if k in c.done:
                self.v("rpc/second-response-to-one-request", json.dumps(obj)[:200])
            else:
                self.v("rpc/response-to-unknown-id", "on %s: %s" % (c.name, json.dumps(obj)[:200]))
            return
        if getattr(p, "ambiguous", False):
            return
        success = has_r
        if has_e and isinstance(obj["error"], dict):
            d = obj["error"].get("data")
            if isinstance(d, dict):
                for kk, vv in d.items():
                    self.reasons["%s" % (vv if kk == "reason" else kk)] += 1
        if p.state == "forwarded":
            self._final_answer(p, obj, success)
            return
        if p.seq < c.last_seq:
            self.v("rpc/responses-out-of-order", "on %s: %s" % (c.name, json.dumps(obj)[:200]))
        c.last_seq = max(c.last_seq, p.seq)
        exp, eff = self.predict(p)
        if p.expect_override:
            exp = p.expect_override
        if p.hostile:
            if exp == "err" and success and p.method in ("add", "remove", "change", "fetch", "unfetch", "authenticate", "passwd"):
                self.desync = True
                self.stats["desync"] += 1
                self.stats["desync:hostile-accepted-%s" % p.method] += 1
            if exp in ("ok", "err"):
                exp = "any"
        self.sig("resp", p.method if p.method in METHODS else "?", exp, success)
        if exp == "ok" and not success:
            code = obj["error"].get("code") if isinstance(obj.get("error"), dict) else None
            if self.faults_active and code == -32603 and p.method in ("add", "change", "remove") and isinstance(p.params, dict) and isinstance(p.params.get("path"), str):
                # "at worst an error that reports the failed delivery": whether it took effect is read back later
                self.uncertain.add(p.params["path"])
                self.stats["uncertain_after_error"] += 1
                eff = None
            elif p.may_refuse:
                self.stats["tolerated_refusals"] += 1
                eff = None
            elif self._refusal_plausible(p, code):
                self.stats["resource_refusals"] += 1
                eff = None
            else:
                self.v("ns/unexpected-error:%s" % p.method, "%s -> %s" % (json.dumps({"m": p.method, "p": _j(p.params)})[:200], json.dumps(obj)[:200]))
        elif exp == "err" and success:
            self.v("ns/unexpected-success:%s" % p.method, "%s -> %s" % (json.dumps({"m": p.method, "p": _j(p.params)})[:200], json.dumps(obj)[:200]))
            eff = None
            self.unmodelled += 1
        elif exp == "routed":
            if success:
                self.v("route/immediate-success-without-owner", json.dumps(obj)[:200])
            else:
                e = self.elements.get(p.params.get("path"))
                owner = e.owner if e else None
                code = obj["error"].get("code") if isinstance(obj.get("error"), dict) else None
                if not (code == -32603 and (self._inflight(owner) >= self.route_limit or self.faults_active or self.alloc_faults or self.inject_active)):
                    self.v("route/refused-without-reason:%s" % p.method, "%s -> %s" % (_j(p.params), json.dumps(obj)[:200]))
                else:
                    self.stats["route_refusals"] += 1
        if success and eff is None and exp != "routed" and p.method in ("add", "remove", "change", "fetch", "unfetch", "authenticate", "passwd"):
            # a state-changing request succeeded whose effect the model cannot derive: stop model-based verdicts
            self.desync = True
            self.stats["desync"] += 1
            self.stats["desync:underivable-%s" % p.method] += 1
        if success and eff is not None:
            eff()
        if success and p.method == "get" and getattr(p, "readback", None) is not None:
            self._readback(p, obj.get("result"))
        elif success and p.method == "get" and exp in ("ok", "any"):
            self._check_get(p, obj.get("result"))
        if not success and p.method == "fetch":
            f = getattr(p, "fetch", None)
            if f is not None:
                f.refs -= 1
                if f.refs <= 0:
                    if f.notes and not self.faults_active and not f.opaque:
                        self.v("replica/notifications-for-refused-fetch", "%d" % f.notes)
                    f.state = "ended"
        p.state = "final"
        del c.pending[k]
        c.done[k] = p

    inject_active = False
    key_prefix = ""
    tolerate_unknown_forwards = False

    def _refusal_plausible(self, p, code):
        if self.alloc_faults:
            return True
        if code != -32603:
            return False
        if self.faults_active and p.method in ("add", "change", "fetch"):
            return True
        if p.method == "add":
            if len(self.elements) >= self.elem_limit:
                return True
            if self.heap_cap - self.last_heap < 4096 + 4 * self.max_msg:
                return True
        return False

    last_heap = 0

    def _final_answer(self, p, obj, success):
        """caller's final answer to a forwarded request"""
        kind = "result" if success else "error"
        payload = obj.get(kind)
        cls = None
        if p.reply is not None and p.reply[0] == kind and jeq(p.reply[1], payload):
            cls = "owner"
        elif not success:
            cls = "daemon-error"
            ok = False
            if p.deadline is not None and self.now >= p.deadline:
                ok = True
                self.sig("final", "timeout")
            if p.owner is not None and (p.owner.ended or p.owner.closed or p.owner.closing):
                ok = True
                self.sig("final", "owner-gone")
            if p.reply is not None and getattr(p, "race", False):
                ok = True
            if p.conn.ended or p.conn.closing:
                ok = True    # the caller itself is going away: its requests are being dropped
            if self.faults_active and p.owner is not None and not p.owner.healthy:
                ok = True
            if self.alloc_faults:
                ok = True
            if not ok:
                # legitimate only if the owner turns out to be going away in this very trace
                self.deferred.append((p, json.dumps(obj)[:200]))
        else:
            self.v("route/answer-differs-from-owner-payload", "%s vs %s" % (json.dumps(obj)[:200], json.dumps(p.reply)[:200] if p.reply else None))
        if cls == "owner":
            self.sig("final", "owner-" + kind)
        self.stats["final_%s" % cls] += 1
        p.state = "final"
        del p.conn.pending[p.key]
        p.conn.done[p.key] = p

    def _readback(self, p, result):
        path = p.readback
        hit = [it for it in result if isinstance(it, dict) and it.get("path") == path] if isinstance(result, list) else []
        if hit:
            if path in self.elements:
                self.elements[path].value = hit[0].get("value")
            else:
                self.elements[path] = Elem(path, p.readback_owner, True, hit[0].get("value"), False, None, {})
        else:
            self.elements.pop(path, None)
        self.uncertain.discard(path)
        self.stats["readbacks"] += 1

    def resolve_uncertain(self, observer):
        """ask the daemon (through a healthy connection) what became of the uncertain paths; replicas are compared with that afterwards"""
        for path in sorted(self.uncertain):
            e = self.elements.get(path)
            if e is not None and not e.is_state:
                self.uncertain.discard(path)
                continue
            p = self.request(observer, "get", {"path": {"equals": path}})
            p.readback = path
            p.readback_owner = e.owner if e is not None else observer

    def _expected_replica(self, f):
        out = {}
        for path, e in self.elements.items():
            if path in self.uncertain:
                continue
            if rule_matches(f.rule, path) and self.visible(e, f.conn):
                out[path] = e.value if e.is_state else MISSING
        return out

    def _check_replica(self, f, when):
        if not f.conn.healthy or not f.conn.ledger or f.opaque:
            return True     # a faulty peer's own replica is its own problem
        exp = self._expected_replica(f)
        have = f.replica
        if self.uncertain:
            have = {k: v for k, v in f.replica.items() if k not in self.uncertain}
        self.stats["replica_checks"] += 1
        if len(exp) > 0:
            self.stats["replica_checks_nonempty"] += 1
        if exp.keys() != have.keys():
            extra = sorted(set(have) - set(exp))[:5]
            miss = sorted(set(exp) - set(have))[:5]
            self.v("replica/mismatch-paths:" + when, "fetch %r on %s: extra %r missing %r" % (f.fid, f.conn.name, extra, miss))
            return False
        for k in exp:
            a, b = exp[k], have[k]
            if (a is MISSING) != (b is MISSING) or (a is not MISSING and not jeq(a, b)):
                self.v("replica/mismatch-value:" + when, "fetch %r on %s path %r: replica %r model %r" % (f.fid, f.conn.name, k, b, a))
                return False
        self.sig("replica", when, min(len(exp), 4), None if f.rule is None else tuple(sorted(k for k, _ in f.rule.ms)) + (("ci",) if f.rule.ci else ()),
                 f.conn.transport, min(len(self.elements), 6))
        return True

    def _check_get(self, p, result):
        self.stats["get_checks"] += 1
        rd = p.params.get("path") if isinstance(p.params, dict) else None
        rule = None if rd is None else Rule(rd)
        exp = {path: e.value for path, e in self.elements.items()
               if e.is_state and rule_matches(rule, path) and self.visible(e, p.conn)}
        if not isinstance(result, list):
            self.v("ns/get-result-not-a-list", repr(result)[:200])
            return
        got = {}
        for it in result:
            if not isinstance(it, dict) or "path" not in it:
                self.v("ns/get-result-entry-malformed", repr(it)[:200])
                return
            if it["path"] in got:
                self.v("ns/get-result-duplicate-path", repr(it)[:200])
            got[it["path"]] = it.get("value")
        if got.keys() != exp.keys():
            self.v("ns/get-mismatch-paths", "rule %r: extra %r missing %r" % (rd, sorted(set(got) - set(exp))[:5], sorted(set(exp) - set(got))[:5]))
            return
        for k in exp:
            if not jeq(exp[k], got[k]):
                self.v("ns/get-mismatch-value", "path %r: got %r model %r" % (k, got[k], exp[k]))
                return
        self.sig("get", min(len(exp), 4), rd is None)

    # ------------------------------------------------------------------
    def _peer_gone(self, c):
        """the daemon released connection c (observed): apply the disconnect rules to the model"""
        c.closed = True
        self.closed_log.append(c.name)
        for path in [p for p, e in self.elements.items() if e.owner is c]:
            del self.elements[path]
        for f in c.fetches.values():
            f.state = "ended"
        c.pending.clear()
        self.stats["conn_closed_by_daemon"] += 1

    def process(self):
        """consume the ordered trace and the wire bytes produced since the last call"""
        t = self.sim.taps()
        for ln in t["log"]:
            self.log.append(ln)
        for h in t["hygiene"]:
            self.v("res/fd-hygiene:%s-%s-%s" % (h["op"], h["kind"], h["state"]), json.dumps(h)[:400])
        if DEBUG_TRACE:
            for ev in t["trace"]:
                print("TRACE", ev[0], ev[1], (bytes.fromhex(ev[2])[:150] if ev[0] in "gm" else ev[2:]), ev[3:] if ev[0] == "g" else "")
        for ev in t["trace"]:
            k = ev[0]
            if k == "g":
                c = self.by_fd.get(ev[1])
                frame = bytes.fromhex(ev[2])
                self.stats["frames_generated"] += 1
                if c is None:
                    self.v("wire/frame-for-unknown-descriptor", "%d" % ev[1])
                    continue
                if c.closed:
                    self.v("conn/frame-generated-after-release", "on %s" % c.name)
                if ev[3] != 0:
                    c.failed_frames += 1
                    c.failed_at.append((len(c.expected_wire), frame))
                    self.stats["frames_refused"] += 1
                    if c.healthy and not self.sys_faults:
                        self.v("wire/send-failed-on-healthy-connection", "on %s" % c.name)
                    # the frame never reaches the client, but a response in it tells what the daemon did: keep the model in step
                    try:
                        if c.transport == "ws":
                            d = wire.WsDecoder()
                            d.state = "ws"
                            got = d.feed(frame)
                        else:
                            got = wire.RawDecoder().feed(frame)
                        for kind, payload, obj, _w in got:
                            if kind == "msg" and isinstance(obj, dict) and "id" in obj and "method" not in obj and c.ledger:
                                self._on_response(c, obj)
                                self.stats["undelivered_responses_applied"] += 1
                    except Exception:
                        pass
                    continue
                c.expected_wire += frame
                before = len(c.dec.errors)
                for kind, payload, obj, _w in c.dec.feed(frame):
                    self._on_frame(c, kind, payload, obj)
                if c.dec.partial() and not c.ledger:
                    c.dec.buf = b""
                if c.dec.partial():
                    self.v("wire/generated-frame-is-not-a-whole-frame", "on %s: %r" % (c.name, frame[:60]))
                    c.dec.buf = b""
                for e in c.dec.errors[before:]:
                    if not c.ledger:
                        self.stats["decoder_errors_on_hostile_connections"] += 1
                        continue
                    self.v("wire/decoder:" + e.split(":")[0].split(" %")[0][:50], "on %s: %s" % (c.name, e))
            elif k == "m":
                c = self.by_fd.get(ev[1])
                self.stats["messages_parsed"] += 1
                if c is not None and c.track_input and self.check_m:
                    got = bytes.fromhex(ev[2])
                    if not c.sent_payloads:
                        self.v("input/message-never-sent-was-parsed", "on %s: %r" % (c.name, got[:80]))
                    else:
                        want = c.sent_payloads.popleft()
                        if want != got:
                            self.v("input/parsed-content-differs-from-sent-message", "on %s: sent %r parsed %r" % (c.name, want[:80], got[:80]))
            elif k == "c":
                c = self.by_fd.get(ev[1])
                if c is not None:
                    self._peer_gone(c)
                else:
                    self.stats["timer_closed"] += 1
            elif k == "a":
                c = self.by_fd.get(ev[1])
                if c is not None:
                    c.accepted = True
            elif k == "t":
                if ev[2] > 0:
                    self.last_armed = ev[2]
                    self.stats["timers_armed"] += 1
                else:
                    self.stats["timers_disarmed"] += 1
            elif k == "x":
                self.stats["timer_expiries"] += 1
            elif k == "w":
                self.stats["writev_calls"] += 1
            elif k == "e":
                c = self.by_fd.get(ev[1])
                if c is not None:
                    c.closing = True
        for p, txt in self.deferred:
            if p.conn.closed:
                self.sig("final", "caller-gone")
            elif p.owner is not None and p.owner.closed:
                self.sig("final", "owner-gone")
            elif p.reply is not None:
                self.v("route/owner-reply-replaced-by-error", "%s instead of %s" % (txt, json.dumps(p.reply)[:200]))
            else:
                self.v("route/error-before-deadline", "now=%d deadline=%r: %s" % (self.now, p.deadline, txt))
        self.deferred = []
        # wire bytes
        for c in self.conns.values():
            if c.wire_done:
                continue
            d = self.sim.drain(c.fd)
            c.wire += d["data"]
            if d["state"] == "closed" and not c.closed:
                self._peer_gone(c)
            if c.closed or d["state"] in ("closed", "dropped"):
                c.wire_done = True
            if c.healthy and c.slow:
                # a reader that is merely slow: what it has received so far is a prefix of what was generated for it
                if not bytes(c.expected_wire).startswith(bytes(c.wire)):
                    self.v("wire/stream-not-a-prefix-of-generated-frames", "on %s (slow reader): wire %d bytes, generated %d bytes" % (c.name, len(c.wire), len(c.expected_wire)))
                    c.healthy = False
            elif c.healthy:
                if bytes(c.wire) != bytes(c.expected_wire):
                    self.v("wire/stream-differs-from-generated-frames", "on %s: wire %d bytes, generated %d bytes" % (c.name, len(c.wire), len(c.expected_wire)))
                    c.healthy = False
            else:
                if not bytes(c.expected_wire).startswith(bytes(c.wire)) and not c.torn_reported:
                    # the one legitimate exception: the head of a frame whose send failed, and then nothing else ever
                    w, e = bytes(c.wire), bytes(c.expected_wire)
                    ok = any(w.startswith(e[:L]) and F.startswith(w[L:]) for L, F in c.failed_at)
                    if not ok:
                        c.torn_reported = True
                        self.v("wire/stream-not-a-prefix-of-generated-frames", "on %s" % c.name)
                    else:
                        self.stats["partial_frame_then_silence"] += 1

    def quiescent_checks(self, final=False):
        st = self.sim.stat()
        self.last_heap = st["heap"]
        self.stats["quiescent_points"] += 1
        if st["cap_violations"]:
            self.v("res/heap-cap-exceeded", "%d" % st["cap_violations"])
        for c in self.conns.values():
            if c.closed:
                if not c.ended and not c.may_close and self.strict_close and not c.close_reported:
                    c.close_reported = True
                    self.v("conn/healthy-connection-dropped", "%s (%s)" % (c.name, c.transport))
                continue
            if c.ended and c.accepted and not c.closed and c.healthy:
                self.v("conn/ended-connection-not-released", "%s ended by %s" % (c.name, c.ended))
            if c.ended:
                continue
            if not c.healthy:
                continue
            for p in c.pending.values():
                if getattr(p, "ambiguous", False):
                    continue
                if p.state == "sent":
                    if p.hold or self.alloc_faults:
                        continue        # under an allocation fault "at most one response" is all that is demanded
                    self.v("rpc/request-not-answered", "%s on %s: %s" % (p.method, c.name, _j(p.params)[:200]))
                    p.hold = True
                elif p.state == "forwarded":
                    due = None
                    if p.reply is not None and p.reply_trusted:
                        due = "owner replied"
                    elif p.owner is not None and p.owner.closed:
                        due = "owner gone"
                    elif p.deadline is not None and self.now >= p.deadline:
                        due = "deadline passed"
                    if due and not p.hold and not self.alloc_faults:
                        p.hold = True
                        self.v("route/no-final-answer", "%s (%s) for %s" % (due, p.method, _j(p.params)[:160]))
            for f in c.fetches.values():
                if f.state == "active":
                    self._check_replica(f, "quiescent")
        return st

    def settle(self, **kw):
        try:
            self.sim.settle(**kw)
        finally:
            pass
        self.process()
        return self.quiescent_checks()

    def step(self, **kw):
        """one batch only (no quiescence implied)"""
        r = self.sim.poll(**kw)
        self.process()
        return r

    # ------------------------------------------------------------------
    def close_all(self, how="eof"):
        for c in self.conns.values():
            if not c.closed and not c.ended:
                self.end(c, how)
        st = self.settle()
        return st

    def check_idle_baseline(self, st, what="res/idle", heap=True):
        b = self.baseline
        if st["peers"] != 0:
            self.v(what + "-peers-left", "%d" % st["peers"])
        if heap and st["heap"] != b["heap"]:
            self.v(what + "-heap-not-at-baseline", "%d vs %d" % (st["heap"], b["heap"]))
        if st["fds"]["stream"] != 0:
            self.v(what + "-stream-descriptors-left", "%r" % st["open_streams"])
        if st["fds"]["timer"] != 0:
            self.v(what + "-timer-descriptors-left", "%d: %r" % (st["fds"]["timer"], st["timers"][:3]))
        if st["regs"] != b["regs"]:
            self.v(what + "-epoll-registrations-left", "%d vs %d" % (st["regs"], b["regs"]))
        if st.get("real_fds", 0) > b.get("real_fds", 0):
            # descriptors of files the daemon opened itself (the credential file and its successors)
            self.v(what + "-file-descriptors-left", "%d vs %d at start" % (st["real_fds"], b["real_fds"]))
        self.stats["baseline_checks"] += 1

    def shutdown(self, expect_status=0):
        """SIGTERM, exit status, final accounting"""
        r = self.sim.sigterm()
        self.process_after_exit()
        if "exit" not in r:
            self.v("res/sigterm-did-not-stop-the-loop", repr(r)[:100])
            return
        if r["exit"] != expect_status:
            self.v("res/exit-status", "%r" % r["exit"])
        st = self.sim.stat()
        if st["heap"] != 0:
            self.v("res/heap-accounted-at-exit", "%d" % st["heap"])
        if st["peers"] != 0:
            self.v("res/peers-at-exit", "%d" % st["peers"])
        left = {k: v for k, v in st["fds"].items() if v}
        if left:
            self.v("res/descriptors-open-at-exit:" + "+".join(sorted(left)), "%r" % left)
        self.stats["shutdowns"] += 1

    def process_after_exit(self):
        try:
            self.process()
        except (DaemonDied, Hang):
            pass

    def finish(self):
        """-> (rc, stderr)"""
        return self.sim.finish()


METHODS = ("add", "remove", "change", "set", "call", "fetch", "unfetch", "get", "config", "info", "authenticate", "passwd")

# defaults for attributes set lazily
Conn.closing = False
Conn.idc = 0
Conn.fidc = 0
Conn.keep_log = False
Conn.wire_done = False
Conn.torn_reported = False
Conn.close_reported = False
Pending.hold = False
Pending.expiry_delivered = False
Pending.race = False
Pending.reply_trusted = True
Pending.may_refuse = False
Pending.ambiguous = False
Fetch.request = None
Fetch.opaque = False
Fetch.refs = 1


def _j(x):
    try:
        return json.dumps(x) if x is not AUTO else "<absent>"
    except (TypeError, ValueError):
        return repr(x)
