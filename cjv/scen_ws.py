"""C12: the WebSocket endpoint follows RFC 6455 and is transparent for JSON-RPC."""
import base64, json, re, struct

from . import wire
from .runner import scenario, sim_case
from .workloads import batch_policy, pick_chunks

P1002, P1007 = 1002, 1007

# (label, frame bytes builder(rng), accepted close statuses or None = "processed or any close frame")
def violations(rng, max_msg):
    m = bytes(rng.randrange(256) for _ in range(4))
    js = b'{"id":1,"method":"info"}'
    out = [
        ("unmasked-text", wire.ws_frame(1, js, mask=None), {P1002}),
        ("unmasked-ping", wire.ws_frame(9, b"x", mask=None), {P1002}),
        ("unmasked-empty", wire.ws_frame(1, b"", mask=None), {P1002}),
        ("fragmented-ping", wire.ws_frame(9, b"abc", fin=0, mask=m), {P1002}),
        ("fragmented-close", wire.ws_frame(8, struct.pack(">H", 1000), fin=0, mask=m), {P1002}),
        ("fragmented-pong", wire.ws_frame(10, b"", fin=0, mask=m), {P1002}),
        ("ping-126", wire.ws_frame(9, b"p" * 126, mask=m), {P1002}),
        ("ping-300", wire.ws_frame(9, b"p" * 300, mask=m), {P1002}),
        ("pong-126", wire.ws_frame(10, b"p" * 126, mask=m), {P1002}),
        ("close-126", wire.ws_frame(8, struct.pack(">H", 1000) + b"r" * 124, mask=m), {P1002}),
        ("ping-64bit-length-claims-%d" % (max_msg + 100), bytes([0x89, 0xff]) + struct.pack(">Q", max_msg + 100) + m + b"x" * 40, {P1002}),
        ("ping-16bit-length-claims-%d" % (max_msg + 100), bytes([0x89, 0xfe]) + struct.pack(">H", max_msg + 100) + m + b"x" * 40, {P1002}),
        ("close-1byte", wire.ws_frame(8, b"\x03", mask=m), {P1002}),
        ("close-bad-utf8", wire.ws_frame(8, struct.pack(">H", 1000) + b"\xc0\x80", mask=m), {P1007}),
        ("close-truncated-utf8", wire.ws_frame(8, struct.pack(">H", 1001) + b"ok\xe2\x82", mask=m), {P1007}),
        ("continuation-without-start", wire.ws_frame(0, b"tail", mask=m), {P1002}),
        ("new-data-frame-inside-fragmented-message", wire.ws_frame(1, b'{"id"', fin=0, mask=m) + wire.ws_frame(1, js, mask=m), None),
    ]
    # close reasons of every short length that are not UTF-8 (1 byte: stray continuation / C0 / truncated lead / F5.. / FF)
    for i, bad in enumerate([b"\x80", b"\xbf", b"\xc0", b"\xc2", b"\xe2", b"\xf4", b"\xf5", b"\xff", b"a\x80", b"\xe2\x82", b"\xed\xa0\x80",
                             b"\xf4\x90\x80\x80", b"ok\xc2", b"x" * 120 + b"\xf0\x9f\x98"]):
        out.append(("close-bad-utf8-reason-%dbytes-%d" % (len(bad), i), wire.ws_frame(8, struct.pack(">H", rng.choice([1000, 1001, 3000])) + bad, mask=m), {P1007}))
    for r in (1, 2, 3, 4, 5, 6, 7):
        out.append(("rsv-%d-text" % r, wire.ws_frame(1, js, rsv=r, mask=m), {P1002}))
    for r in (1, 4, 7):
        out.append(("rsv-%d-ping" % r, wire.ws_frame(9, b"", rsv=r, mask=m), {P1002}))
        out.append(("rsv-%d-close" % r, wire.ws_frame(8, b"", rsv=r, mask=m), {P1002}))
    for op in (3, 4, 5, 6, 7, 11, 12, 13, 14, 15):
        out.append(("reserved-opcode-%d" % op, wire.ws_frame(op, rng.choice([b"", b"x", js]), mask=m), {P1002}))
    for code in (0, 1, 999, 1004, 1005, 1006, 1012, 1013, 1014, 1015, 1016, 1100, 2000, 2999, 5000, 65535):
        out.append(("close-code-%d" % code, wire.ws_frame(8, struct.pack(">H", code) + rng.choice([b"", b"why"]), mask=m), {P1002}))
    return out


def legal_closes(rng):
    m = bytes(rng.randrange(256) for _ in range(4))
    out = [("close-empty", wire.ws_frame(8, b"", mask=m))]
    for code in (1000, 1001, 1002, 1003, 1007, 1008, 1009, 1010, 1011, 3000, 3999, 4000, 4999):
        out.append(("close-code-%d" % code, wire.ws_frame(8, struct.pack(">H", code) + rng.choice([b"", b"bye", "tschüß".encode()]), mask=m)))
    return out


def canon(o):
    """routed ids contain addresses: replace them by the order of first appearance"""
    seen = {}

    def sub(m):
        return seen.setdefault(m.group(0), "<routed-%d>" % len(seen))
    return json.loads(re.sub(r"[^\"]*_[0-9a-f]+_0x[0-9a-f]+", sub, json.dumps(o)))


def script(S, c, rng_seed):
    """a fixed JSON-RPC dialogue; returns every message the daemon sent to c, in order"""
    import random
    r = random.Random(rng_seed)
    c.keep_log = True
    S.request(c, "config", {"name": "twin"})
    S.request(c, "fetch", {"id": "t", "path": {"startsWith": "t/"}})
    S.request(c, "add", {"path": "t/1", "value": {"k": [1, 2.5, "ü", None, True]}})
    S.request(c, "add", {"path": "t/m"})
    S.settle()
    for i in range(6):
        S.request(c, "change", {"path": "t/1", "value": r.choice([i, "s%d" % i, [i], {"i": i}])})
        if r.random() < 0.5:
            S.request(c, "get", {"path": {"contains": "t"}})
    S.request(c, "set", {"path": "t/1", "value": 7})
    S.request(c, "call", {"path": "t/m", "args": [1]})
    S.request(c, "set", {"path": "t/nope", "value": 7})
    S.batch(c, [{"id": 900, "method": "info"}, {"id": 901, "method": "nosuch"}, {"method": "info"}])
    S.settle()
    for p in list(c.pending.values()):
        if p.state == "forwarded":
            S.reply(c, p, "result", payload={"done": p.method})
    S.settle()
    S.request(c, "unfetch", {"id": "t"})
    S.request(c, "remove", {"path": "t/1"})
    S.request(c, "remove", {"path": "t/m"})
    S.settle()
    return canon(c.msglog)


@scenario("ws")
def ws(case, res):
    prm = case["params"]
    mode = prm["mode"]

    def body(S, rng):
        obs = S.connect("obs", "raw")
        S.request(obs, "add", {"path": "obs/1", "value": 1})
        S.settle()
        if mode == "handshake":
            for i in range(prm.get("count", 30)):
                key = base64.b64encode(bytes(rng.randrange(256) for _ in range(16)))
                lines = [b"Host: h", rng.choice([b"Upgrade: websocket", b"upgrade: WebSocket", b"UPGRADE:   websocket  "]),
                         rng.choice([b"Connection: Upgrade", b"connection: keep-alive, Upgrade", b"Connection:upgrade"]),
                         rng.choice([b"Sec-WebSocket-Key: ", b"sec-websocket-key:", b"SEC-WEBSOCKET-KEY:  "]) + key,
                         rng.choice([b"Sec-WebSocket-Version: 13", b"sec-websocket-version:13"]),
                         b"Sec-WebSocket-Protocol: " + rng.choice([b"jet", b"jet", b"chat, jet", b"jet, chat", b"a,b , jet ,c", b" jet"])]
                # a handful of extra header lines - or so many (each one short) that the whole request is several times the size of
                # the connection's read buffer, as browsers with cookies and long agent strings send them
                nextra = rng.choice([0, 1, 2, 3, 3, 8, 14, 25])
                for k_ in range(nextra):
                    lines.append(rng.choice([b"Origin: http://x.example", b"X-Y%d: " % k_ + b"z" * rng.randrange(0, 120), b"Cookie: a=b; c=d; n%d=" % k_ + b"v" * rng.randrange(10, 90), b"Pragma: no-cache",
                                             b"User-Agent: Mozilla/5.0 (X11; Linux x86_64) AppleWebKit/537.36 (KHTML, like Gecko) Chrome/90.0 Safari/537.36", b"Accept-Language: de-DE,de;q=0.9,en;q=0.8",
                                             # unknown headers whose names only START like the ones the handshake looks at
                                             b"Sec-WebSocket-Key1: 4 @1  46546xW%0l 1 5", b"Sec-WebSocket-Key-Id: " + base64.b64encode(bytes(rng.randrange(256) for _ in range(16))),
                                             b"Sec-WebSocket-Version-Supported: 8, 7", b"Sec-WebSocket-Protocol-Hint: soap", b"Sec-WebSocket-Extensions-Policy: none",
                                             b"X-Sec-WebSocket-Key: AAAAAAAAAAAAAAAAAAAAAA==", b"Sec-WebSocket-Ke: short", b"Upgrade-Insecure-Requests: 1", b"Connection-Info: close"]))
                rng.shuffle(lines)
                if nextra >= 8 and rng.random() < 0.6:
                    # the key early, far in front of the end of the header block
                    kl = [l for l in lines if l.lower().startswith(b"sec-websocket-key")][0]
                    lines.remove(kl)
                    lines.insert(rng.randrange(0, 3), kl)
                target = rng.choice([b"/api/jet/", b"/api/jet/", b"/api/jet/x", b"/api/jet/?a=1",
                                     # absolute form (RFC 7230 5.3.2): the handler is selected by the path component
                                     b"http://127.0.0.1:11123/api/jet/", b"http://h/api/jet/?client=x"])
                data = b"GET " + target + b" HTTP/1.1\r\n" + b"\r\n".join(lines) + b"\r\n\r\n"
                c = S.connect("hs%d" % i, "ws")
                c.hs_key, c.hs_sent = key, True
                S.send_bytes(c, data, pick_chunks(rng))
                S.settle(**batch_policy(rng))
                S.stats["handshakes"] += 1
                S.sig("handshake", len(lines), target.decode())
                if c.dec.status != 101:
                    S.v("ws/valid-upgrade-not-answered-101", "%r -> %r" % (data[:300], c.dec.status))
                    continue
                if c.dec.headers.get("sec-websocket-protocol") != b"jet":
                    S.v("ws/subprotocol-not-echoed", repr(c.dec.head_raw))
                if c.dec.headers.get("connection", b"").lower() != b"upgrade":
                    S.v("ws/101-without-connection-upgrade", repr(c.dec.head_raw))
                S.request(c, "info", chunks=pick_chunks(rng))
                S.settle()
                S.end(c, "eof")
            S.settle()
            # several handshakes at the same time, their header lines arriving interleaved: each connection is answered with the
            # digest of its OWN key
            for rnd in range(prm.get("interleaved", 6)):
                group = []
                for j in range(rng.choice([2, 2, 3, 4])):
                    key = base64.b64encode(bytes(rng.randrange(256) for _ in range(16)))
                    lines = [b"Host: h", b"Upgrade: websocket", b"Connection: Upgrade", b"Sec-WebSocket-Key: " + key, b"Sec-WebSocket-Version: 13", b"Sec-WebSocket-Protocol: jet"]
                    if rng.random() < 0.6:
                        rng.shuffle(lines)
                    data = b"GET /api/jet/ HTTP/1.1\r\n" + b"\r\n".join(lines) + b"\r\n\r\n"
                    c = S.connect("il%d_%d" % (rnd, j), "ws")
                    c.hs_key, c.hs_sent = key, True
                    # cut behind complete lines (and sometimes inside one)
                    eols = [m.end() for m in re.finditer(b"\r\n", data)][:-1]
                    cuts = sorted(set(rng.sample(eols, rng.randint(1, min(4, len(eols)))) + ([rng.randrange(1, len(data))] if rng.random() < 0.3 else [])))
                    parts = [data[a:b] for a, b in zip([0] + cuts, cuts + [len(data)])]
                    group.append([c, parts])
                while any(parts for _c, parts in group):
                    c, parts = rng.choice([g for g in group if g[1]])
                    S.send_bytes(c, parts.pop(0))
                    if rng.random() < 0.7:
                        S.settle(**batch_policy(rng))
                S.settle()
                S.stats["interleaved_handshakes"] += len(group)
                S.sig("interleaved-handshakes", len(group))
                for c, _ in group:
                    if c.dec.status != 101:
                        S.v("ws/valid-upgrade-not-answered-101", "interleaved with %d others -> %r" % (len(group) - 1, c.dec.status))
                        continue
                    S.request(c, "info")
                S.settle()
                for c, _ in group:
                    S.end(c, "eof")
                S.settle()
        elif mode == "violations":
            vs = violations(rng, S.max_msg)
            part, nparts = prm.get("part", 0), prm.get("nparts", 1)
            for k, (label, frame, accept) in enumerate(vs):
                if k % nparts != part:
                    continue
                c = S.connect("v%d" % k, "ws")
                S.handshake(c)
                S.settle()
                # some legal traffic first, so that the violation arrives in a used connection at a varying buffer offset
                for _ in range(rng.randrange(0, 3)):
                    S.request(c, "info")
                c.may_close = True
                c.track_input = False
                S.send_bytes(c, frame, pick_chunks(rng))
                S.settle(**batch_policy(rng))
                S.stats["violations_sent"] += 1
                code = c.dec.close_code
                S.sig("violation", label.split("-claims")[0], code)
                if accept is None:
                    if not c.closed and code is not None:
                        S.v("ws/close-frame-but-connection-kept:" + label, "")
                else:
                    if code is None:
                        S.v("ws/violation-not-answered-with-close-frame:" + label, "closed=%s" % c.closed)
                    elif code not in accept:
                        S.v("ws/wrong-close-status:%s" % label, "got %d, expected %s" % (code, sorted(accept)))
                    if not c.closed:
                        S.v("ws/connection-usable-after-violation:" + label, "")
                if not c.closed:
                    S.end(c, "eof")
                    S.settle()
            for label, frame in legal_closes(rng):
                c = S.connect("lc%s" % label, "ws")
                S.handshake(c)
                S.settle()
                c.may_close = True
                S.send_bytes(c, frame, pick_chunks(rng))
                S.settle()
                S.sig("legal-close", label, c.dec.close_code)
                if c.dec.close_code is None:
                    S.v("ws/close-not-answered-with-close-frame:" + label, "")
                elif c.dec.close_code == 1002 or c.dec.close_code == 1007:
                    S.v("ws/legal-close-answered-as-violation:" + label, "%d" % c.dec.close_code)
                if not c.closed:
                    S.v("conn/ended-connection-not-released", label)
        elif mode == "close-reasons":
            # close reasons composed of well-formed and ill-formed UTF-8 pieces, up to the longest reason a control frame can carry,
            # at every alignment of the reason inside the connection's read buffer (set by the legal traffic in front of it);
            # the verdict is that of a strict UTF-8 decoder: ill-formed -> 1007, well-formed -> an ordinary close
            good = [b"a", b"ab", b"abcd", b"abcdefgh", b"x" * 9, b"y" * 16, "\u00e9".encode(), "\u00df\u00e4".encode(), "\u20ac".encode(), "\u4e2d\u6587".encode(),
                    "\U0001F600".encode(), "\U0010FFFF".encode(), "\u07ff".encode(), "\u0800".encode(), "\ud7ff".encode(), "\ue000".encode(), b"\x00", b"\x7f"]
            bad = [b"\x80", b"\xbf", b"\xc0\x80", b"\xc1\xbf", b"\xe0\x80\x80", b"\xe0\x9f\xbf", b"\xed\xa0\x80", b"\xed\xbf\xbf", b"\xf0\x80\x80\x80", b"\xf0\x8f\xbf\xbf",
                   b"\xf4\x90\x80\x80", b"\xf5\x80\x80\x80", b"\xf8\x88\x80\x80\x80", b"\xfe", b"\xff", b"\xc3", b"\xe2\x82", b"\xf0\x9f\x98",
                   # a lead byte, then text that is fine on its own, then the continuation bytes
                   b"\xc3" + b"a" * 4 + b"\xa9", b"\xc3" + b"a" * 8 + b"\xa9", b"\xe2" + b"b" * 8 + b"\x82\xac", b"\xe2\x82" + b"c" * 8 + b"\xac",
                   b"\xf0\x9f" + b"d" * 16 + b"\x98\x80", b"\xc3" + "\u00e9\u00e9".encode() + b"\xa9", b"\xe2\x82" + "\u00e9\u00e9\u00e9\u00e9".encode() + b"\xac"]
            for i in range(prm.get("count", 60)):
                pieces = [rng.choice(good) for _ in range(rng.randrange(0, 9))]
                illformed = rng.random() < 0.6
                if illformed:
                    pieces.insert(rng.randrange(len(pieces) + 1), rng.choice(bad))
                reason = b"".join(pieces)[:123]
                try:
                    reason.decode("utf-8", "strict")
                    wellformed = True
                except UnicodeDecodeError:
                    wellformed = False
                c = S.connect("cr%d" % i, "ws")
                S.handshake(c)
                S.settle()
                # legal traffic of varying length in front: the reason starts at a varying offset of the read buffer
                for _ in range(rng.randrange(0, 3)):
                    if rng.random() < 0.5:
                        S.request(c, "info", {"pad": "p" * rng.randrange(0, 9)})
                    else:
                        pl = b"q" * rng.randrange(0, 9)
                        c.pings.append(pl)
                        S.send_bytes(c, wire.ws_frame(9, pl, mask=bytes(rng.randrange(256) for _ in range(4))))
                    if rng.random() < 0.5:
                        S.settle()
                c.may_close = True
                c.track_input = False
                code_sent = rng.choice([1000, 1001, 3000, 4999])
                S.send_bytes(c, wire.ws_frame(8, struct.pack(">H", code_sent) + reason, mask=rng.choice([b"\x00\x00\x00\x00", bytes(rng.randrange(256) for _ in range(4))])), pick_chunks(rng))
                S.settle(**batch_policy(rng))
                S.stats["close_reasons"] += 1
                S.stats["close_reasons_wellformed" if wellformed else "close_reasons_illformed"] += 1
                code = c.dec.close_code
                S.sig("close-reason", wellformed, min(len(reason) // 8, 15), code)
                if code is None:
                    S.v("ws/close-not-answered-with-close-frame:reason-%s" % ("wellformed" if wellformed else "illformed"), "reason %r closed=%s" % (reason, c.closed))
                elif not wellformed and code != 1007:
                    S.v("ws/wrong-close-status:close-illformed-utf8-reason", "got %d, expected 1007 for reason %s" % (code, reason.hex()))
                elif wellformed and code in (1002, 1007):
                    S.v("ws/legal-close-answered-as-violation:wellformed-reason", "%d for reason %s" % (code, reason.hex()))
                if not c.closed:
                    S.v("ws/connection-usable-after-close:reason", "")
                    S.end(c, "eof")
                    S.settle()
        elif mode == "echo":
            c = S.connect("e", "ws")
            S.handshake(c)
            S.settle()
            # ping/pong with every control payload length, interleaved with data frames at varying alignments
            lens = list(range(0, 126))
            rng.shuffle(lens)
            for n in lens[:prm.get("pings", 60)]:
                pl = bytes(rng.randrange(256) for _ in range(n))
                c.pings.append(pl)
                burst = wire.ws_frame(9, pl, mask=bytes(rng.randrange(256) for _ in range(4)))
                for _ in range(rng.randrange(0, 3)):
                    S.idc += 1
                    body_ = json.dumps({"id": S.idc, "method": "info", "params": {"pad": "x" * rng.randrange(0, 40)}}).encode()
                    S._register(c, json.loads(body_))
                    c.sent_payloads.append(body_)
                    burst += wire.ws_frame(1, body_, mask=rng.choice([b"\x00\x00\x00\x00", b"\xff\xff\xff\xff", bytes(rng.randrange(256) for _ in range(4))]),
                                           lenenc=rng.choice([None, None, 16, 64]) if len(body_) < 126 else None)
                S.send_bytes(c, burst, pick_chunks(rng))
                S.stats["pings"] += 1
                S.sig("ping", n)
                if rng.random() < 0.5:
                    S.settle(**batch_policy(rng))
            S.settle()
            if c.pings:
                S.v("ws/ping-not-answered", "%d pings unanswered" % len(c.pings))
            # large server frames: 16-bit and 64-bit length encodings
            own = S.connect("own", "raw")
            for i in range(prm.get("big", 0)):
                S.request(own, "add", {"path": "big/%03d" % i, "value": "v" * 230})
                if i % 20 == 19:
                    S.settle()
            S.settle()
            S.request(c, "get", {"path": {"startsWith": "big/"}})
            S.request(c, "get", {"path": {"startsWith": "big/00"}})
            S.settle()
            S.stats["ws_server_frames"] += c.dec.frames
            S.sig("server-frames", c.dec.frames > 0, prm.get("big", 0) > 280)
            S.end(own, "eof")
            S.end(c, "eof")
            S.settle()
        else:   # transparency: the same dialogue on raw and on WebSocket, in the same (empty) daemon state
            a = S.connect("twin-raw", rng.choice(["raw", "uds"]))
            S.settle()
            base_id, base_val = S.idc, S.valc
            la = script(S, a, case["seed"])
            S.end(a, "eof")
            S.settle()
            S.idc, S.valc = base_id, base_val
            b = S.connect("twin-ws", "ws")
            S.handshake(b)
            S.settle()
            lb = script(S, b, case["seed"])
            S.stats["transparency_messages"] += len(la)
            S.sig("transparency", len(la) // 5)
            if la != lb:
                for i, (x, y) in enumerate(zip(la, lb)):
                    if x != y:
                        S.v("ws/not-transparent", "message %d: raw %s ws %s" % (i, json.dumps(x)[:200], json.dumps(y)[:200]))
                        break
                else:
                    S.v("ws/not-transparent", "raw sent %d messages, ws %d" % (len(la), len(lb)))
            S.end(b, "eof")
            S.settle()
        st = S.close_all()
        S.check_idle_baseline(st)
        S.shutdown()
        return [mode]
    sim_case(case, res, body)
