"""Per-property checks: which scenarios, how many, on which configurations."""
import time

from . import runner, scen_bus, scen_hostile, scen_rules, scen_deadline, scen_access, scen_res, scen_alloc, scen_connend, scen_http, scen_ws, scen_seg, scen_out, scen_fault  # noqa: F401 (scenario registration)
from .runner import report, run_cases, seed

CHECKS = {}


def real_kernel_lane():
    """the real-kernel lane needs a private network namespace; where that is not permitted the lane is skipped (and says so)"""
    import subprocess
    try:
        return subprocess.run(["unshare", "-n", "sh", "-c", "ip link set lo up"], stdout=subprocess.DEVNULL, stderr=subprocess.DEVNULL, timeout=20).returncode == 0
    except Exception:
        return False
LOWHEAP_IN_C07 = True


def check(pid):
    def deco(fn):
        CHECKS[pid] = fn
        return fn
    return deco


def mk(kind, _count, base, config="default", lane="asan", **params):
    return [dict(kind=kind, seed=base * 1000003 + i, config=config, lane=lane, params=params) for i in range(_count)]


def replay(rep):
    case = rep["case"]
    r = runner.run_case(case)
    if r.inconclusive:
        print("INCONCLUSIVE: %s" % r.inconclusive)
        return 2
    keys = [k for k, _ in r.viol]
    want = rep["key"].split("/", 1)[1]
    for k, d in r.viol:
        print("observed: %s\n   %s" % (k, d[:1500].replace("\n", "\n   ")))
    if want in keys:
        print("VIOLATION property=%s replay=%s (reproduced)" % (rep["property"], "-"))
        return 1
    print("not reproduced on the current tree (%d other violations)" % len(keys))
    return 0 if not keys else 1


SIM_ASSUME = [
    "the simulated kernel (simk) implements the documented edge-triggered epoll / non-blocking socket / timerfd contract; Linux behaviour outside that model is not covered",
    "the daemon is single threaded: schedules = segmentation of reads, acceptance of writes, composition and order of epoll batches, timer expiry vs socket events",
    "verdict: held on the executions listed here, not for all inputs",
]


@check("C01")
def c01(tier):
    t0 = time.time()
    s = seed()
    w = dict(add=16, remove=8, change=14, fetch=12, unfetch=6, get=3, route=4, reply=4, advance=1, connect=4, disconnect=5, misc=1)
    q = tier == "quick"
    cases = (mk("bus", 500 if q else 12000, s, "default", n_ops=70, opts=dict(weights=w))
             + mk("bus", 400 if q else 12000, s + 1, "tiny", n_ops=70, opts=dict(weights=w))
             + mk("bus", 150 if q else 6000, s + 2, "tiny", n_ops=90, opts=dict(weights=w, colliding=10))
             + mk("bus", 100 if q else 5000, s + 3, "default", n_ops=200, opts=dict(weights=w, colliding=40, n_peers=(3, 6)))
             + mk("bus", 50 if q else 3000, s + 4, "one", n_ops=70, opts=dict(weights=w))
             + mk("bus", 50 if q else 3000, s + 5, "wide", n_ops=70, opts=dict(weights=w))
             + mk("bus", 50 if q else 2000, s + 6, "default", n_ops=70, opts=dict(weights=w), local_only=True)
             # subscribers that read slowly (within the write buffer) and catch up: nothing may be lost on the way
             + mk("slowsub", 120 if q else 4000, s + 7, "default") + mk("slowsub", 60 if q else 2000, s + 8, "smallbuf")
             + mk("bus", 80 if q else 3000, s + 9, "odd", n_ops=90, opts=dict(weights=w, n_peers=(3, 6)))
             # "visible to that peer": credential file, access groups on elements, authenticated / unauthenticated subscribers,
             # fetches issued before and after the elements they match
             + mk("access", 60 if q else 2500, s + 10, "default", n_ops=60, precondition=False)
             # long histories: thousands of operations on one daemon (tables that have grown and emptied again, ids and counters far
             # from their start, memory that has been through many hands)
             + mk("bus", 12 if q else 80, s + 11, "default", n_ops=2500 if q else 6000, opts=dict(weights=w))
             + mk("bus", 8 if q else 40, s + 12, "tiny", n_ops=2500 if q else 6000, opts=dict(weights=w))
             # dense runs of occupied slots in the path index (elements far behind their home bucket) with a subscriber watching
             + mk("cluster", 24 if q else 800, s + 13, "default", cluster=(40, 2, "low")) + mk("cluster", 16 if q else 500, s + 14, "default", cluster=(48, 3, "end"))
             + mk("cluster", 8 if q else 300, s + 15, "roomy", cluster=(40, 2, "wrap")))
    # "nothing is delivered for a fetch that was refused / unfetched" also when the refusal is a failed allocation
    fres, fcases = fetch_allocfail_cases(tier, s)
    res = fres + run_cases(cases + fcases)
    return report("C01", "exploration", res,
                  "random histories (40..250 operations, and a few of 2 500 - thorough: 6 000 - operations on one daemon) of add/remove/change/fetch/unfetch/get/connect/disconnect by 2-7 peers over raw, unix and WebSocket transports, random "
                  "segmentation and epoll batching, plus subscribers whose socket takes the daemon's output slowly (short writes, would-block, refills) without ever overflowing the write buffer, plus one fetch / unfetch with allocation number n failing, for every n (the subscription must exist completely or not at all, as answered), plus histories with a credential file and access groups (visibility); every active fetch's replica (replayed add/change/remove stream) is compared with the reference model at "
                  "every quiescent point and at the fetch response; distinct = (monitor, when, size class, rule kind, transport / response class) signatures observed",
                  t0, tier, SIM_ASSUME, min_events={"replica_checks_nonempty": 1000, "note_remove": 50, "note_change": 50, "resource_refusals": 1})


@check("C02")
def c02(tier):
    t0 = time.time()
    s = seed()
    q = tier == "quick"
    cases = (mk("rpc", 700 if q else 30000, s, "default", n_ops=45) + mk("rpc", 200 if q else 10000, s + 1, "tiny", n_ops=45)
             # "every reachable daemon state" includes states in which deliveries to other peers fail
             + mk("faulty", 300 if q else 8000, s + 2, "smallbuf", n_ops=70, weights=dict(route=30, reply=12, change=25, advance=6))
             # the requester itself reads slowly: responses to its single requests and batches pile up; a refused response ends the connection
             + mk("slowreq", 60 if q else 2500, s + 3, "default") + mk("slowreq", 60 if q else 2500, s + 4, "smallbuf")
             # "exactly one response" also when the call that disarms a routed request's timer fails
             + mk("deadline-cancelfault", 60 if q else 2000, s + 5, "default"))
    res = run_cases(cases)
    return report("C02", "exploration", res,
                  "grammar-generated JSON-RPC requests (all 12 methods + unknown, params valid / missing / mistyped / hostile, ids of every JSON type incl. "
                  "fractions, >2^31, negative, long and non-ASCII strings, single and batched) sent in daemon states produced by a random bus workload; ledger: "
                  "exactly one response per string/number id on the requester's connection with an equal id and exactly one of result/error, none otherwise, "
                  "responses in request order, nothing on other connections; plus requesters that stop reading while their own single and batched requests are answered (below the write buffer's capacity nothing is lost; beyond it a response may be refused only if the connection ends - a connection that is still open and answers a fence owes every response); distinct = (method, id type, params type) and response-class signatures",
                  t0, tier, SIM_ASSUME + ["numeric ids with more than 15 significant decimal digits are not generated (the vendored JSON library prints 15 digits)"],
                  min_events={"responses": 5000, "batches": 500})


@check("C03")
def c03(tier):
    t0 = time.time()
    s = seed()
    q = tier == "quick"
    w = dict(add=10, remove=3, change=2, fetch=2, unfetch=1, get=1, route=30, reply=24, advance=6, connect=3, disconnect=5, misc=1)
    cases = (mk("bus", 500 if q else 14000, s, "default", n_ops=80, opts=dict(weights=w, hostile_owner=0.15))
             + mk("bus", 400 if q else 12000, s + 1, "tiny", n_ops=80, opts=dict(weights=w, hostile_owner=0.15))
             + mk("bus", 100 if q else 4000, s + 2, "default", n_ops=300, opts=dict(weights=dict(w, reply=6, advance=1), n_peers=(3, 5), p_settle=0.3))
             # owners / bystanders that stop reading or fail while requests are routed
             + mk("faulty", 250 if q else 8000, s + 3, "smallbuf", n_ops=70, weights=dict(route=34, reply=16, change=20, advance=6, fault=5))
             + mk("bus", 80 if q else 3000, s + 4, "odd", n_ops=120, opts=dict(weights=w, hostile_owner=0.15))
             # long histories: many hundreds of routed requests through one daemon (request counter far from its start, routing
             # tables filled and emptied many times)
             + mk("bus", 12 if q else 80, s + 5, "default", n_ops=2500 if q else 6000, opts=dict(weights=w, hostile_owner=0.1))
             + mk("bus", 6 if q else 40, s + 6, "tiny", n_ops=2500 if q else 6000, opts=dict(weights=w, hostile_owner=0.1))
             # "the owner's result or error payload unchanged if the owner answers before the deadline" - also when disarming the timer fails
             + mk("deadline-cancelfault", 60 if q else 2000, s + 7, "default")
             # "a request id unique among in-flight routed requests", "does not depend on anything a third peer does": successors of callers that left
             + mk("deadline-successor", 40 if q else 1500, s + 8, "default", reuse=True))
    res = run_cases(cases)
    return report("C03", "exploration", res,
                  "random histories (80..300 operations, and a few of 2 500 - thorough: 6 000 - operations with many hundreds of routed requests through one daemon) of set/call from several callers to several owners with owner replies (result, error, forged id, duplicated), clock advances up "
                  "to and past deadlines, connects and disconnects of all roles; routing ledger: forwarded exactly once and only to the owner with unchanged "
                  "payload and unique id, exactly one final answer (owner payload / error only when the deadline passed or the owner left / refusal only when the "
                  "in-flight limit can be in play); distinct = outcome and deadline-source signatures",
                  t0, tier, SIM_ASSUME, min_events={"forwards": 3000, "final_owner": 1000, "timer_expiries": 50, "route_refusals": 1})


@check("C04")
def c04(tier):
    t0 = time.time()
    s = seed()
    q = tier == "quick"
    w = dict(add=22, remove=10, change=14, fetch=2, unfetch=1, get=8, route=14, reply=6, advance=1, connect=2, disconnect=3, misc=1)
    cases = (mk("bus", 500 if q else 12000, s, "default", n_ops=90, opts=dict(weights=w, rich=True))
             + mk("bus", 300 if q else 10000, s + 1, "tiny", n_ops=90, opts=dict(weights=w, rich=True))
             + mk("bus", 150 if q else 6000, s + 2, "default", n_ops=220, opts=dict(weights=w, colliding=45, rich=True))
             # a dense run of occupied slots (2 paths for each of 40 consecutive home buckets): insertions have to displace entries
             + mk("cluster", 40 if q else 1500, s + 3, "default", cluster=(40, 2, "low"))
             + mk("cluster", 30 if q else 1000, s + 4, "default", cluster=(40, 2, "wrap"))
             + mk("cluster", 30 if q else 1000, s + 5, "default", cluster=(48, 3, "end")))
    # "a request that is answered with an error leaves everything as it was" also when the error is a failed allocation
    nres, ncases = ns_allocfail_cases(tier, s)
    # requests without a usable id (absent, null, bool, object, array) are not answered: their effect is read back
    cases += mk("idless", 60 if q else 3000, s + 6, "default", n_ops=30) + mk("idless", 20 if q else 1000, s + 7, "tiny", n_ops=30)
    # long histories: the same few paths added and removed thousands of times by changing owners
    cases += mk("bus", 10 if q else 80, s + 8, "default", n_ops=2500 if q else 6000, opts=dict(weights=w, rich=True)) + mk("bus", 6 if q else 40, s + 9, "tiny", n_ops=2500 if q else 6000, opts=dict(weights=w))
    res = nres + run_cases(cases + ncases)
    return report("C04", "exploration", res,
                  "random sequences (90..220 steps, and a few of 2 500 - thorough: 6 000 - steps on one daemon) of add/remove/change/set/call/get by several peers over path strings incl. empty, long, non-ASCII, hash-colliding ones and dense runs of neighbouring home buckets (fill until refused / thin out / refill, also across the end of the table) and "
                  "arbitrary JSON values; after every response the reference map predicts success/error (resource refusals only where a limit can be in play); a "
                  "fetch-all observer's replica and get results are compared with the reference map at every quiescent point; plus one add / change / remove with allocation number n failing, for every n, "
                  "read back through a fresh connection (an error answer must leave the element, its value and its kind untouched); plus add / change / remove without a usable id, read back after every step; distinct = (method, expected class, "
                  "observed class) and get/replica size signatures",
                  t0, tier, SIM_ASSUME, min_events={"get_checks": 1000, "responses": 20000})


@check("C06")
def c06(tier):
    t0 = time.time()
    s = seed()
    q = tier == "quick"
    cases = (mk("hostile", 900 if q else 40000, s, "default", n_ops=50)
             + mk("hostile", 250 if q else 10000, s + 1, "tiny", n_ops=50)
             + mk("hostile", 150 if q else 8000, s + 2, "smallbuf", n_ops=50)
             + mk("hostile", 200 if q else 8000, s + 3, "default", lane="msan", n_ops=40)
             + mk("bus", 60 if q else 2000, s + 4, "default", lane="msan", n_ops=50)
             + mk("tablefull", 40 if q else 1500, s + 5, "default", fetches=14) + mk("tablefull", 20 if q else 800, s + 6, "tiny", fetches=14)
             + mk("tablefull", 20 if q else 800, s + 7, "odd", fetches=14) + mk("tablefull", 12 if q else 400, s + 8, "default", lane="msan"))
    # every proper prefix of well-formed messages, each as the first and only message of a fresh connection
    for m in range(len(scen_hostile.PREFIX_MESSAGES)):
        for tr in ("raw", "uds", "ws"):
            for lane in ("msan", "asan"):
                for sep in ([(", ", ": ")] if q else [(", ", ": "), (",", ":"), (" ,\n", " :\t")]):
                    cases += mk("hostile-prefixes", 1, s + 9, "default", lane=lane, msg=m, transport=tr, separators=sep)
    res = run_cases(cases)
    from . import fuzzlane
    res += fuzzlane.run(tier, s)
    return report("C06", "exploration", res,
                  "hostile byte streams on all endpoints (raw, unix socket, HTTP/WebSocket): near-valid JSON-RPC with hostile member shapes/names/lengths/"
                  "duplicates, length-prefix games, mutated HTTP upgrades, the WebSocket opcode/FIN/RSV/MASK/length grid, byte-level mutations of valid sessions; "
                  "random segmentation, epoll batching and read-buffer scribbling; oracle: AddressSanitizer+UBSan+LeakSanitizer silent (gcc lane) and MemorySanitizer silent (clang lane, whole daemon instrumented), daemon stays in its loop, "
                  "and two witness connections keep being served correctly; 'tablefull' sessions: legal requests that make the fixed-size tables refuse (33+ states "
                  "in one home bucket of the path index, more fetches than the fetch table holds) followed by further use of what the refused request touched "
                  "(remove / change / re-add, get and fetch by another peer, the end of the connection); plus a coverage-guided lane (libFuzzer, clang ASan+UBSan+LSan): one input = one whole "
                  "daemon lifetime scripted on the simulated kernel (connects, raw bytes, framed messages, batches, FIN/RST, write budgets, clock steps), ended "
                  "through the loop's error exit with heap / peer / descriptor / hygiene invariants asserted (8 x 8 000 executions in quick, 16 x 400 000 in "
                  "thorough, bounded by execution count); distinct = input-shape signatures and coverage buckets",
                  t0, tier, SIM_ASSUME + ["gcc ASan/UBSan see only heap/stack/global red zones and the UB kinds they instrument"],
                  min_events={"frames_generated": 20000, "http_status_400": 100, "ws_close_1002": 100, "fuzz_executions": 50000, "table_full_refusals": 200})


def _unit(pid, modname):
    def run(tier):
        import importlib
        mod = importlib.import_module("cjv." + modname)
        return mod.main(tier)
    CHECKS[pid] = run


_unit("C18", "chk_c18")
_unit("C17", "chk_c17")
_unit("C19", "chk_c19")


@check("C16")
def c16(tier):
    t0 = time.time()
    s = seed()
    q = tier == "quick"
    cases = [dict(kind="rules", seed=s * 7919 + i, config="default", params=dict(mode="single", part=i, nparts=16)) for i in range(16)]
    cases += mk("rules", 300 if q else 6000, s + 1, "default", mode="pairs", nrules=120)
    cases += mk("rules", 24 if q else 400, s + 2, "default", mode="bad")
    cases += mk("rules", 4 if q else 40, s + 3, "tiny", mode="bad")
    cases += mk("rules", 20 if q else 400, s + 4, "odd", mode="pairs", nrules=60) + mk("rules", 4 if q else 40, s + 5, "odd", mode="bad")
    cases += mk("rules", 12 if q else 300, s + 6, "roomy", mode="pairs", nrules=60) + mk("rules", 6 if q else 60, s + 7, "roomy", mode="bad")
    res = run_cases(cases)
    return report("C16", "exploration", res,
                  "every single matcher x operand (58 adversarial strings: empty, prefixes/suffixes of each other, case variants, non-ASCII, the bytes next to the ASCII letter blocks, longer than any path, 255 / 256 / 300 bytes long) x "
                  "{no option, caseInsensitive true, false} evaluated by get/fetch against 53 paths (one of 255 bytes) (exhaustive in both tiers), "
                  "random rules of 2-6 matchers, rules of every matcher count from 2 up to the configured maximum (2, 12 and 20 in the configurations used) with the deciding matcher in first / middle / last position, ill-formed rules (unknown names incl. every near-miss of a matcher / option name: longer, shorter, other case, padded; mistyped operands, too many matchers, repeated option key); oracle: independent "
                  "Python matcher (byte-wise / ASCII case folding); refused rules must leave nothing registered; distinct = (matcher set, option) signatures",
                  t0, tier, SIM_ASSUME, extra_cov={"exhaustive": False, "single_matcher_product_exhaustive": True}, min_events={"get_checks": 300, "rule_path_evaluations": 10000})


@check("C14")
def c14(tier):
    t0 = time.time()
    s = seed()
    q = tier == "quick"
    cases = (mk("deadline-grid", 150 if q else 6000, s, "default", n=40)
             + mk("deadline-race", 300 if q else 10000, s + 1, "default", rounds=6)
             + mk("deadline-race", 150 if q else 5000, s + 2, "wide", rounds=6)
             + mk("deadline-race", 100 if q else 5000, s + 3, "tiny", rounds=6)
             + mk("deadline-race", 100 if q else 5000, s + 4, "one", rounds=6)
             + mk("deadline-grid", 40 if q else 1500, s + 5, "odd", n=40) + mk("deadline-race", 60 if q else 2500, s + 6, "odd", rounds=6)
             # late replies for callers that have gone since, while a successor connection (released memory handed out again at once
             # in half of the runs) waits for its own answers
             + mk("deadline-successor", 60 if q else 2500, s + 7, "default", reuse=True) + mk("deadline-successor", 40 if q else 1500, s + 8, "default", reuse=False)
             # the call that disarms the deadline timer fails when the reply arrives / the caller or owner leaves
             + mk("deadline-cancelfault", 80 if q else 3000, s + 9, "default") + mk("deadline-cancelfault", 20 if q else 800, s + 10, "tiny"))
    res = run_cases(cases)
    return report("C14", "exploration", res,
                  "timeout grid (absent, 0, 1e-4, 0.000999, 0.001, 0.0015, ..., 1e30, string, bool, null, negative, object) x {request, element, both, neither}: the "
                  "value handed to timerfd_settime is compared with floor(t*1e9) by precedence request > element > default; the virtual clock is stepped to "
                  "deadline-1ns (no answer allowed), to the deadline (answer due), late replies must have no effect; race batches built explicitly: expiry and "
                  "{owner reply, caller FIN/RST, owner FIN/RST} harvested in ONE epoll batch in both orders (batch sizes 1, 2, 10, 64): exactly one answer, no "
                  "sanitizer report; 'successor' histories: the owner answers requests whose caller timed out or left, while a new connection of the same kind that numbers its requests the same way waits for its own answers (with and without immediate reuse of released memory); 'cancelfault' histories: the timerfd_settime call that disarms a request's timer fails (EINVAL / EBADF / ENOMEM) when the owner's reply arrives or a party leaves - still exactly one answer, the owner's if it replied in time, nothing more when the deadline passes; distinct = (timeout types, outcome) and (race kind, order) signatures",
                  t0, tier, SIM_ASSUME, min_events={"race_batches": 200, "timer_expiries": 200, "timers_armed": 1000})


@check("C08")
def c08(tier):
    t0 = time.time()
    s = seed()
    q = tier == "quick"
    cases = []
    for i, fb in enumerate([0x00, 0xff, 0xa5, None]):
        cs = mk("access", 120 if q else 5000, s + i, "default", n_ops=50)
        for c in cs:
            c["fill_byte"] = fb if fb is not None else (c["seed"] * 37) % 256
        cases += cs
    cases += mk("access", 60 if q else 3000, s + 8, "default", lane="msan", n_ops=50)
    cases += mk("localadd", 20 if q else 400, s + 9, "localadd")
    cases += mk("localadd", 5 if q else 50, s + 10, "default")
    # 15 .. 40 sessions of ONE account at the same time (some were another account before): rights follow the answers
    cases += mk("manysessions", 40 if q else 1500, s + 11, "default") + mk("manysessions", 10 if q else 300, s + 12, "default", lane="msan")
    res = run_cases(cases)
    return report("C08", "exploration", res,
                  "generated credential files (1-6 users x group subsets of 1..32 groups, admin/readonly, SHA-512/SHA-256/MD5 hashes), elements with generated "
                  "access declarations, sequences of authenticate (right, wrong, unknown, repeated, as another user) / fetch / get / set / call / passwd on raw, "
                  "unix and WebSocket peers; reference model with groups decides visibility (replicas, get results) and set/call rights; allocator fill bytes "
                  "0x00 / 0xff / 0xa5 / seeded, heap pre-conditioning and a MemorySanitizer lane (any branch on an uninitialised group word is reported) stand in for 'every value of uninitialised memory'; all passwords are unique tokens "
                  "searched in every output byte and log line; 15..40 simultaneous sessions of one account, some of which were another account before (whether one more session is accepted is the daemon's business; every session's visibility, get, set and call rights follow the authenticate answers it got); local-only add from loopback v4/v6/mapped/unix vs remote origins; distinct = (authenticated, has "
                  "groups, transport) and origin signatures",
                  t0, tier, SIM_ASSUME + ["uninitialised memory is explored through allocator fill bytes and recycled chunks, not symbolically"],
                  min_events={"leak_scans": 100, "replica_checks": 1000, "req_authenticate": 500})


@check("C20")
def c20(tier):
    t0 = time.time()
    s = seed()
    q = tier == "quick"
    from . import chk_c20_fs
    res = list(chk_c20_fs.fs_results(tier))
    res += run_cases(mk("access", 150 if q else 6000, s + 20, "default", n_ops=60, precondition=False))
    sizes = [None, 4095, 4096, 4097, 8192, 12288, 16384]
    res += run_cases([dict(kind="credfile-size", seed=s * 131 + i, config="default", sim=False, params=dict(size=sizes[i % len(sizes)])) for i in range(21 if q else 210)])
    pres, pcases = passwd_allocfail_cases(tier, s)
    res += pres + run_cases(pcases + mk("lookalike-users", 40 if q else 1500, s + 40, "default", n=14))
    return report("C20", "fault_enumeration", res,
                  "(a) file level (authfs harness, real auth_file.c with --wrap'ed file-system calls): for generated credential files (DES/MD5/SHA-256/SHA-512, "
                  "1-6 users, up to 32 groups, below and above 4 KiB) every password change is re-run with a crash before and after each mutating file-system "
                  "call, every sampled short-write count and ENOSPC/EIO/EINTR on each call; each resulting on-disk snapshot is loaded by a fresh process "
                  "running the real loader and must accept exactly the old or exactly the new credential set; (b) daemon level: sequences of authenticate / "
                  "passwd by plain, admin, read-only and unknown users on all transports against the authorisation matrix, effectiveness judged from other "
                  "connections; (c) valid credential files of every size class incl. exact multiples of the page size must load; distinct = (user kind, hash, fault kind, crash point class, outcome) signatures",
                  t0, tier, SIM_ASSUME + ["crash model: the file holds exactly the effects of the calls completed so far, in program order; reordering of unsynced pages and directory-entry durability are not modelled"],
                  min_events={"passwd_ok": 20})


@check("C07")
def c07(tier):
    t0 = time.time()
    s = seed()
    q = tier == "quick"
    cases = (mk("reclaim", 250 if q else 8000, s, "default", mode="bus", n_ops=60)
             + mk("reclaim", 150 if q else 6000, s + 1, "tiny", mode="bus", n_ops=60)
             + mk("reclaim", 200 if q else 6000, s + 2, "default", mode="hostile", n_ops=40)
             + mk("reclaim", 200 if q else 6000, s + 3, "default", mode="inject", n_ops=50)
             + mk("reclaim", 100 if q else 3000, s + 4, "tiny", mode="inject", n_ops=50)
             + (mk("reclaim", 100 if q else 3000, s + 5, "lowheap", mode="lowheap", n_ops=120) if LOWHEAP_IN_C07 else [])
             + mk("hostile", 150 if q else 5000, s + 6, "default", n_ops=40, baseline=True)
             + mk("faulty", 150 if q else 5000, s + 9, "smallbuf", n_ops=70, weights=dict(route=30, reply=10, fault=6))
             # with a credential file: repeated logins, password changes, updates of the file that run into a full disk / an I/O
             # error (descriptors of files the daemon opened itself are part of the baseline)
             + mk("access", 80 if q else 3000, s + 12, "default", n_ops=50) + mk("passwd-filefault", 60 if q else 2000, s + 13, "default"))
    mid = mk("reclaim", 250 if q else 8000, s + 7, "default", mode="bus", n_ops=60) + mk("reclaim", 100 if q else 3000, s + 8, "default", mode="hostile", n_ops=40)
    for i, c in enumerate(mid):
        c["params"] = dict(c["params"], sigterm_mid=(c["seed"] * 7 + i) % 45)
    from .scen_res import STARTUP_CALLS
    for call, n in STARTUP_CALLS:
        for nth in range(1, n + 1):
            for local in (False, True):
                cases.append(dict(kind="startup", seed=nth, config="default", sim=True, params=dict(call=call, nth=nth, local=local)))
    real = mk("realdiff", 40 if q else 1500, s + 11, "default")
    for c in real:
        c["sim"] = False
    # every system call of a corpus of scripted sessions fails once (read, writev, accept, fcntl, setsockopt, getsockname, epoll_ctl,
    # timerfd_create, timerfd_settime; transient and permanent errnos): everything is still reclaimed, descriptor use stays hygienic
    sres, scases = sysfail_cases(tier, s)
    res = sres + run_cases(cases + mid + scases) + (run_cases(real) if real_kernel_lane() else [])
    return report("C07", "exploration", res,
                  "single system call failures enumerated over a corpus of 8 scripted sessions (the n-th read / writev / accept / fcntl / setsockopt / getsockname / epoll_ctl / timerfd_create / timerfd_settime fails once, for every n; quick: one errno per call, thorough: every errno the call may report), sessions with a credential file in which the update of that file fails (write / fsync / rename), "
                  "random bus histories, hostile sessions incl. half-open HTTP upgrades, injected failures of timerfd_create / timerfd_settime / epoll_ctl / fcntl / "
                  "setsockopt / getsockname, peers that stop reading or whose sockets fail while requests are routed to them, a 256 KiB heap cap (64 KiB above the idle daemon) reached by ordinary adds; afterwards either all connections are closed and heap / peers / "
                  "descriptors / timers / epoll registrations are compared with the idle baseline, or SIGTERM is delivered at a seeded step (exit status 0, "
                  "accounted heap 0, no descriptor open, LeakSanitizer silent); during every run: descriptor-hygiene monitor of the simulated kernel (descriptors "
                  "are never reused, so double close / use after close / foreign descriptors are always visible) and the heap-cap assertion in the allocation tap; "
                  "every start-up call (socket / setsockopt / fcntl / bind / listen / epoll_create / epoll_ctl, n-th occurrence, with and without -l) failing in turn: the daemon gives up (or carries on) with nothing left open or accounted; "
                  "plus scripts against the unwrapped daemon on the real kernel ended by a real SIGTERM (exit status 0, LeakSanitizer silent); "
                  "distinct = signatures of all monitors incl. injected (call, errno) pairs and termination states",
                  t0, tier, SIM_ASSUME, min_events={"baseline_checks": 500, "shutdowns": 800})



def ns_allocfail_cases(tier, s):
    """one add / change / remove by the owner with allocation number n failing, for every n; read back through a fresh connection"""
    q = tier == "quick"
    variants = [(op, "raw") for op in ("add", "change", "remove")] + ([] if q else [(op, "ws") for op in ("add", "change", "remove")])
    counting = [dict(kind="allocfail-ns", seed=s * 19 + i, config="default", params=dict(op=op, transport=t)) for i, (op, t) in enumerate(variants)]
    cres = run_cases(counting)
    cases = []
    for r in cres:
        for i in range(r.alloc_count or 0):
            for cnt in ((1,) if q else (1, 2, 4)):
                cases.append(dict(kind="allocfail-ns", seed=r.case["seed"], config="default", params=dict(r.case["params"], nth=i, count=cnt)))
    return cres, cases


def fetch_allocfail_cases(tier, s):
    """one fetch / unfetch with allocation number n failing, for every n: the subscription exists completely or not at all, as answered"""
    q = tier == "quick"
    variants = [(op, t, 0) for op in ("fetch", "unfetch") for t in (("raw",) if q else ("raw", "ws"))]
    # ... with 4 / 8 / 16 other subscribers in place (the new fetch makes the elements' subscriber tables grow for the first, second, third time)
    variants += [("fetch", "raw", n) for n in ((4, 8) if q else (3, 4, 7, 8, 15, 16))] + [("unfetch", "raw", 8)]
    counting = [dict(kind="allocfail-fetch", seed=s * 23 + i, config="default", params=dict(op=op, transport=t, others=n)) for i, (op, t, n) in enumerate(variants)]
    cres = run_cases(counting)
    cases = []
    for r in cres:
        for i in range(r.alloc_count or 0):
            for cnt in ((1,) if q else (1, 2, 4)):
                cases.append(dict(kind="allocfail-fetch", seed=r.case["seed"], config="default", params=dict(r.case["params"], nth=i, count=cnt)))
    return cres, cases


def passwd_allocfail_cases(tier, s):
    """one authorised password change (own account / by an admin, raw / WebSocket) with allocation number n failing, for every n"""
    q = tier == "quick"
    variants = [("self", "raw"), ("admin", "raw")] + ([] if q else [("self", "ws"), ("admin", "ws")])
    counting = [dict(kind="allocfail-passwd", seed=s * 17 + i, config="default", params=dict(who=w, transport=t)) for i, (w, t) in enumerate(variants)]
    cres = run_cases(counting)
    cases = []
    for r in cres:
        n = r.alloc_count or 0
        for i in range(n):
            for cnt in ((1,) if q else (1, 2, 4)):
                cases.append(dict(kind="allocfail-passwd", seed=r.case["seed"], config="default", params=dict(r.case["params"], nth=i, count=cnt)))
    return cres, cases


def sysfail_cases(tier, s, scripts=None, every=1):
    """one scripted session with the n-th call of one system call failing once, for every call kind, every n and (thorough) every errno
    that call may report; quick: one errno per (call, n), chosen by the seed"""
    from .scen_alloc import SCRIPTS, SYSCALLS
    q = tier == "quick"
    names = sorted(scripts or SCRIPTS)
    cres = run_cases([dict(kind="sysfail", seed=1, config="default", params=dict(script=n)) for n in names])
    cases = []
    for r in cres:
        for call, n in sorted((r.call_counts or {}).items()):
            for i in range(1, n + 1):
                if (i + s) % every:
                    continue
                ens = SYSCALLS[call]
                for en in ([ens[(i + s) % len(ens)]] if q else ens):
                    cases.append(dict(kind="sysfail", seed=i, config="default", params=dict(script=r.case["params"]["script"], call=call, nth=i, errno=en)))
    return cres, cases


@check("C15")
def c15(tier):
    t0 = time.time()
    s = seed()
    q = tier == "quick"
    from .scen_alloc import SCRIPTS
    counting = [dict(kind="allocfail", seed=1, config="default", params=dict(script=n)) for n in sorted(SCRIPTS)]
    cres = run_cases(counting)
    cases = []
    total = 0
    for r in cres:
        n = r.alloc_count or 0
        total += n
        step = 2 if q else 1
        off = s % step
        for i in range(off, n, step):
            for site in ((None,) if q else (0, 1)):
                prm_ = dict(script=r.case["params"]["script"], nth=i)
                if site is not None:
                    prm_["site"] = site
                cases.append(dict(kind="allocfail", seed=i, config="default", params=prm_))
    import random
    rng = random.Random(s)
    for r in cres:      # random double faults
        n = r.alloc_count or 0
        for _ in range(30 if q else 600):
            cases.append(dict(kind="allocfail", seed=rng.randrange(1 << 30), config="default",
                              params=dict(script=r.case["params"]["script"], nth=rng.randrange(max(n, 1)), count=rng.choice([2, 2, 3, 5]))))
    cases += mk("reclaim", 60 if q else 2000, s + 30, "lowheap", mode="lowheap", n_ops=120)
    # "keeps serving all connections": an allocation of one connection's set-up fails while more connections are pending on the listener
    cases += mk("acceptburst", 40 if q else 1200, s + 31, "default", alloc=True, rounds=3) + mk("acceptburst", 10 if q else 300, s + 32, "one", alloc=True, rounds=3)
    pres, pcases = passwd_allocfail_cases(tier, s)
    nres, ncases = ns_allocfail_cases(tier, s)
    fres, fcases = fetch_allocfail_cases(tier, s)
    res = cres + pres + nres + fres + run_cases(cases + pcases + ncases + fcases)
    return report("C15", "fault_enumeration", res,
                  "corpus of 8 scripted sessions (every request type, raw/unix/WebSocket handshakes, routed requests answered / timed out / orphaned by caller and "
                  "owner disconnects, fetch table growth, failed HTTP upgrades, fragmented and close frames); a clean run counts the N allocations of the script "
                  "(cjet_malloc/cjet_calloc incl. cJSON), then allocation number n fails for every n in 0..N-1 (thorough; every 2nd, offset by the seed, in quick) "
                  "plus random 2-5 consecutive failures, plus an authorised password change (credential file in place) with every allocation failing once: answer, accepted credentials and file must agree (old XOR new), an add / change / remove with every allocation failing once: a fresh connection must read back what the answer said (refused = exactly as before), a fetch / unfetch with every allocation failing once: the subscription exists completely or not at all, as answered, plus bus histories under a 256 KiB heap cap that ordinary adds reach; oracle: sanitizers, at most one response per request, only the connection whose processing hit the "
                  "failure may be dropped, a fresh connection is served normally afterwards, idle baseline after closing, clean SIGTERM exit with LeakSanitizer; "
                  "distinct = (script, transport of the victim) signatures; allocations counted: %d" % total,
                  t0, tier, SIM_ASSUME + ["allocations through cjet_malloc/cjet_calloc (incl. cJSON hooks) are failed, either by the accounting allocator refusing or by the C library returning NULL inside it; zlib/websocket plain malloc is not used by the daemon's enabled features"],
                  extra_cov={"allocations_in_corpus": total, "exhaustive": not q}, min_events={"faults_fired": 100, "probes": 100})


@check("C05")
def c05(tier):
    t0 = time.time()
    s = seed()
    q = tier == "quick"
    from .scen_connend import CELLS
    n = len(CELLS)
    cases = []
    if q:
        import random
        rng = random.Random(s)
        for i in range(n):
            cases.append(dict(kind="connend", seed=s * 1000003 + i, config=rng.choice(["default", "default", "tiny", "one"]), params=dict(cell=i)))
    else:
        for rep in range(8):
            for i in range(n):
                cases.append(dict(kind="connend", seed=(s + rep) * 1000003 + i, config=["default", "tiny", "one", "wide"][rep % 4], params=dict(cell=i)))
    w = dict(add=12, remove=4, change=8, fetch=8, unfetch=3, get=2, route=14, reply=8, advance=2, connect=6, disconnect=14, misc=1)
    cases += mk("bus", 150 if q else 5000, s + 50, "default", n_ops=80, opts=dict(weights=w))
    # "its own in-flight requests are dropped ... nothing is looked up through it": callers leave with requests in flight, successors
    # of the same kind (their memory, their numbering) wait for answers while the owner answers the predecessors' requests
    cases += mk("deadline-successor", 60 if q else 2000, s + 51, "default", reuse=True) + mk("deadline-successor", 20 if q else 800, s + 52, "default", reuse=False)
    res = run_cases(cases)
    return report("C05", "exploration", res,
                  "the product {raw, unix, WebSocket} x role {idle, owner, subscriber, caller, owner of in-flight requests, both, unsent buffered output, everything, refused requests incl. an add the path index had no room for} x "
                  "phase {between messages, mid length prefix, mid message, after zero length / mid request line, mid headers, after 101, mid frame header, mid "
                  "payload, mid fragmented message} x ending {FIN, RST, oversize length, bad JSON, non-object, stray response / close frames 1000, 1001, 999, "
                  "1-byte, bad UTF-8, unmasked, RSV, reserved opcode} (%d cells; all of them once in quick, x 8 kernel policies in thorough) plus "
                  "disconnect-heavy random histories; monitors: the victim is released, its elements vanish from every replica, requests routed to it are answered "
                  "with an error, nothing is generated for it afterwards, descriptor hygiene, a third party's in-flight request and replicas survive, idle "
                  "baseline afterwards; distinct = cells exercised" % n,
                  t0, tier, SIM_ASSUME, extra_cov={"cells_total": n, "exhaustive": True}, min_events={"conn_closed_by_daemon": 1000})


@check("C13")
def c13(tier):
    t0 = time.time()
    s = seed()
    q = tier == "quick"
    from .scen_http import templates
    cases = mk("http", 6 if q else 60, s, "default", mode="templates")
    names = sorted(templates())
    for ti, tn in enumerate(names):
        for part in range(8):
            cases.append(dict(kind="http", seed=s * 7919 + ti * 100 + part, config="default", params=dict(mode="truncate", template=tn, part=part, nparts=8)))
            for rep in range(2 if q else 12):
                cases.append(dict(kind="http", seed=s * 7919 + ti * 100 + part + 1000 * (rep + 1), config="default",
                                  params=dict(mode="corrupt", template=tn, part=part, nparts=8)))
    cases += mk("http", 300 if q else 6000, s + 1, "default", mode="mutate", count=60)
    cases += mk("http", 60 if q else 1000, s + 2, "smallbuf", mode="mutate", count=60)
    cases += mk("http", 40 if q else 1000, s + 3, "default", lane="msan", mode="mutate", count=60)
    cases += mk("http", 2 if q else 20, s + 4, "default", lane="msan", mode="templates")
    for tn in names:
        cases += mk("http", 3 if q else 60, s + 5 + names.index(tn), "default", mode="shutdown-midway", template=tn, conns=9)
    # bursts: more connections pending on the listener than one round of the event loop handles
    cases += mk("http", 24 if q else 600, s + 20, "default", mode="burst") + mk("http", 8 if q else 200, s + 21, "one", mode="burst") + mk("http", 8 if q else 200, s + 22, "wide", mode="burst")
    # "leaves no memory behind" also when the daemon runs out of memory half-way through such an exchange: every allocation of a
    # session that consists of refused exchanges only fails once
    cres = run_cases([dict(kind="allocfail", seed=1, config="default", params=dict(script="http-refused"))])
    nalloc = cres[0].alloc_count or 0
    for i in range(nalloc):
        cases.append(dict(kind="allocfail", seed=i, config="default", params=dict(script="http-refused", nth=i)))
        if not q:
            cases.append(dict(kind="allocfail", seed=i, config="default", params=dict(script="http-refused", nth=i, count=3)))
    res = cres + run_cases(cases)
    return report("C13", "exploration", res,
                  "valid upgrade templates (header order/case/extra headers/several protocol tokens/target suffix) must be answered 101 with the right digest and "
                  "the jet subprotocol; requests invalid by construction (wrong path/method/version, missing or wrong Upgrade/Connection/key/version 13/"
                  "subprotocol, malformed or over-long lines, ...) must never be answered 101 and must get an HTTP error status or a close; every template "
                  "truncated at EVERY byte then FIN/RST, corrupted at EVERY position (one byte, seeded value), random multi-byte mutations; after each exchange "
                  "the connection must be released; at the end peer count, heap, descriptors, registrations are compared with the baseline and SIGTERM must "
                  "exit cleanly under ASan/LSan; SIGTERM with connections open in every stage of an exchange (nothing sent, inside the request line, request line accepted, inside the headers, upgraded); bursts of 9..64 connections that become pending on the listener between two wake-ups of the daemon, each exchange judged like a single one; plus a session of refused exchanges in which allocation number n fails, for every n; distinct = (class, label, status, closed) signatures",
                  t0, tier, SIM_ASSUME, min_events={"exchanges": 2000, "truncation_points": 300, "corruption_points": 300})


@check("C12")
def c12(tier):
    t0 = time.time()
    s = seed()
    q = tier == "quick"
    cases = mk("ws", 60 if q else 1000, s, "default", mode="handshake", count=30)
    for rep in range(12 if q else 120):
        for part in range(8):
            cases.append(dict(kind="ws", seed=(s + rep) * 7919 + part, config=["default", "smallbuf", "default"][rep % 3], params=dict(mode="violations", part=part, nparts=8)))
    cases += mk("ws", 150 if q else 3000, s + 1, "default", mode="echo", pings=60, big=0)
    cases += mk("ws", 4 if q else 40, s + 2, "default", mode="echo", pings=10, big=300)
    cases += mk("ws", 40 if q else 800, s + 3, "smallbuf", mode="echo", pings=60, big=0)
    cases += mk("ws", 200 if q else 4000, s + 4, "default", mode="transparency")
    cases += mk("ws", 40 if q else 1500, s + 5, "default", mode="close-reasons", count=60) + mk("ws", 10 if q else 300, s + 6, "smallbuf", mode="close-reasons", count=60)
    cases += mk("hostile", 250 if q else 6000, s + 5, "default", n_ops=40)
    for part in range(8):
        cases.append(dict(kind="ws", seed=s * 7919 + 500 + part, config="default", lane="msan", params=dict(mode="violations", part=part, nparts=8)))
    cases += mk("ws", 30 if q else 600, s + 6, "default", lane="msan", mode="echo", pings=40, big=0)
    res = run_cases(cases)
    return report("C12", "exploration", res,
                  "handshakes with shuffled header order / case / whitespace / extra headers / several protocol tokens / target suffixes and random keys (101, accept "
                  "digest recomputed with SHA-1+base64 in Python, jet echoed); every server frame decoded strictly (unmasked, FIN, minimal length encoding incl. "
                  "16- and 64-bit lengths, nothing after close); pings of every payload length 0..125 interleaved with data frames under all-zero / all-one / "
                  "random masks and forced length encodings (pong must carry the identical payload; the payload handed to the JSON layer must equal the unmasked "
                  "payload); the listed protocol violations (unmasked, RSV 1-7, reserved opcodes, fragmented / oversized control frames incl. lengths beyond the "
                  "read buffer, invalid close codes, 1-byte and ill-formed UTF-8 close payloads) must be answered with a close frame of the matching status and "
                  "end the connection; legal close codes get a normal close; close reasons composed of well-formed and ill-formed UTF-8 pieces (up to 123 bytes, incl. a lead byte whose continuation bytes follow behind 4..16 bytes of plain text) at varying read-buffer alignments, judged by a strict UTF-8 decoder (1007 exactly for the ill-formed ones); the same JSON-RPC dialogue on raw and WebSocket transports must produce the same "
                  "messages; plus the WebSocket frame grid of the hostile workload under ASan; distinct = handshake / violation / ping-length / transparency signatures",
                  t0, tier, SIM_ASSUME, min_events={"handshakes": 300, "violations_sent": 100, "pings": 1000, "transparency_messages": 500})


@check("C09")
def c09(tier):
    t0 = time.time()
    s = seed()
    q = tier == "quick"
    cases = (mk("segdiff", 250 if q else 6000, s, "default", variants=6 if q else 16)
             + mk("segdiff", 100 if q else 3000, s + 1, "smallbuf", variants=6 if q else 16)
             + mk("segdiff", 50 if q else 1500, s + 2, "one", variants=6 if q else 16))
    for c in cases:
        c["sim"] = True
    res = run_cases(cases)
    # the message-content tap of the bus workload: what the JSON layer is handed must be exactly the k-th message sent
    res += run_cases(mk("bus", 150 if q else 4000, s + 3, "default", n_ops=60, opts=dict(weights=dict(readfault=3))) + mk("hostile", 100 if q else 3000, s + 4, "default", n_ops=40))
    # fidelity anchor: the simulated reference run of a script vs the same script against the real daemon on the real kernel
    real = mk("realdiff", 80 if q else 2500, s + 5, "default") + mk("realdiff", 40 if q else 1200, s + 6, "smallbuf")
    for c in real:
        c["sim"] = False
    have_real = real_kernel_lane()
    if have_real:
        res += run_cases(real)
    return report("C09", "exploration", res,
                  "differential: a generated multi-connection script (raw / unix / WebSocket; requests of all kinds, batches, routed requests with owner replies, "
                  "zero-length frames, messages ending at the buffer end, truncated JSON followed by its continuation, trailing bytes inside the declared "
                  "length, lengths above the maximum) is executed once as reference (one whole unit per wake-up) and under 6 (quick) / 16 (thorough) kernel "
                  "policies: 1..7-byte and random chunks, polls between chunks, prefixes of the next unit coalesced into the same read, batch size 1 / "
                  "shuffled batches, spurious wake-ups, 'readable' and 'writable again' of one connection grouped into one readiness event (a connection whose "
                  "output was parked reads again and at the same moment sends an unanswered unit) vs reported as two, and the read buffer behind the received bytes scribbled with 0x00 / } / quote / ]}-tails / 0xff / "
                  "digits / random; the decoded output of every connection must be identical; plus the parse_message tap (content handed to the JSON layer "
                  "== k-th message sent) over bus and hostile workloads; fidelity anchor: the reference run on the simulated kernel is compared with the same "
                  "script against the unwrapped daemon on the real Linux kernel in its own network namespace (fenced, no sleeps): identical decoded output per "
                  "connection is what justifies trusting the simulated kernel; distinct = (policy, size class, transports) signatures",
                  t0, tier, SIM_ASSUME + ["cross-connection output order is not compared; message completions keep the reference's global order (the property's side condition)"],
                  extra_cov={"real_kernel_lane": "run" if have_real else "unavailable in this environment (unshare -n not permitted): skipped"},
                  min_events=dict({"variant_runs": 1000, "variants_identical": 1, "messages_parsed": 5000, "readable_and_writable_in_one_event": 50}, **({"traces_validated_against_real_kernel": 50} if have_real else {})))


def _out_combos(rng, wbuf, n, dense=None):
    combos = []
    for i in range(n):
        if dense is not None:
            b0 = dense[i % len(dense)]
        else:
            b0 = rng.choice([0, 1, 2, 3, 4, 5, 6, 7, 60, 65, 66, 67, 70, wbuf - 1, wbuf, wbuf + 1, rng.randrange(0, 2 * wbuf)])
        cap = rng.choice([-1, -1, -1, 1, 2, 3, 7, 64])
        k = rng.choice([1, 1, 2, 3, 5])
        sizes = [rng.choice([0, 1, 10, wbuf // 4, wbuf // 2, wbuf - 70, wbuf - 66, wbuf - 60, wbuf, wbuf + 5, 2 * wbuf, 3 * wbuf]) for _ in range(k)]
        cont = rng.choice(["one", "two", "frame-1", "small", "inf", "inf", "error", "transient"] if i == n - 1 else ["one", "two", "frame-1", "small", "inf", "inf", "transient"])
        combos.append((b0, cap, sizes, cont, rng.random() < 0.4))
    return combos


@check("C10")
def c10(tier):
    t0 = time.time()
    s = seed()
    q = tier == "quick"
    import random
    rng = random.Random(s)
    cases = []
    from . import build as _b
    for cfg, cnt in (("smallbuf", 900 if q else 12000), ("default", 400 if q else 6000)):
        wbuf = int(_b.cfg_of(cfg)["CONFIG_MAX_WRITE_BUFFER_SIZE"])
        for i in range(cnt):
            cases.append(dict(kind="outbound", seed=rng.randrange(1 << 30), config=cfg, params=dict(combos=_out_combos(rng, wbuf, 8))))
    # dense part: acceptance point at EVERY byte position of the first two frames (smallbuf)
    wbuf = int(_b.cfg_of("smallbuf")["CONFIG_MAX_WRITE_BUFFER_SIZE"])
    for size in ([10, wbuf - 66] if q else [0, 1, 10, 64, 128, wbuf - 70, wbuf - 66, wbuf - 60, wbuf, 2 * wbuf]):
        for transport in ("raw", "ws"):
            total = 2 * (size + 70)
            for chunk in range(0, total, 16):
                dense = list(range(chunk, min(chunk + 16, total)))
                combos = [(b, -1, [size, size], rng.choice(["one", "two", "small", "inf"]), False) for b in dense]
                cases.append(dict(kind="outbound", seed=rng.randrange(1 << 30), config="smallbuf", params=dict(combos=combos, transport=transport)))
    res = run_cases(cases)
    return report("C10", "fault_enumeration", res,
                  "a subscriber connection receives notification frames of controlled sizes (0 .. 3x the write buffer) while the simulated kernel accepts only a "
                  "budget of b bytes (then EAGAIN), caps every writev (short writes that end inside the length prefix / WebSocket header / payload / pending "
                  "buffer), later becomes writable again by 1, 2, 3, 5, frame-1 or all bytes, or fails hard; for the 256-byte-buffer configuration the acceptance "
                  "point is enumerated at EVERY byte position of two consecutive frames; ground truth = every frame the daemon generated with the return code "
                  "of its send call (tap on the buffered socket); oracle: bytes accepted by the kernel == concatenation of the successfully sent frames (equality "
                  "once writable again, prefix while blocked or closed), failed frames contribute nothing, no more than 3 consecutive EAGAINs per descriptor, the "
                  "daemon always returns to epoll_wait; distinct = (budget class, cap, size classes, continuation, incoming traffic) signatures",
                  t0, tier, SIM_ASSUME, min_events={"policies": 1000, "eagain_results": 500, "short_writes": 200})


@check("C11")
def c11(tier):
    t0 = time.time()
    s = seed()
    q = tier == "quick"
    cases = (mk("faulty", 500 if q else 12000, s, "smallbuf", n_ops=70)
             + mk("faulty", 250 if q else 8000, s + 1, "default", n_ops=70)
             + mk("faulty", 150 if q else 4000, s + 2, "tiny", n_ops=70)
             + mk("bystander", 60 if q else 1500, s + 3, "default") + mk("bystander", 40 if q else 1000, s + 4, "smallbuf")
             + mk("bystander", 20 if q else 500, s + 5, "odd")
             # "keeps accepting and serving connections": bursts of pending connections (some already gone again) on one listener
             + mk("acceptburst", 30 if q else 800, s + 6, "default") + mk("acceptburst", 10 if q else 300, s + 7, "one") + mk("acceptburst", 10 if q else 300, s + 8, "wide"))
    # every system call of the scripted corpus fails once: only connections involved in the failing call may be lost
    sres, scases = sysfail_cases(tier, s + 3, every=1 if not q else 2)
    res = sres + run_cases(cases + scases)
    return report("C11", "fault_enumeration", res,
                  "random bus histories in which a growing subset of peers is made faulty at seeded moments: stops reading (write budget 0/1/5/70 bytes, 1-byte "
                  "write cap), hard write errors (EPIPE, ECONNRESET, ENOBUFS), RST without waiting, garbage input; accept() failing with ECONNABORTED / EMFILE / "
                  "ENFILE / ENOBUFS / ENOMEM / EINTR / EPROTO followed by a fresh connection that must be served; the faulty peers sit at seeded positions of the "
                  "subscriber tables; all replica / RPC / routing monitors stay armed for the healthy peers (errors that report a failed delivery are tolerated, "
                  "their effect is read back through a healthy connection and every healthy replica must agree with it); the 256-byte write buffer "
                  "configuration makes buffers overflow within a few notifications; 'bystander' histories: a healthy subscriber with parked output reads "
                  "again directly after another connection ended inside its own readiness event (garbage, over-long length prefix, end of stream, RST) or "
                  "another peer's routed request ran into its deadline, nothing else becoming readable in between - its byte stream must then be complete; 'acceptburst' histories: 9..40 connections become pending on one listener between two wake-ups, some reset or closed again before the daemon looks, all others must be accepted and served; single system call failures enumerated over a corpus of 8 scripted sessions (the n-th read / writev / accept / fcntl / setsockopt / getsockname / epoll_ctl / timerfd_create / timerfd_settime fails once, for every n): only connections involved in the failing call may be dropped, a fresh connection is served afterwards; "
                  "distinct = (fault kind, transport, role) signatures",
                  t0, tier, SIM_ASSUME, min_events={"faults": 1000, "accept_faults": 100, "replica_checks_nonempty": 10000, "frames_refused": 100,
                                                    "bystander_rounds": 500})
