"""Scenarios for C02 (JSON-RPC ledger under every message shape) and C06 (no crash on any input)."""
import json

from . import hostile, model, wire
from .engine import AUTO
from .runner import scenario, sim_case
from .workloads import Bus, batch_policy, pick_chunks


def fresh_id(S, rng):
    """an id never used before in this session, of a random JSON scalar shape"""
    S.idc += 1
    n = S.idc
    r = rng.random()
    if r < 0.25:
        return n
    if r < 0.5:
        return rng.choice(["i%d", "", "ü%d", "id-" + "z" * 90 + "%d", "%d"]).replace("%d", str(n)) if rng.random() < 0.9 else "%d" % n
    if r < 0.6:
        return -n
    if r < 0.7:
        return n + 0.5
    if r < 0.78:
        return 2147483647 + n
    if r < 0.86:
        return 1e10 + n
    if r < 0.92:
        return float("%de-7" % n)          # at most 15 significant digits: survives the 15-digit printing of the JSON library
    if r < 0.96:
        return 900719925474099 - 2 * n     # 15 digits
    return -2147483649 - n


@scenario("rpc")
def rpc(case, res):
    prm = case.get("params", {})

    def body(S, rng):
        b = Bus(S, rng, dict(hostile_owner=0.0, id_less=0.1, per_conn_ids=False, odd_ids=False))     # (the request generator numbers its ids itself)
        b.start()
        b.run(prm.get("warmup", 12))
        used_empty = set()
        for step in range(prm.get("n_ops", 40)):
            al = b.alive()
            if not al:
                b.new_peer()
                b.settle()
                continue
            c = rng.choice(al)
            r = rng.random()
            if r < 0.25:
                getattr(b, "op_" + rng.choice(["add", "change", "route", "reply", "reply", "fetch", "remove"]))()
            else:
                fids = [f.fid for f in c.fetches.values() if f.state == "active"]

                def one():
                    m = rng.choice(hostile.METHODS + hostile.METHODS + ["", "nosuch", "ADD"])
                    msg = {}
                    r2 = rng.random()
                    if r2 < 0.78:
                        i = fresh_id(S, rng)
                        if i == "" and c.name in used_empty:
                            i = "e%d" % S.idc
                        if i == "":
                            used_empty.add(c.name)
                        msg["id"] = i
                    elif r2 < 0.88:
                        msg["id"] = rng.choice(hostile.NON_IDS)
                    if rng.random() < 0.96:
                        msg["method"] = m if rng.random() < 0.95 else rng.choice([1, None, {}, []])
                    if rng.random() < 0.93:
                        msg["params"] = hostile.params_for(rng, m, b.paths, fids)
                    return msg
                if r < 0.45:
                    msgs = [one() for _ in range(rng.randrange(0, 5))]
                    if rng.random() < 0.15:
                        msgs.insert(rng.randrange(len(msgs) + 1), rng.choice([1, None, "s", []]))
                        c.may_close = True
                    b.note("batch", c.name, msgs)
                    S.batch(c, msgs, chunks=pick_chunks(rng), hostile=True)
                    S.sig("batch", min(len(msgs), 3))
                elif r < 0.5 and r >= 0.47 and c.alive() and not c.pending:
                    # a batch whose LAST element is no request object at all, behind requests that are fine: "processed in order as
                    # if sent one by one" - the requests in front are carried out and answered before the malformed element costs
                    # the connection (if it does)
                    self_settle = b.settle
                    self_settle()
                    if not c.alive() or c.pending:
                        continue
                    S.idc += 2
                    good = [{"id": S.idc - 1, "method": "info"}, {"id": "b%d" % S.idc, "method": rng.choice(["nosuch", "info", "get"]), "params": {}}]
                    bad = rng.choice([42, "x", None, [1], True, 1.5])
                    ps = [S._register(c, dict(m), True) for m in good]
                    c.may_close = True
                    b.note("batch-ending-in-a-non-object", c.name, bad)
                    if c.track_input:
                        c.sent_payloads.append(json.dumps(good + [bad]).encode())
                    S.send_bytes(c, S.frame_for(c, json.dumps(good + [bad]).encode()), pick_chunks(rng))
                    self_settle()
                    S.sig("batch-ending-in-a-non-object", type(bad).__name__, c.closed)
                    S.stats["batches_ending_in_a_non_object"] += 1
                    if any(p.state == "sent" for p in ps):
                        S.v("rpc/batch-elements-in-front-of-a-malformed-one-not-answered", "%d of %d on %s (%s), last element %r, connection %s" %
                            (sum(p.state == "sent" for p in ps), len(ps), c.name, c.transport, bad, "closed" if c.closed else "open"))
                elif r < 0.53 and r >= 0.5:
                    # a rule object with repeated member names (legal JSON): more matchers than the daemon accepts, or just many
                    names = [rng.choice(["equals", "equalsNot", "startsWith", "endsWith", "contains", "containsAllOf"]) for _ in range(rng.choice([7, 12, 13, 14, 20]))]
                    rule = "{" + ",".join('"%s":%s' % (m, '["a","b"]' if m == "containsAllOf" else '"a"') for m in names) + "}"
                    meth = rng.choice(["get", "fetch"])
                    S.idc += 1
                    rid = rng.choice([S.idc, "r%d" % S.idc, None])
                    fid = "F%d" % S.idc
                    head = "" if rid is None else '"id":%s,' % json.dumps(rid)
                    params = '{"id":"%s","path":%s}' % (fid, rule) if meth == "fetch" else '{"path":%s}' % rule
                    txt = '{%s"method":"%s","params":%s}' % (head, meth, params)
                    shadow = {"method": meth, "params": {"path": {m: (["a", "b"] if m == "containsAllOf" else "a") for m in names}}}
                    if rid is not None:
                        shadow["id"] = rid
                    if meth == "fetch":
                        shadow["params"]["id"] = fid
                    if rng.random() < 0.3:
                        txt = "[" + txt + ',{"id":%d,"method":"info"}]' % (S.idc + 500000)
                        S._register(c, shadow, True)
                        S._register(c, {"id": S.idc + 500000, "method": "info"}, True)
                    else:
                        S._register(c, shadow, True)
                    b.note("repeated-members", c.name, txt[:200])
                    S.send_payload(c, txt.encode(), chunks=pick_chunks(rng))
                    S.sig("repeated-members", meth, len(names) > 12, rid is None)
                elif r < 0.5:
                    # an incoming response object that answers nothing
                    m = {"id": rng.choice(["nobody", 5, None, "x_1_0x1"]), rng.choice(["result", "error"]): hostile.rnd_json(rng)}
                    if rng.random() < 0.3:
                        del m["id"]
                    b.note("stray-response", c.name, m)
                    c.may_close = True
                    S.send_payload(c, json.dumps(m).encode(), chunks=pick_chunks(rng))
                    S.sig("stray-response", type(m.get("id")).__name__)
                else:
                    msg = one()
                    b.note("request", c.name, msg)
                    S._register(c, msg, True)
                    S.send_payload(c, json.dumps(msg, ensure_ascii=rng.random() < 0.5).encode(), chunks=pick_chunks(rng))
                    S.sig("req", str(msg.get("method"))[:8], type(msg.get("id")).__name__, type(msg.get("params")).__name__)
            if rng.random() < 0.6:
                b.settle()
        b.settle()
        # owners answer what is still in flight so that every routed request reaches its final answer
        for _ in range(3):
            for p in b.forwarded():
                S.reply(p.owner, p, rng.choice(["result", "error"]))
            b.settle()
        # whatever was asked, with or without id: once everybody is gone the daemon holds what it held before
        st = S.close_all()
        S.check_idle_baseline(st)
        S.shutdown()
        return S.ops[:25]
    sim_case(case, res, body)


_LB = {}


def _last_bucket_paths(order, n=3, prefix="e"):
    k = (order, n, prefix)
    if k not in _LB:
        _LB[k] = model.colliding_paths(order, n, prefix=prefix, bucket=(1 << order) - 1)
    return _LB[k]


class Witness:
    """two healthy connections running a fixed dialogue in their own namespace w/..."""

    def __init__(self, S, rng):
        self.S, self.rng = S, rng
        self.w1 = S.connect("w1", "raw")
        self.w2 = S.connect("w2", "ws")
        S.handshake(self.w2)
        S.request(self.w1, "add", {"path": "w/1", "value": S.next_val(self.w1)})
        S.request(self.w1, "add", {"path": "w/m"})
        # two states whose home bucket is the LAST one of the path index (the second lives behind the wrap-around)
        eo = int(S.cfg.get("CONFIG_ELEMENT_TABLE_ORDER", 13))
        self.wrap = _last_bucket_paths(eo, 2, "w/e")
        for pth in self.wrap:
            S.request(self.w1, "add", {"path": pth, "value": S.next_val(self.w1)})
        S.request(self.w2, "fetch", {"id": "wf", "path": {"startsWith": "w/"}})
        S.request(self.w1, "fetch", {"id": "wg", "path": {"startsWith": "w/", "endsWith": "1"}})
        # rules whose operand is (much) longer than every path that exists: they match nothing and must not look outside the paths
        for ci in (True, False):
            for m in ("equals", "equalsNot", "startsWith", "endsWith", "contains", "containsAllOf"):
                op = "W/" + "Z" * min(rng.choice([9, 17, 40, 120]), max(S.max_msg // 2 - 60, 9))      # (the request stays below the message limit)
                S.request(self.w2 if ci else self.w1, "get", {"path": {m: [op, "w"] if m == "containsAllOf" else op, "caseInsensitive": ci}})
        self.n = 0

    def tick(self):
        S, rng = self.S, self.rng
        self.n += 1
        r = rng.random()
        if self.w1.closed or self.w2.closed:
            return
        if r < 0.1:
            S.request(self.w1, "change", {"path": rng.choice(self.wrap), "value": S.next_val(self.w1)}, chunks=pick_chunks(rng))
        elif r < 0.3:
            S.request(self.w1, "change", {"path": "w/1", "value": S.next_val(self.w1)}, chunks=pick_chunks(rng))
        elif r < 0.5:
            S.request(self.w2, "get", {"path": {"startsWith": "w/"}}, chunks=pick_chunks(rng))
        elif r < 0.7:
            S.request(self.w2, "set", {"path": "w/1", "value": S.next_val(self.w2)}, chunks=pick_chunks(rng))
        elif r < 0.8:
            S.request(self.w2, "call", {"path": "w/m", "args": [S.next_val(self.w2)]}, chunks=pick_chunks(rng))
        else:
            for p in list(self.w2.pending.values()):
                if p.state == "forwarded" and p.reply is None:
                    S.reply(self.w1, p, rng.choice(["result", "error"]))
            pl = bytes(rng.randrange(256) for _ in range(rng.choice([0, 1, 5, 125])))
            self.w2.pings.append(pl)
            S.send_bytes(self.w2, wire.ws_frame(9, pl, mask=bytes(rng.randrange(256) for _ in range(4))), pick_chunks(rng))


VALID_SESSION = [
    {"id": 1, "method": "add", "params": {"path": "m/a", "value": {"k": [1, 2, {"z": "ü"}]}, "timeout": 2.5}},
    {"id": 2, "method": "fetch", "params": {"id": "mf", "path": {"startsWith": "m/", "caseInsensitive": True}}},
    {"id": "3", "method": "change", "params": {"path": "m/a", "value": 1.25}},
    {"id": 4, "method": "set", "params": {"path": "m/a", "value": "v", "timeout": 1}},
    {"id": 5, "method": "get", "params": {"path": {"containsAllOf": ["m", "a"]}}},
    {"id": 6, "method": "config", "params": {"name": "mutant"}},
    [{"id": 7, "method": "info"}, {"id": 8, "method": "unfetch", "params": {"id": "mf"}}],
    {"id": 9, "method": "remove", "params": {"path": "m/a"}},
]


@scenario("hostile")
def hostile_scn(case, res):
    prm = case.get("params", {})

    def body(S, rng):
        S.tolerate_unknown_forwards = True
        W = Witness(S, rng)
        S.settle()
        paths = ["a", "a/b", "h/1", "h/2", "A/B", "ü", "x" * 60]
        # paths that share the LAST bucket of the path index: their neighbourhood wraps around the end of the table
        eo = int(S.cfg.get("CONFIG_ELEMENT_TABLE_ORDER", 13))
        paths += _last_bucket_paths(eo)
        hs = {}
        scr = prm.get("scribble")
        if scr is None:
            scr = rng.choice([0, 0, 1, 2, 3, 4, 5, 6, 7])
        S.sim.scribble(scr)
        S.ops.append(["scribble", scr])
        S.sig("scribble", scr)

        def hconn(kind):
            c = hs.get(kind)
            if c is None or c.closed or c.ended:
                name = "h%s%d" % (kind, len(S.conns))
                t = {"raw": "raw", "uds": "uds", "ws": "ws", "http": "ws"}[kind]
                c = S.connect(name, t)
                c.ledger = False
                c.track_input = False
                c.may_close = True
                hs[kind] = c
                if kind == "ws":
                    S.handshake(c, chunks=pick_chunks(rng))
            return c

        for step in range(prm.get("n_ops", 50)):
            r = rng.random()
            if rng.random() < 0.08:
                # a hostile peer may also stop reading or have a dead socket while it keeps sending
                import errno as E
                c = hconn(rng.choice(["raw", "uds", "ws"]))
                c.healthy = False
                if rng.random() < 0.5:
                    S.sim.wpol(c.fd, budget=rng.choice([0, 0, 3, 100]))
                else:
                    S.sim.wpol(c.fd, err=rng.choice([E.EPIPE, E.ECONNRESET]), after=rng.randrange(0, 2))
                S.ops.append(["hostile-socket-fault", c.name])
                S.sig("hostile-socket-fault", c.transport)
                burst = b""
                for _ in range(rng.choice([1, 5, 60])):
                    if c.transport == "ws" and rng.random() < 0.6:
                        burst += wire.ws_frame(9, b"z" * rng.choice([0, 125]), mask=b"\x01\x01\x01\x01")
                    else:
                        burst += S.frame_for(c, b'{"id":1,"method":"info"}')
                S.send_bytes(c, burst, pick_chunks(rng))
            if r < 0.34:
                c = hconn(rng.choice(["raw", "uds", "ws"]))
                pl, _ = hostile.hostile_payload(rng, paths, ["f1", 7])
                S.ops.append(["payload", c.name, pl[:300].decode("latin1")])
                S.send_bytes(c, S.frame_for(c, pl), pick_chunks(rng))
                S.sig("payload", c.transport, pl[:1].decode("latin1"), min(len(pl) // 100, 5))
            elif r < 0.44:
                c = hconn(rng.choice(["raw", "uds"]))
                d = hostile.raw_length_games(rng, S.max_msg)
                S.ops.append(["length-game", c.name, d[:40].hex()])
                S.send_bytes(c, d, pick_chunks(rng))
                S.sig("length", int.from_bytes(d[:4], "big") > S.max_msg, len(d) > 4)
            elif r < 0.58:
                c = S.connect("hh%d" % len(S.conns), "ws")
                c.ledger, c.track_input, c.may_close = False, False, True
                vs = hostile.http_requests(rng)
                i = rng.randrange(len(vs))
                d = vs[i]
                if rng.random() < 0.3:
                    d = hostile.mutate(rng, d)
                S.ops.append(["http", c.name, d[:200].decode("latin1")])
                S.send_bytes(c, d, pick_chunks(rng))
                if rng.random() < 0.5:
                    S.end(c, "eof")
                S.sig("http", i)
            elif r < 0.8:
                c = hconn("ws")
                if rng.random() < 0.08:
                    d = rng.choice(hostile.ws_huge_length_frames())
                else:
                    d = b"".join(hostile.ws_frame_grid(rng, S.max_msg) for _ in range(rng.choice([1, 1, 2, 3])))
                S.ops.append(["ws-frames", c.name, d[:60].hex()])
                S.send_bytes(c, d, pick_chunks(rng))
                S.sig("wsframe", d[0] & 0x0f, d[0] >> 4, d[1] & 0x7f if len(d) > 1 else -1)
            elif r < 0.92:
                t = rng.choice(["raw", "uds", "ws"])
                c = S.connect("hm%d" % len(S.conns), t)
                c.ledger, c.track_input, c.may_close = False, False, True
                data = b""
                if t == "ws":
                    data += wire.ws_handshake()
                for m in VALID_SESSION:
                    data += S.frame_for(c, json.dumps(m).encode())
                d = hostile.mutate(rng, data)
                S.ops.append(["mutated-session", c.name, d[:80].hex()])
                S.send_bytes(c, d, pick_chunks(rng))
                S.sig("mutation", t)
            else:
                c = hconn(rng.choice(["raw", "uds", "ws"]))
                how = rng.choice(["eof", "rst"])
                S.ops.append(["end", c.name, how])
                if how == "rst":
                    S.settle()      # a reset socket is a *fault* (C11), not an input: keep it apart from other traffic
                S.end(c, how)
                if how == "rst":
                    S.settle()
            if rng.random() < 0.5:
                W.tick()
            if rng.random() < 0.55:
                pol = batch_policy(rng)
                S.settle(**pol)
        S.settle()
        # the witnesses must still be served
        for _ in range(4):
            W.tick()
            S.settle()
        if W.w1.closed or W.w2.closed:
            S.v("conn/witness-connection-dropped", "w1 closed=%s w2 closed=%s" % (W.w1.closed, W.w2.closed))
        if prm.get("finale", True):
            st = S.close_all()
            if prm.get("baseline", False):
                S.check_idle_baseline(st)
            S.shutdown()
        return S.ops[:25]
    sim_case(case, res, body)


PREFIX_MESSAGES = VALID_SESSION + [
    {"id": 10, "method": "add", "params": {"path": "p/x", "value": [[], {}, [1, [2, [3, {"a": {"b": [None, True, False, 1e3, -0.5, "\\\"ü"]}}]]]], "access": {"fetchGroups": ["a", "b"], "setGroups": []}}},
    {"id": 11, "result": {"a": 1, "b": [1, 2, 3]}},
    {"id": "12", "error": {"code": -1, "message": "m", "data": {"x": [1, 2]}}},
]


@scenario("hostile-prefixes")
def hostile_prefixes(case, res):
    """every proper prefix of a valid message arrives as a complete frame of its own, each on a connection whose read buffer
    has never held anything else (what lies behind the message in the buffer was never written by anybody)"""
    prm = case["params"]

    def body(S, rng):
        S.tolerate_unknown_forwards = True
        W = Witness(S, rng)
        S.settle()
        msg = PREFIX_MESSAGES[prm["msg"] % len(PREFIX_MESSAGES)]
        text = json.dumps(msg, separators=prm.get("separators", (", ", ": "))).encode()
        t = prm["transport"]
        for k in range(1, len(text)):
            c = S.connect("p%d" % k, t)
            c.ledger, c.track_input, c.may_close = False, False, True
            if t == "ws":
                S.handshake(c)
            S.send_bytes(c, S.frame_for(c, text[:k]), None)
            S.settle()
            S.sig("prefix-ends-with", t, text[k - 1:k].decode("latin1"), text[k:k + 1].decode("latin1"))
            if not (c.closed or c.ended):
                S.end(c, "eof")
            if k % 16 == 0:
                W.tick()
                S.settle()
        S.ops.append(["prefixes", t, text.decode("latin1")[:120]])
        S.settle()
        for _ in range(3):
            W.tick()
            S.settle()
        if W.w1.closed or W.w2.closed:
            S.v("conn/witness-connection-dropped", "w1 closed=%s w2 closed=%s" % (W.w1.closed, W.w2.closed))
        S.close_all()
        S.shutdown()
        return S.ops[:5]
    sim_case(case, res, body)


@scenario("tablefull")
def tablefull(case, res):
    """legal traffic that makes the daemon's fixed-size tables refuse: more states in one home bucket of the path index than its
    neighbourhood holds (33 on the default table), more fetches than the fetch table holds, more routed requests in flight than
    the routing index of the owner holds. After every refusal the connection goes on using what the refused request touched
    (remove / re-add / change / fetch / get by others / its own end), witnesses running beside it; the sanitizers and the
    witnesses' monitors are the oracle"""
    prm = case.get("params", {})

    def body(S, rng):
        W = Witness(S, rng)
        S.settle()
        eo = int(S.cfg.get("CONFIG_ELEMENT_TABLE_ORDER", 13))
        a = S.connect("a", rng.choice(["raw", "uds", "ws"]))
        if a.transport == "ws":
            S.handshake(a)
        b = S.connect("b", rng.choice(["raw", "ws"]))
        if b.transport == "ws":
            S.handshake(b)
        a.may_close = b.may_close = True
        if rng.random() < 0.5:
            S.request(b, "fetch", {"id": "tb", "path": {"startsWith": "t/"}})
        paths = model.colliding_paths(eo, 38, prefix="t/", bucket=rng.choice([None, (1 << eo) - 1, 0]))
        refused = []
        for i, pth in enumerate(paths):
            p = S.request(a, "add", {"path": pth, "value": i} if i % 3 else {"path": pth})
            p.may_refuse = True
            p.note_refused = refused
            if rng.random() < 0.2:
                S.settle()
        S.settle()
        n0 = S.stats["tolerated_refusals"] + S.stats["resource_refusals"]
        S.stats["table_full_refusals"] += n0
        S.sig("element-table", eo, n0 > 0)
        live = sorted(q for q in S.elements if q.startswith("t/"))
        missing = [q for q in paths if q not in S.elements]
        # go on with what was refused, and with the neighbours
        for _ in range(prm.get("after", 12)):
            r = rng.random()
            if r < 0.25 and missing:
                p = S.request(a, "remove", {"path": rng.choice(missing)})
            elif r < 0.4 and missing:
                p = S.request(a, "change", {"path": rng.choice(missing), "value": "x"})
                p.may_refuse = True
            elif r < 0.55 and missing:
                p = S.request(a, "add", {"path": rng.choice(missing), "value": 1})
                p.may_refuse = True
            elif r < 0.65 and live:
                q = live.pop(rng.randrange(len(live)))
                S.request(a, "remove", {"path": q})
                missing.append(q)
            elif r < 0.8:
                S.request(b, "get", {"path": {"startsWith": "t/"}})
            elif r < 0.9:
                S.fidc = getattr(S, "fidc", 0) + 1
                S.request(b, "fetch", {"id": "tf%d" % S.fidc, "path": {"contains": "/"}})
            else:
                W.tick()
            if rng.random() < 0.5:
                S.settle()
                live = sorted(q for q in S.elements if q.startswith("t/"))
                missing = [q for q in paths if q not in S.elements]
        S.settle()
        # fetch table: more fetches than it holds
        nf = int(S.cfg.get("CONFIG_MAX_NUMBER_OF_FETCHES", S.cfg.get("CONFIG_INITIAL_FETCH_TABLE_SIZE", 4)))
        for i in range(prm.get("fetches", 0)):
            p = S.request(b, "fetch", {"id": "many%d" % i, "path": {"equals": "t/none%d" % i}})
            p.may_refuse = True
        S.settle()
        S.end(a, rng.choice(["eof", "rst", "eof"]))
        S.settle()
        for _ in range(3):
            W.tick()
            S.settle()
        S.request(b, "get", {})
        S.settle()
        if W.w1.closed or W.w2.closed:
            S.v("conn/witness-connection-dropped", "w1 closed=%s w2 closed=%s" % (W.w1.closed, W.w2.closed))
        st = S.close_all()
        S.check_idle_baseline(st)
        S.shutdown()
        return S.ops[:10]
    sim_case(case, res, body)
