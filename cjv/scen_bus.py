from .runner import scenario, sim_case
from .workloads import Bus


@scenario("bus")
def bus(case, res):
    prm = case.get("params", {})

    def body(S, rng):
        b = Bus(S, rng, prm.get("opts"))
        b.start()
        b.run(prm.get("n_ops", 60))
        b.finale(shutdown=prm.get("shutdown", True))
        return S.ops[:40]
    sim_case(case, res, body, session_kw=dict(args=("-f", "-l")) if prm.get("local_only") else None)


@scenario("cluster")
def cluster(case, res):
    """path index under displacement pressure: paths whose home buckets form a dense run are added until the index refuses,
    then removed and re-added in random order; after every step the owner's answer and (at quiescent points) `get` and a
    fetch-all replica are compared with the reference map"""
    from . import model
    prm = case.get("params", {})

    def body(S, rng):
        eo = int(S.cfg.get("CONFIG_ELEMENT_TABLE_ORDER", 13))
        nb, per, where = prm.get("cluster", (40, 2, "low"))
        first = {"low": 100 + rng.randrange(50), "wrap": (1 << eo) - nb // 2, "end": (1 << eo) - nb}[where]
        paths = model.cluster_paths(eo, first, nb, per)
        own = [S.connect("o%d" % i, rng.choice(["raw", "uds"])) for i in range(2)]
        obs = S.connect("obs", "raw")
        S.request(obs, "fetch", {"id": "all"})
        S.settle()
        order = list(paths)
        rng.shuffle(order)
        for rnd in range(prm.get("rounds", 3)):
            for i, pth in enumerate(order):
                c = rng.choice(own)
                S.request(c, "add", {"path": pth, "value": S.next_val(c)})
                if rng.random() < 0.25:
                    S.settle()
                if rng.random() < 0.15 and S.elements:
                    victim = rng.choice(sorted(S.elements))
                    S.request(S.elements[victim].owner, "remove", {"path": victim})
            S.settle()
            S.request(obs, "get", {})
            for pth in rng.sample(sorted(S.elements), min(10, len(S.elements))):
                c = S.elements[pth].owner
                S.request(c, "change", {"path": pth, "value": S.next_val(c)})
            S.settle()
            S.sig("cluster-size", len(S.elements) // 8, where)
            # thin the run out again, in a new random order
            rm = rng.sample(sorted(S.elements), int(len(S.elements) * rng.choice([0.3, 0.6, 0.9])))
            for pth in rm:
                S.request(S.elements[pth].owner, "remove", {"path": pth})
                if rng.random() < 0.2:
                    S.settle()
            S.settle()
            S.request(obs, "get", {})
            S.settle()
            rng.shuffle(order)
        st = S.close_all()
        S.check_idle_baseline(st)
        S.shutdown()
        return S.ops[:10]
    sim_case(case, res, body)
