from .runner import scenario, sim_case
from .workloads import Bus, pick_chunks


@scenario("bus")
def bus(case, res):
    prm = case.get("params", {})

    def body(S, rng):
        b = Bus(S, rng, prm.get("opts"))
        b.start()
        b.run(prm.get("n_ops", 60))
        b.finale(shutdown=prm.get("shutdown", True))
        return S.ops[:40]
    sim_case(case, res, body, session_kw=dict(args=("-f", "-l")) if prm.get("local_only") else None)


@scenario("cluster")
def cluster(case, res):
    """path index under displacement pressure: paths whose home buckets form a dense run are added until the index refuses,
    then removed and re-added in random order; after every step the owner's answer and (at quiescent points) `get` and a
    fetch-all replica are compared with the reference map"""
    from . import model
    prm = case.get("params", {})

    def body(S, rng):
        eo = int(S.cfg.get("CONFIG_ELEMENT_TABLE_ORDER", 13))
        nb, per, where = prm.get("cluster", (40, 2, "low"))
        first = {"low": 100 + rng.randrange(50), "wrap": (1 << eo) - nb // 2, "end": (1 << eo) - nb}[where]
        paths = model.cluster_paths(eo, first, nb, per)
        own = [S.connect("o%d" % i, rng.choice(["raw", "uds"])) for i in range(2)]
        obs = S.connect("obs", "raw")
        S.request(obs, "fetch", {"id": "all"})
        S.settle()
        order = list(paths)
        rng.shuffle(order)
        for rnd in range(prm.get("rounds", 3)):
            for i, pth in enumerate(order):
                c = rng.choice(own)
                S.request(c, "add", {"path": pth, "value": S.next_val(c)})
                if rng.random() < 0.25:
                    S.settle()
                if rng.random() < 0.15 and S.elements:
                    victim = rng.choice(sorted(S.elements))
                    S.request(S.elements[victim].owner, "remove", {"path": victim})
            S.settle()
            S.request(obs, "get", {})
            for pth in rng.sample(sorted(S.elements), min(10, len(S.elements))):
                c = S.elements[pth].owner
                S.request(c, "change", {"path": pth, "value": S.next_val(c)})
            S.settle()
            S.sig("cluster-size", len(S.elements) // 8, where)
            # thin the run out again, in a new random order
            rm = rng.sample(sorted(S.elements), int(len(S.elements) * rng.choice([0.3, 0.6, 0.9])))
            for pth in rm:
                S.request(S.elements[pth].owner, "remove", {"path": pth})
                if rng.random() < 0.2:
                    S.settle()
            S.settle()
            S.request(obs, "get", {})
            S.settle()
            rng.shuffle(order)
        st = S.close_all()
        S.check_idle_baseline(st)
        S.shutdown()
        return S.ops[:10]
    sim_case(case, res, body)


@scenario("slowsub")
def slowsub(case, res):
    """a subscriber that reads slowly but never so slowly that the daemon's write buffer overflows: once it has caught up, its
    replica (and the byte stream it received) must be complete - nothing may get lost between the write buffer and the kernel"""
    import json as _json
    prm = case.get("params", {})

    def body(S, rng):
        wbuf = int(S.cfg.get("CONFIG_MAX_WRITE_BUFFER_SIZE", 5120))
        subs = []
        for i in range(rng.choice([1, 2])):
            c = S.connect("sub%d" % i, rng.choice(["raw", "uds", "ws"]))
            if c.transport == "ws":
                S.handshake(c)
            S.request(c, "fetch", {"id": "f%d" % i, "path": {"startsWith": rng.choice(["s/", "s/", ""])}})
            subs.append(c)
        own = S.connect("own", rng.choice(["raw", "uds"]))
        paths = ["s/%d" % i for i in range(4)]
        for pth in paths[:2]:
            S.request(own, "add", {"path": pth, "value": 0})
        S.settle()
        for rnd in range(prm.get("rounds", 4)):
            v = rng.choice(subs)
            v.slow = True
            S.sim.wpol(v.fd, budget=rng.choice([0, 0, 1, 7, 50, 200]), cap=rng.choice([-1, -1, 1, 3, 40]))
            limit = rng.choice([wbuf // 8, wbuf // 4, wbuf // 2])
            total = 0
            S.sig("slow-round", v.transport, wbuf // limit)
            while True:
                n = rng.choice([0, 1, 10, 40] if wbuf >= 1024 else [0, 1, 5])
                pth = rng.choice(paths)
                cost = 2 * (n + 90)            # generous: frame of the notification, twice if the fetch rules overlap
                if total + cost > limit:
                    break
                total += cost
                if pth in S.elements:
                    if rng.random() < 0.8:
                        S.request(own, "change", {"path": pth, "value": "v" * n})
                    else:
                        S.request(own, "remove", {"path": pth})
                else:
                    S.request(own, "add", {"path": pth, "value": "v" * n})
                if rng.random() < 0.6:
                    S.settle()              # the next frame meets output that is already parked
                if rng.random() < 0.3:
                    S.sim.wpol(v.fd, budget=rng.choice([1, 5, 30, 100]))
            S.settle()
            for r in [rng.choice([1, 3, 20, 90]) for _ in range(rng.randrange(0, 4))]:
                S.sim.wpol(v.fd, budget=r)
                S.settle()
            S.sim.wpol(v.fd, budget=-1, cap=-1)
            S.settle()
            S.settle()
            v.slow = False
            if v.closed:
                S.v("conn/slow-subscriber-dropped-below-the-buffer-limit", "%s after about %d bytes of notifications" % (v.name, total))
                break
            S.settle()      # caught up: byte stream equal to what was generated, replica exact
        st = S.close_all()
        S.check_idle_baseline(st)
        S.shutdown()
        return S.ops[:10]
    sim_case(case, res, body)


@scenario("idless")
def idless(case, res):
    """add / remove / change sent WITHOUT a usable id (absent, null, true, object, array): nothing is answered, so the effect is
    read back through `get` by a third connection after every step and compared with a reference map - a request that must be
    refused (taken path, foreign or missing element, fetch-only, method) leaves everything as it was"""
    import json as _json
    from .model import jeq
    prm = case.get("params", {})

    def body(S, rng):
        a = S.connect("a", rng.choice(["raw", "uds", "ws"]))
        b = S.connect("b", rng.choice(["raw", "ws"]))
        obs = S.connect("obs", "raw")
        for c in (a, b):
            if c.transport == "ws":
                S.handshake(c)
        obs.keep_log = True
        ref = {}           # path -> (owner name, value or "<method>")
        paths = ["i/1", "i/2", "i/m", "I/1", ""]
        ODD = ["absent", None, True, False, {}, [], [1], {"id": 1}]

        def send(c, method, params):
            idv = rng.choice(ODD)
            msg = {"method": method, "params": params}
            if idv != "absent":
                msg["id"] = idv
            S._register(c, dict(msg), True)
            S.send_payload(c, _json.dumps(msg).encode(), chunks=pick_chunks(rng))
            S.ops.append([c.name, msg])
            S.sig("idless", method, type(idv).__name__)

        def readback(what):
            q = S.request(obs, "get", {})
            q.expect_override = "any"
            S.settle()
            got = [m for m in obs.msglog if isinstance(m, dict) and m.get("id") == q.idv and "result" in m]
            if not got:
                S.v("state/read-back-failed", what)
                return
            listed = {}
            for e in got[0]["result"]:
                if e.get("path") in listed:
                    S.v("state/path-listed-twice", "%r after %s" % (e.get("path"), what))
                listed[e.get("path")] = e.get("value", "<method>")
            want = {p: v for p, (_o, v) in ref.items() if v != "<method>"}      # get lists states; methods only occupy their path
            if set(listed) != set(want) or any(not jeq(listed[p], want[p]) for p in want if p in listed):
                S.v("state/elements-differ-after-request-without-usable-id", "after %s: daemon %s, reference %s" % (what, _json.dumps(listed, sort_keys=True)[:200], _json.dumps(want, sort_keys=True)[:200]))
                return False
            return True
        for step in range(prm.get("n_ops", 30)):
            c = rng.choice([a, b])
            pth = rng.choice(paths)
            r = rng.random()
            if r < 0.5:
                val = rng.choice([step, "v%d" % step, {"k": step}, None])
                pr = {"path": pth}
                if val is not None:
                    pr["value"] = val
                send(c, "add", pr)
                if pth not in ref:
                    ref[pth] = (c.name, val if val is not None else "<method>")
                what = "add %r by %s" % (pth, c.name)
            elif r < 0.75:
                send(c, "change", {"path": pth, "value": [step]})
                if pth in ref and ref[pth][0] == c.name and ref[pth][1] != "<method>":
                    ref[pth] = (c.name, [step])
                what = "change %r by %s" % (pth, c.name)
            else:
                send(c, "remove", {"path": pth})
                if pth in ref and ref[pth][0] == c.name:
                    del ref[pth]
                what = "remove %r by %s" % (pth, c.name)
            S.settle()
            if a.closed or b.closed:
                S.v("conn/healthy-connection-dropped", "after %s" % what)
                break
            if readback(what) is False:
                break
        st = S.close_all()
        S.check_idle_baseline(st)
        S.shutdown()
        return S.ops[:12]
    sim_case(case, res, body)
