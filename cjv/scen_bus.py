from .runner import scenario, sim_case
from .workloads import Bus


@scenario("bus")
def bus(case, res):
    prm = case.get("params", {})

    def body(S, rng):
        b = Bus(S, rng, prm.get("opts"))
        b.start()
        b.run(prm.get("n_ops", 60))
        b.finale(shutdown=prm.get("shutdown", True))
        return S.ops[:40]
    sim_case(case, res, body, session_kw=dict(args=("-f", "-l")) if prm.get("local_only") else None)
