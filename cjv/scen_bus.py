from .runner import scenario, sim_case
from .workloads import Bus


@scenario("bus")
def bus(case, res):
    prm = case.get("params", {})

    def body(S, rng):
        b = Bus(S, rng, prm.get("opts"))
        b.start()
        b.run(prm.get("n_ops", 60))
        b.finale(shutdown=prm.get("shutdown", True))
        return S.ops[:40]
    sim_case(case, res, body, session_kw=dict(args=("-f", "-l")) if prm.get("local_only") else None)


@scenario("cluster")
def cluster(case, res):
    """path index under displacement pressure: paths whose home buckets form a dense run are added until the index refuses,
    then removed and re-added in random order; after every step the owner's answer and (at quiescent points) `get` and a
    fetch-all replica are compared with the reference map"""
    from . import model
    prm = case.get("params", {})

    def body(S, rng):
        eo = int(S.cfg.get("CONFIG_ELEMENT_TABLE_ORDER", 13))
        nb, per, where = prm.get("cluster", (40, 2, "low"))
        first = {"low": 100 + rng.randrange(50), "wrap": (1 << eo) - nb // 2, "end": (1 << eo) - nb}[where]
        paths = model.cluster_paths(eo, first, nb, per)
        own = [S.connect("o%d" % i, rng.choice(["raw", "uds"])) for i in range(2)]
        obs = S.connect("obs", "raw")
        S.request(obs, "fetch", {"id": "all"})
        S.settle()
        order = list(paths)
        rng.shuffle(order)
        for rnd in range(prm.get("rounds", 3)):
            for i, pth in enumerate(order):
                c = rng.choice(own)
                S.request(c, "add", {"path": pth, "value": S.next_val(c)})
                if rng.random() < 0.25:
                    S.settle()
                if rng.random() < 0.15 and S.elements:
                    victim = rng.choice(sorted(S.elements))
                    S.request(S.elements[victim].owner, "remove", {"path": victim})
            S.settle()
            S.request(obs, "get", {})
            for pth in rng.sample(sorted(S.elements), min(10, len(S.elements))):
                c = S.elements[pth].owner
                S.request(c, "change", {"path": pth, "value": S.next_val(c)})
            S.settle()
            S.sig("cluster-size", len(S.elements) // 8, where)
            # thin the run out again, in a new random order
            rm = rng.sample(sorted(S.elements), int(len(S.elements) * rng.choice([0.3, 0.6, 0.9])))
            for pth in rm:
                S.request(S.elements[pth].owner, "remove", {"path": pth})
                if rng.random() < 0.2:
                    S.settle()
            S.settle()
            S.request(obs, "get", {})
            S.settle()
            rng.shuffle(order)
        st = S.close_all()
        S.check_idle_baseline(st)
        S.shutdown()
        return S.ops[:10]
    sim_case(case, res, body)


@scenario("slowsub")
def slowsub(case, res):
    """a subscriber that reads slowly but never so slowly that the daemon's write buffer overflows: once it has caught up, its
    replica (and the byte stream it received) must be complete - nothing may get lost between the write buffer and the kernel"""
    import json as _json
    prm = case.get("params", {})

    def body(S, rng):
        wbuf = int(S.cfg.get("CONFIG_MAX_WRITE_BUFFER_SIZE", 5120))
        subs = []
        for i in range(rng.choice([1, 2])):
            c = S.connect("sub%d" % i, rng.choice(["raw", "uds", "ws"]))
            if c.transport == "ws":
                S.handshake(c)
            S.request(c, "fetch", {"id": "f%d" % i, "path": {"startsWith": rng.choice(["s/", "s/", ""])}})
            subs.append(c)
        own = S.connect("own", rng.choice(["raw", "uds"]))
        paths = ["s/%d" % i for i in range(4)]
        for pth in paths[:2]:
            S.request(own, "add", {"path": pth, "value": 0})
        S.settle()
        for rnd in range(prm.get("rounds", 4)):
            v = rng.choice(subs)
            v.slow = True
            S.sim.wpol(v.fd, budget=rng.choice([0, 0, 1, 7, 50, 200]), cap=rng.choice([-1, -1, 1, 3, 40]))
            limit = rng.choice([wbuf // 8, wbuf // 4, wbuf // 2])
            total = 0
            S.sig("slow-round", v.transport, wbuf // limit)
            while True:
                n = rng.choice([0, 1, 10, 40] if wbuf >= 1024 else [0, 1, 5])
                pth = rng.choice(paths)
                cost = 2 * (n + 90)            # generous: frame of the notification, twice if the fetch rules overlap
                if total + cost > limit:
                    break
                total += cost
                if pth in S.elements:
                    if rng.random() < 0.8:
                        S.request(own, "change", {"path": pth, "value": "v" * n})
                    else:
                        S.request(own, "remove", {"path": pth})
                else:
                    S.request(own, "add", {"path": pth, "value": "v" * n})
                if rng.random() < 0.6:
                    S.settle()              # the next frame meets output that is already parked
                if rng.random() < 0.3:
                    S.sim.wpol(v.fd, budget=rng.choice([1, 5, 30, 100]))
            S.settle()
            for r in [rng.choice([1, 3, 20, 90]) for _ in range(rng.randrange(0, 4))]:
                S.sim.wpol(v.fd, budget=r)
                S.settle()
            S.sim.wpol(v.fd, budget=-1, cap=-1)
            S.settle()
            S.settle()
            v.slow = False
            if v.closed:
                S.v("conn/slow-subscriber-dropped-below-the-buffer-limit", "%s after about %d bytes of notifications" % (v.name, total))
                break
            S.settle()      # caught up: byte stream equal to what was generated, replica exact
        st = S.close_all()
        S.check_idle_baseline(st)
        S.shutdown()
        return S.ops[:10]
    sim_case(case, res, body)
