"""C15: single allocation failure enumeration over a corpus of scripted sessions."""
import json

from . import wire
from .engine import AUTO
from .model import jeq
from .runner import scenario, sim_case

# ----------------------------------------------------------------------
# corpus: deterministic scripts (no randomness, so that allocation indices are stable)


def _mk(S, name, t):
    c = S.connect(name, t)
    if t == "ws":
        S.handshake(c, key=b"dGhlIHNhbXBsZSBub25jZQ==")
    return c


def script_basic(S, t1="raw", t2="raw"):
    a, b = _mk(S, "a", t1), _mk(S, "b", t2)
    S.settle()
    S.request(a, "config", {"name": "owner"})
    S.request(b, "fetch", {"id": "f1", "path": {"startsWith": "s/", "caseInsensitive": True}})
    S.request(b, "fetch", {"id": 7})
    S.settle()
    S.request(a, "add", {"path": "s/1", "value": {"k": [1, 2, 3]}, "timeout": 2.5, "access": {"fetchGroups": ["g"], "setGroups": ["g"]}})
    S.request(a, "add", {"path": "s/m", "fetchOnly": False})
    S.request(a, "add", {"path": "s/ro", "value": 1, "fetchOnly": True})
    S.settle()
    S.request(a, "change", {"path": "s/1", "value": "changed"})
    S.request(b, "get", {"path": {"contains": "s", "containsAllOf": ["s", "/"]}})
    S.request(b, "get", {})
    S.request(a, "config", {"name": "owner-under-its-second-name"})     # a peer that already has a name is renamed
    S.settle()
    p1 = S.request(b, "set", {"path": "s/1", "value": 5, "timeout": 1})
    p2 = S.request(b, "call", {"path": "s/m", "args": [1, 2]})
    p3 = S.request(b, "set", {"path": "s/1", "value": 6}, idv=None)
    S.settle()
    for p, kind in ((p1, "result"), (p2, "error")):
        if p.state == "forwarded":
            S.reply(a, p, kind)
    S.settle()
    S.batch(b, [{"id": 100, "method": "info"}, {"id": 101, "method": "nosuch"}, {"id": 102, "method": "set", "params": {"path": "s/ro", "value": 1}},
                {"id": 103, "method": "add", "params": {"path": "s/1", "value": 1}}, {"method": "info"}])
    S.request(b, "unfetch", {"id": "f1"})
    S.request(b, "unfetch", {"id": "nope"})
    S.request(a, "remove", {"path": "s/m"})
    S.request(a, "remove", {"path": "nope"})
    S.request(b, "authenticate", {"user": "x", "password": "y"})
    S.request(b, "passwd", {"user": "x", "password": "y"})
    S.settle()
    S.end(b, "eof")
    S.settle()
    S.end(a, "eof")
    S.settle()


def script_teardown(S, t1="raw", t2="ws"):
    a, b, c = _mk(S, "a", t1), _mk(S, "b", t2), _mk(S, "c", "uds")
    S.settle()
    S.request(a, "add", {"path": "t/1", "value": 1, "timeout": 1})
    S.request(a, "add", {"path": "t/m"})
    S.request(c, "add", {"path": "t/c", "value": 1})
    S.request(c, "fetch", {"id": "all"})
    S.settle()
    S.request(b, "set", {"path": "t/1", "value": 2})
    S.request(b, "call", {"path": "t/m", "args": {}})
    S.request(c, "set", {"path": "t/1", "value": 3})
    S.request(b, "set", {"path": "t/c", "value": 9})
    S.settle()
    # one request times out
    S.advance(1000000000)
    S.settle()
    # the caller goes away with requests in flight, then the owner
    S.end(b, "eof" if t2 != "ws" else "rst")
    S.settle()
    S.request(c, "call", {"path": "t/m", "args": [1]})
    S.settle()
    S.end(a, "rst")
    S.settle()
    S.end(c, "eof")
    S.settle()


def script_fetchers(S):
    a = _mk(S, "a", "raw")
    subs = [_mk(S, "s%d" % i, "raw" if i % 2 else "uds") for i in range(6)]
    S.settle()
    for i, c in enumerate(subs):
        if i >= 2:
            # clients number their fetches: the SAME fetch id on several connections, next to each other in an element's subscriber
            # table and behind a subscriber with another id
            S.request(c, "fetch", {"id": 9, "path": {"startsWith": "e"}})
            continue
        S.request(c, "fetch", {"id": "f%d" % i, "path": {"startsWith": "e"}})
        S.request(c, "fetch", {"id": i})
    S.settle()
    for i in range(6):
        S.request(a, "add", {"path": "e/%d" % i, "value": i})
    S.settle()
    for i in range(6):
        S.request(a, "change", {"path": "e/%d" % i, "value": -i})
    S.settle()
    S.end(subs[0], "eof")
    S.end(subs[1], "rst")
    S.settle()
    S.request(a, "remove", {"path": "e/0"})
    S.settle()
    S.end(a, "eof")
    S.settle()
    for c in subs[2:]:
        S.end(c, "eof")
    S.settle()


def script_http_refused(S):
    """only exchanges that are NOT a valid upgrade (C13), each on its own connection, ended by the client or by the daemon"""
    good = wire.ws_handshake()
    reqs = [b"GET /nope HTTP/1.1\r\nHost: h\r\n\r\n", b"POST /api/jet/ HTTP/1.1\r\nContent-Length: 2\r\n\r\nhi", good[:30], good[:-2], b"garbage\r\n\r\n",
            good.replace(b"Version: 13", b"Version: 8"), good.replace(b"Protocol: jet", b"Protocol: x"), good.replace(b"Upgrade: websocket", b"Upgrade: h2c"),
            b"GET /api/jet/ HTTP/1.1\r\nX: " + b"y" * 3000 + b"\r\n\r\n"]
    for i, d in enumerate(reqs):
        c = S.connect("h%d" % i, "ws")
        c.ledger, c.track_input, c.may_close = False, False, True
        S.send_bytes(c, d)
        S.settle()
        S.end(c, "eof" if i % 2 == 0 else "rst")
        S.settle()


def script_http(S):
    good = wire.ws_handshake()
    for i, d in enumerate([b"GET /nope HTTP/1.1\r\n\r\n", b"GET /api/jet/ HTTP/1.0\r\nUpgrade: websocket\r\nConnection: Upgrade\r\n\r\n", good[:30], good[:-2],
                           good.replace(b"Version: 13", b"Version: 8"), b"garbage\r\n\r\n", good.replace(b"Protocol: jet", b"Protocol: x")]):
        c = S.connect("h%d" % i, "ws")
        c.ledger, c.track_input, c.may_close = False, False, True
        S.send_bytes(c, d)
        S.settle()
        S.end(c, "eof")
        S.settle()
    w = _mk(S, "w", "ws")
    S.settle()
    S.request(w, "info")
    S.send_bytes(w, wire.ws_frame(9, b"ping"))
    w.pings.append(b"ping")
    S.settle()
    S.send_bytes(w, wire.ws_frame(1, b'{"id":"x","method":"in', fin=0) + wire.ws_frame(0, b'fo"}'))
    w.may_close = True
    S.settle()
    w2 = _mk(S, "w2", "ws")
    S.settle()
    S.send_bytes(w2, wire.ws_frame(8, b"\x03\xe8bye"))
    w2.may_close = True
    S.settle()


SCRIPTS = {
    "basic-raw": lambda S: script_basic(S, "raw", "raw"),
    "basic-ws": lambda S: script_basic(S, "ws", "ws"),
    "basic-mixed": lambda S: script_basic(S, "uds", "ws"),
    "teardown-raw-ws": lambda S: script_teardown(S, "raw", "ws"),
    "teardown-ws-raw": lambda S: script_teardown(S, "ws", "raw"),
    "fetchers": script_fetchers,
    "http": script_http,
    "http-refused": script_http_refused,
}


def probe(S, tag):
    """after the fault: a fresh connection must be served normally"""
    S.desync = False
    S.alloc_faults = False
    c = S.connect("probe%s" % tag, "raw")
    o = S.connect("probeobs%s" % tag, "raw")
    S.settle()
    before = len(S.viol)
    S.elements = {k: e for k, e in S.elements.items() if not e.owner.closed and False}
    S.request(o, "fetch", {"id": "pf", "path": {"startsWith": "probe/"}})
    S.request(c, "add", {"path": "probe/1", "value": 1})
    S.request(c, "change", {"path": "probe/1", "value": 2})
    S.request(c, "get", {"path": {"equals": "probe/1"}})
    S.settle()
    S.request(c, "remove", {"path": "probe/1"})
    S.settle()
    for i in range(before, len(S.viol)):
        k, d = S.viol[i]
        S.viol[i] = ("after-fault:" + k, d)
    if c.closed or o.closed:
        S.v("after-fault:conn/probe-connection-dropped", "")
    S.stats["probes"] += 1
    S.end(c, "eof")
    S.end(o, "eof")
    S.settle()


@scenario("allocfail")
def allocfail(case, res):
    prm = case["params"]
    name = prm["script"]
    nth = prm.get("nth")
    count = prm.get("count", 1)

    def body(S, rng):
        S.check_m = True
        if nth is not None:
            S.alloc_faults = True
            S.desync = True
            S.strict_close = False
            S.sim.failalloc(nth, count, prm.get("site", (nth // 2) % 2))      # refusal by the accounting allocator / NULL from the C library inside it
        start = S.sim.stat()["allocs"]
        SCRIPTS[name](S)
        st = S.sim.stat()
        S.stats["allocs_in_script"] = st["allocs"] - start
        if nth is None:
            res.alloc_count = st["allocs"] - start
            st = S.close_all()
            S.check_idle_baseline(st)
            S.shutdown()
            return [name, "counting run", res.alloc_count]
        S.sim.failalloc(-1, 0)
        fired = st["alloc_failed"]
        ffd = st["alloc_fail_fd"]
        S.stats["faults_fired"] += 1 if fired else 0
        if fired:
            victim = S.by_fd.get(ffd)
            S.sig("fault", name, victim.transport if victim else "timer-or-none")
            # only the connection whose processing hit the failure may have been dropped
            for c in S.conns.values():
                if c.closed and not c.ended and not c.may_close and c.fd not in st["alloc_fail_fds"]:
                    S.v("conn/allocation-failure-dropped-another-connection", "%s (fault while processing fd %d)" % (c.name, ffd))
        probe(S, "")
        st = S.close_all()
        S.check_idle_baseline(st)
        S.shutdown()
        return [name, "fail allocation", nth, "fired" if fired else "not reached"]
    sim_case(case, res, body)


@scenario("allocfail-passwd")
def allocfail_passwd(case, res):
    """one authorised password change with allocation number n failing: the answer, the credentials the daemon accepts afterwards
    and the file on disk must tell the same story (old XOR new, never neither, never both)"""
    import crypt
    from .scen_access import creds_case, token
    prm = case["params"]
    nth = prm.get("nth")
    count = prm.get("count", 1)

    def body(S, rng, creds, pool):
        S.check_m = True
        admins = sorted(u for u, d in creds.users.items() if d.get("admin") and not d.get("readonly"))
        who = prm.get("who", "self")
        target = "user0"
        actor = target if who == "self" or not admins or admins[0] == target else admins[0]
        old = creds.users[target]["password"]
        new = "new-" + token(rng)
        t = prm.get("transport", "raw")
        a = S.connect("a", t)
        if t == "ws":
            S.handshake(a)
        a.keep_log = True
        S.request(a, "authenticate", {"user": actor, "password": creds.users[actor]["password"]})
        S.settle()
        if nth is not None:
            S.alloc_faults = True
            S.desync = True
            S.strict_close = False
            S.sim.failalloc(nth, count, prm.get("site", (nth // 2) % 2))      # refusal by the accounting allocator / NULL from the C library inside it
        start = S.sim.stat()["allocs"]
        p = S.request(a, "passwd", {"user": target, "password": new})
        p.expect_override = "any"
        S.settle()
        st = S.sim.stat()
        S.sim.failalloc(-1, 0)
        if nth is None:
            res.alloc_count = st["allocs"] - start
        S.stats["faults_fired"] += 1 if st["alloc_failed"] else 0
        ans = [m for m in a.msglog if isinstance(m, dict) and m.get("id") == p.idv and ("result" in m or "error" in m)]
        said = "nothing" if not ans else "changed" if "result" in ans[0] else "refused"

        def accepts(pw, tag):
            v = S.connect("v" + tag, "raw")
            v.keep_log = True
            q = S.request(v, "authenticate", {"user": target, "password": pw})
            q.expect_override = "any"
            S.settle()
            r = [m for m in v.msglog if isinstance(m, dict) and m.get("id") == q.idv]
            S.end(v, "eof")
            S.settle()
            return bool(r and "result" in r[0])
        ok_old, ok_new = accepts(old, "old"), accepts(new, "new")
        S.sig("passwd-under-allocation-failure", said, ok_old, ok_new, t, who)
        state = "neither" if not (ok_old or ok_new) else "both" if (ok_old and ok_new) else "old" if ok_old else "new"
        want = {"changed": ("new",), "refused": ("old",), "nothing": ("old", "new")}[said]
        if state not in want:
            S.v("authz/answer-%s-but-daemon-accepts-%s" % (said, state), "passwd for %s by %s, allocation %r failing (x%d)" % (target, actor, nth, count))
        # the file: loadable, and it holds the old or the new credential of the target
        try:
            with open(S.cred_path) as fh:
                doc = json.load(fh)
            h = doc["users"][target]["password"]
            on_disk = "old" if crypt.crypt(old, h) == h else "new" if crypt.crypt(new, h) == h else "neither"
        except (ValueError, KeyError, TypeError, OSError) as e:
            on_disk = "unloadable:%s" % type(e).__name__
        if on_disk not in ("old", "new"):
            S.v("authfile/allocation-failure-leaves-%s" % on_disk.split(":")[0], "answer %s, daemon accepts %s, file %s; allocation %r failing (x%d)" % (said, state, on_disk, nth, count))
        elif state in ("old", "new") and on_disk != state:
            S.v("authfile/file-and-daemon-disagree", "daemon accepts %s, file holds %s (answer %s); allocation %r failing (x%d)" % (state, on_disk, said, nth, count))
        S.end(a, "eof")     # under the fault "at most one answer" was all that could be demanded of this connection
        S.settle()
        probe(S, "")
        st = S.close_all()
        S.check_idle_baseline(st, heap=False)
        S.shutdown()
        return ["passwd", who, t, "alloc", nth, said, state, on_disk]
    creds_case(case, res, body)


@scenario("allocfail-ns")
def allocfail_ns(case, res):
    """one add / change / remove by the owner with allocation number n failing: what a fresh connection reads back afterwards must
    agree with the answer (refused or answered with an error: exactly as before; acknowledged: done), and the element keeps its kind"""
    prm = case["params"]
    nth = prm.get("nth")
    count = prm.get("count", 1)
    op = prm["op"]

    def body(S, rng):
        S.check_m = True
        t = prm.get("transport", "raw")
        o = _mk(S, "o", t)
        obs = _mk(S, "obs", "raw")
        old = {"k": [1, 2, 3], "s": "old"}
        new = {"k": list(range(12)), "s": "n" * 60, "o": {"a": [None, True, 1.5]}}     # the whole request stays below the message limit
        S.request(obs, "fetch", {"id": "all"})
        S.request(o, "add", {"path": "s/a", "value": old})
        S.request(o, "add", {"path": "s/m"})
        S.settle()
        o.keep_log = True
        if nth is not None:
            S.alloc_faults = True
            S.desync = True
            S.strict_close = False
            S.sim.failalloc(nth, count, prm.get("site", (nth // 2) % 2))      # refusal by the accounting allocator / NULL from the C library inside it
        start = S.sim.stat()["allocs"]
        if op == "change":
            p = S.request(o, "change", {"path": "s/a", "value": new})
        elif op == "add":
            p = S.request(o, "add", {"path": "s/new", "value": new})
        else:
            p = S.request(o, "remove", {"path": "s/a"})
        p.expect_override = "any"
        S.settle()
        st = S.sim.stat()
        S.sim.failalloc(-1, 0)
        if nth is None:
            res.alloc_count = st["allocs"] - start
        S.stats["faults_fired"] += 1 if st["alloc_failed"] else 0
        ans = [m for m in o.msglog if isinstance(m, dict) and m.get("id") == p.idv and ("result" in m or "error" in m)]
        said = "nothing" if not ans else "done" if "result" in ans[0] else "refused"
        # read back through a fresh connection
        r = S.connect("reader", "raw")
        r.keep_log = True
        q = S.request(r, "get", {})
        q.expect_override = "any"
        S.settle()
        got = [m for m in r.msglog if isinstance(m, dict) and m.get("id") == q.idv and "result" in m]
        if not got:
            S.v("after-fault:state/read-back-failed", "get on a fresh connection was not answered with a result")
            listed = {}
        else:
            listed = {e.get("path"): e.get("value", "<method>") for e in got[0]["result"] if isinstance(e, dict)}
        S.sig("ns-under-allocation-failure", op, said, t)
        owner_gone = o.closed

        def expect(path, before, after):
            """before / after: value or None (absent); '<method>' for a method"""
            have = listed.get(path)
            if owner_gone:
                allowed = [None]                 # the connection that hit the failure was dropped: its elements went with it
            else:
                allowed = {"done": [after], "refused": [before], "nothing": [before, after]}[said]
            if not any((a is None and have is None) or (a is not None and have is not None and jeq(a, have)) for a in allowed):
                S.v("state/element-differs-from-answer:%s-%s" % (op, said), "%s: read back %s, allowed %s (allocation %r failing x%d)" %
                    (path, _json(have)[:120], " or ".join(_json(a)[:60] for a in allowed), nth, count))
        if op == "change":
            expect("s/a", old, new)
        elif op == "add":
            expect("s/new", None, new)
            expect("s/a", old, old)
        else:
            expect("s/a", old, None)
        if not owner_gone and "s/m" not in listed and False:
            pass
        # the element keeps its kind: the owner can still change the state afterwards
        if not owner_gone and listed.get("s/a") is not None:
            c2 = S.request(o, "change", {"path": "s/a", "value": 7})
            c2.expect_override = "any"
            S.settle()
            a2 = [m for m in o.msglog if isinstance(m, dict) and m.get("id") == c2.idv]
            if not a2 or "result" not in a2[0]:
                S.v("after-fault:state/state-cannot-be-changed-any-more", _json(a2[:1])[:200])
        S.end(r, "eof")
        S.end(o, "eof")
        S.end(obs, "eof")
        S.settle()
        probe(S, "")
        st = S.close_all()
        S.check_idle_baseline(st)
        S.shutdown()
        return [op, t, "alloc", nth, said, sorted(listed)]
    sim_case(case, res, body)


def _json(x):
    return json.dumps(x, sort_keys=True)


@scenario("allocfail-fetch")
def allocfail_fetch(case, res):
    """one fetch / unfetch with allocation number n failing: afterwards the subscription either exists completely (initial
    state delivered, later events arrive) or not at all (no later events, the fetch id is free again) - as the answer said"""
    prm = case["params"]
    nth = prm.get("nth")
    count = prm.get("count", 1)
    op = prm["op"]

    def body(S, rng):
        S.check_m = True
        t = prm.get("transport", "raw")
        o = _mk(S, "o", "raw")
        sub = _mk(S, "sub", t)
        S.request(o, "add", {"path": "s/a", "value": 1})
        S.request(o, "add", {"path": "s/m"})
        S.request(o, "add", {"path": "t/x", "value": 1})
        rule = {"startsWith": "s/", "caseInsensitive": True}
        # other subscribers of the same elements, acknowledged long before the fault: 4 fill an element's initial subscriber table
        # (the new fetch makes it grow), 8 the grown one (it grows a second time), 16 the next
        others = []
        for i in range(prm.get("others", 0)):
            c = _mk(S, "b%d" % i, "raw" if i % 3 else "uds")
            c.keep_log = True
            S.request(c, "fetch", {"id": "g", "path": rule})
            others.append(c)
        if op == "unfetch":
            S.request(sub, "fetch", {"id": "f", "path": rule})
        S.settle()
        sub.keep_log = True
        S.alloc_faults = True
        S.desync = True
        S.strict_close = False
        if nth is not None:
            S.sim.failalloc(nth, count, prm.get("site", (nth // 2) % 2))      # refusal by the accounting allocator / NULL from the C library inside it
        start = S.sim.stat()["allocs"]
        p = S.request(sub, "fetch", {"id": "f", "path": rule}) if op == "fetch" else S.request(sub, "unfetch", {"id": "f"})
        p.expect_override = "any"
        S.settle()
        st = S.sim.stat()
        S.sim.failalloc(-1, 0)
        if nth is None:
            res.alloc_count = st["allocs"] - start
        S.stats["faults_fired"] += 1 if st["alloc_failed"] else 0
        ans = [m for m in sub.msglog if isinstance(m, dict) and m.get("id") == p.idv and ("result" in m or "error" in m)]
        said = "nothing" if not ans else "done" if "result" in ans[0] else "refused"
        S.sig("fetch-under-allocation-failure", op, said, t)
        mark = len(sub.msglog)
        if not sub.closed:
            # later events of the owner
            S.request(o, "change", {"path": "s/a", "value": 2}).expect_override = "any"
            S.request(o, "add", {"path": "s/b", "value": 3}).expect_override = "any"
            S.settle()
            for c in others:
                got = sorted((m["params"].get("path"), m["params"].get("event")) for m in c.msglog if isinstance(m, dict) and m.get("method") == "g"
                             and isinstance(m.get("params"), dict) and m["params"].get("event") != "add" or
                             (isinstance(m, dict) and m.get("method") == "g" and isinstance(m.get("params"), dict) and m["params"].get("path") == "s/b"))
                if got != [("s/a", "change"), ("s/b", "add")] and not c.closed:
                    S.v("fetchstate/subscription-of-another-connection-damaged-by-%s" % op, "%s of %d other subscribers saw %r after the %s (%s) with allocation %r failing x%d"
                        % (c.name, len(others), got, op, said, nth, count))
                    break
            later = [m for m in sub.msglog[mark:] if isinstance(m, dict) and m.get("method") == "f"]
            subscribed = {("fetch", "done"): True, ("fetch", "refused"): False, ("unfetch", "done"): False, ("unfetch", "refused"): True}.get((op, said))
            if subscribed is True:
                got = sorted((m["params"].get("path"), m["params"].get("event")) for m in later if isinstance(m.get("params"), dict))
                if got != [("s/a", "change"), ("s/b", "add")]:
                    S.v("fetchstate/subscription-incomplete-although-answer-%s-%s" % (op, said), "later events seen: %r (allocation %r failing x%d)" % (got, nth, count))
                if op == "fetch":
                    first = sorted((m["params"].get("path"), m["params"].get("event")) for m in sub.msglog[:mark]
                                   if isinstance(m, dict) and m.get("method") == "f" and isinstance(m.get("params"), dict))
                    if first != [("s/a", "add"), ("s/m", "add")]:
                        S.v("fetchstate/initial-state-incomplete-although-fetch-succeeded", "initial events: %r (allocation %r failing x%d)" % (first, nth, count))
            elif subscribed is False:
                if later:
                    S.v("fetchstate/events-although-answer-%s-%s" % (op, said), "%s (allocation %r failing x%d)" % (_json(later[:2])[:200], nth, count))
                # the fetch id is free again: a fresh fetch with it works completely
                mark2 = len(sub.msglog)
                q = S.request(sub, "fetch", {"id": "f", "path": rule})
                q.expect_override = "any"
                S.settle()
                a2 = [m for m in sub.msglog[mark2:] if isinstance(m, dict) and m.get("id") == q.idv]
                ev2 = sorted((m["params"].get("path"), m["params"].get("event")) for m in sub.msglog[mark2:]
                             if isinstance(m, dict) and m.get("method") == "f" and isinstance(m.get("params"), dict))
                if not a2 or "result" not in a2[0] or ev2 != [("s/a", "add"), ("s/b", "add"), ("s/m", "add")]:
                    S.v("fetchstate/fetch-id-not-usable-after-%s-%s" % (op, said), "answer %s, events %r (allocation %r failing x%d)" % (_json(a2[:1])[:120], ev2, nth, count))
        S.end(sub, "eof")
        S.end(o, "eof")
        for c in others:
            S.end(c, "eof")
        S.settle()
        probe(S, "")
        st = S.close_all()
        S.check_idle_baseline(st)
        S.shutdown()
        return [op, t, "alloc", nth, said]
    sim_case(case, res, body)


# ----------------------------------------------------------------------
# single system call failure enumeration over the same corpus

SYSCALLS = {
    # call -> errnos that call may legitimately report now and then
    "read": ["EINTR", "ENOBUFS", "ENOMEM", "ECONNRESET", "ETIMEDOUT"],
    "writev": ["ENOBUFS", "ENOMEM", "EINTR", "ECONNRESET", "EPIPE"],
    "accept": ["EMFILE", "ENFILE", "ENOBUFS", "ENOMEM", "EINTR", "EPROTO"],      # (ECONNABORTED removes the connection: the faulty-bus histories of C11 do that)
    "fcntl": ["EBADF", "EINVAL"],
    "setsockopt": ["ENOBUFS", "ENOPROTOOPT", "EINVAL"],
    "getsockname": ["ENOBUFS"],
    "epoll_ctl": ["ENOMEM", "ENOSPC"],
    "timerfd_create": ["EMFILE", "ENFILE", "ENOMEM"],
    "timerfd_settime": ["EINVAL", "EBADF", "ENOMEM"],
}


@scenario("sysfail")
def sysfail(case, res):
    """one scripted session in which the n-th call of one system call fails once: no crash or sanitizer report, at most one response
    per request, only connections involved in the failing call (its descriptor argument, the connection being processed) may be
    dropped, a fresh connection is served afterwards, everything is released in the end"""
    import errno as E
    prm = case["params"]
    name, call, nth, en = prm["script"], prm.get("call"), prm.get("nth"), prm.get("errno")

    def body(S, rng):
        S.check_m = True
        before = S.sim.stat()["injects"]
        if call is not None:
            S.alloc_faults = True           # (same reading as for a failed allocation: at most one response, effects not predicted)
            S.desync = True
            S.strict_close = False
            S.inject_active = True
            S.sys_faults = True
            S.sim.inject(call, nth, getattr(E, en))
        SCRIPTS[name](S)
        st = S.sim.stat()
        if call is None:
            res.call_counts = {k: st["injects"][k][0] - before[k][0] for k in SYSCALLS}
            st = S.close_all()
            S.check_idle_baseline(st)
            S.shutdown()
            return [name, "counting run", res.call_counts]
        S.sim.inject(call, 0, 0)
        fired = st["injects"][call][1] > before[call][1]
        S.stats["sysfail_fired" if fired else "sysfail_not_reached"] += 1
        if fired:
            S.sig("sysfail", name, call, en)
            involved = set(st.get("inject_fired_fds", []))
            for c in S.conns.values():
                if c.closed and not c.ended and not c.may_close and c.fd not in involved and c.accepted:
                    S.v("conn/failing-system-call-dropped-an-uninvolved-connection", "%s after %s #%d -> %s (descriptors involved: %r)" % (c.name, call, nth, en, sorted(involved)))
        probe(S, "")
        st = S.close_all()
        S.check_idle_baseline(st)
        S.shutdown()
        return [name, call, nth, en, "fired" if fired else "not reached"]
    sim_case(case, res, body)
