"""MANIFEST.setup_cmd: pre-build the default harness binaries from files on disk only."""
import sys, time
from . import build

if __name__ == "__main__":
    t = time.time()
    for cfg in ("default", "tiny", "smallbuf"):
        print(build.build(config=cfg, lane="asan"))
    print(build.build(config="default", lane="msan"))
    print("setup done in %.1fs" % (time.time() - t))
