"""C14: deadlines of routed requests: armed value, never early, exactly one outcome, races."""
import json

from .engine import AUTO
from .runner import scenario, sim_case
from .workloads import pick_chunks

GRID = [AUTO, 0, 0.0001, 0.000999, 0.001, 0.0015, 0.25, 1, 4.999, 5, 5.000000001, 12.5, 1e6, 1e9, 4294967297.5, 8.6e9, 1.7e10, 1e30, "1", True, None, -1, {}, [1]]


def valid(t):
    return t is AUTO or (not isinstance(t, bool) and isinstance(t, (int, float)) and 0.001 <= t <= 1e10)


@scenario("deadline-grid")
def grid(case, res):
    def body(S, rng):
        own = S.connect("own", rng.choice(["raw", "uds", "ws"]))
        cal = S.connect("cal", rng.choice(["raw", "uds", "ws"]))
        for c in (own, cal):
            if c.transport == "ws":
                S.handshake(c)
        S.settle()
        n = 0
        combos = [(te, tr) for te in GRID for tr in GRID]
        rng.shuffle(combos)
        for te, tr in combos[:case["params"].get("n", 40)]:
            n += 1
            path = "d/%d" % n
            is_state = rng.random() < 0.6
            pr = {"path": path}
            if is_state:
                pr["value"] = n
            if te is not AUTO:
                pr["timeout"] = te
            S.ops.append(["add", pr])
            S.request(own, "add", pr)
            S.settle()
            if path not in S.elements:
                S.sig("add-refused", json.dumps(te) if te is not AUTO else "absent")
                if valid(te) and (te is AUTO or te <= 1e10):
                    pass
                continue
            rp = {"path": path}
            if is_state:
                rp["value"] = S.next_val(cal)
            else:
                rp["args"] = [S.next_val(cal)]
            if tr is not AUTO:
                rp["timeout"] = tr
            S.ops.append(["route", rp])
            p = S.request(cal, "set" if is_state else "call", rp, chunks=pick_chunks(rng))
            S.settle()
            S.sig("timeouts", "abs" if te is AUTO else type(te).__name__, "abs" if tr is AUTO else type(tr).__name__, p.state)
            if p.state != "forwarded":
                continue
            dl = p.deadline
            if dl is None or dl - S.now > 10**18:
                continue
            mode = rng.choice(["expire", "expire", "reply", "late-reply"])
            if mode == "reply":
                S.advance(max(0, dl - S.now - 1))
                S.settle()
                S.reply(own, p, rng.choice(["result", "error"]))
                S.settle()
                S.sig("outcome", "reply-1ns-before-deadline")
            else:
                if dl - S.now > 1:
                    S.advance(dl - S.now - 1)
                    S.settle()          # an answer now would be early (monitor: route/error-before-deadline)
                    if p.state == "final":
                        S.sig("outcome", "early")
                S.advance(dl - S.now + rng.choice([0, 0, 1, 1000]))
                S.settle()              # an answer is due now (monitor: route/no-final-answer)
                S.sig("outcome", "timeout-at-deadline")
                if mode == "late-reply":
                    S.ops.append(["late reply"])
                    S.send_payload(own, json.dumps({"id": p.fwd_id, "result": "late"}).encode())
                    S.settle()          # any effect would be a second response (rpc/second-response...)
                    S.sig("outcome", "late-reply-ignored")
            if rng.random() < 0.5:
                # a second and third request on the SAME element: what an earlier request carried (or was refused for) must not
                # stick to the element; the armed value is checked against the precedence rule at every forward
                for tr2 in (AUTO, rng.choice(GRID), AUTO):
                    rp2 = {"path": path}
                    if is_state:
                        rp2["value"] = S.next_val(cal)
                    else:
                        rp2["args"] = [S.next_val(cal)]
                    if tr2 is not AUTO:
                        rp2["timeout"] = tr2
                    p2 = S.request(cal, "set" if is_state else "call", rp2)
                    S.settle()
                    if p2.state == "forwarded":
                        S.reply(own, p2, "result")
                        S.settle()
                S.sig("same-element-again", "abs" if te is AUTO else type(te).__name__)
            S.request(own, "remove", {"path": path})
            S.settle()
        st = S.close_all()
        S.check_idle_baseline(st)
        S.shutdown()
        return S.ops[:12]
    sim_case(case, res, body)


@scenario("deadline-race")
def race(case, res):
    """the expiry of a routed request and another event of the same request become ready in ONE epoll batch"""
    prm = case["params"]

    def body(S, rng):
        own = S.connect("own", rng.choice(["raw", "uds", "ws"]))
        cal = S.connect("cal", rng.choice(["raw", "uds", "ws"]))
        by = S.connect("by", "raw")
        for c in (own, cal):
            if c.transport == "ws":
                S.handshake(c)
        S.request(own, "add", {"path": "r/s", "value": 1, "timeout": 1})
        S.request(own, "add", {"path": "r/m", "timeout": 2})
        S.request(by, "fetch", {"id": "all"})
        S.settle()
        for rnd in range(prm.get("rounds", 6)):
            k = rng.choice([1, 1, 2, 3])
            ps = []
            if rng.random() < prm.get("timer_faults", 0.2):
                # the deadline timer of one of the next requests cannot be created / armed: that request is refused at once,
                # exactly once, and leaves nothing behind that the other events of this round could reach
                import errno as E
                S.inject_active = True
                call = rng.choice(["timerfd_create", "timerfd_settime"])
                S.sim.inject(call, rng.choice([1, 1, 2]), rng.choice([E.EMFILE, E.ENFILE, E.ENOMEM]) if call == "timerfd_create" else E.EINVAL)
                S.sig("race-timer-fault", call)
            # the requests of one round may carry long ids that differ only at their very end (or only at the very front)
            longids = rng.random() < 0.35
            stem = "P" * rng.choice([40, 60, 61, 62, 63, 64, 70, 100, 126, 127, 128, 250, 400, 412, 420])
            # (the longest ones make the request itself nearly as long as a message may be: the answers that carry the id back - the
            # timeout error, the "owner gone" error - are longer than that)
            stem = stem[:max(8, (S.max_msg if cal.transport != "ws" else S.max_msg - 14) - 96)]
            for i in range(k):
                idv = AUTO if rng.random() < 0.85 else None
                if longids:
                    idv = "%s-%d-%d" % (stem, rnd, i) if rnd % 2 else "%d-%d-%s" % (rnd, i, stem)
                if rng.random() < 0.6:
                    ps.append(S.request(cal, "set", {"path": "r/s", "value": S.next_val(cal)}, idv=idv))
                else:
                    ps.append(S.request(cal, "call", {"path": "r/m", "args": [S.next_val(cal)]}, idv=idv if longids else AUTO))
            S.settle()
            ps = [p for p in ps if p.state == "forwarded"]
            if not ps:
                break
            other = rng.choice(prm.get("others", ["reply", "reply", "caller-eof", "owner-eof", "owner-rst", "caller-rst"]))
            first = rng.choice(["timer", "other", "shuffle"])
            # the owner may give up everything it owns while its answers are still outstanding: the requests stay routed
            orphaned = rng.random() < prm.get("orphan", 0.3)
            if orphaned:
                for path in ("r/s", "r/m"):
                    S.request(own, "remove", {"path": path})
                S.settle()
                S.sig("race-orphaned-owner", other)
            # make the other event ready, then move the clock to the deadline WITHOUT letting the daemon run in between
            if other == "reply":
                for p in ps:
                    S.reply(own, p, rng.choice(["result", "error"]))
                    p.race = True
            elif other == "caller-eof":
                S.end(cal, "eof")
            elif other == "caller-rst":
                S.end(cal, "rst")
            elif other == "owner-eof":
                S.end(own, "eof")
            else:
                S.end(own, "rst")
            dl = max(p.deadline for p in ps)
            S.advance(dl - S.now + rng.choice([0, 1]))
            st = S.sim.stat()
            tfds = [t["fd"] for t in st["timers"]]
            ofd = own.fd if other in ("reply", "owner-eof", "owner-rst") else cal.fd
            S.ops.append(["race", other, first, len(ps)])
            S.sig("race", other, first, len(ps) > 1)
            if first == "timer":
                S.step(order=tfds + [ofd])
            elif first == "other":
                S.step(order=[ofd] + tfds)
            else:
                S.step(shuffle=rng.randrange(1, 1 << 30))
            S.stats["race_batches"] += 1
            S.settle()
            if orphaned and not (own.closed or own.ended):
                # whatever is left of the requests is answered late, and the clock runs past every deadline
                for p in ps:
                    if rng.random() < 0.5:
                        S.reply(own, p, "result")
                        p.race = True
                S.settle()
                S.advance(3 * 10**9)
                S.settle()
            if orphaned or own.closed or cal.closed or own.ended or cal.ended:
                break
        st = S.close_all()
        S.check_idle_baseline(st)
        S.shutdown()
        return S.ops[:12]
    sim_case(case, res, body)


@scenario("deadline-successor")
def successor(case, res):
    """'a reply that arrives after the timeout answer is discarded without any effect' - also when the caller has gone since and
    another connection has taken its place (same transport, same numbering of its requests, its memory likely to be the old
    caller's): the late reply must not reach the successor's request, which is still waiting for its own answer"""
    prm = case.get("params", {})

    def body(S, rng):
        S.per_conn_ids = True
        own = S.connect("own", rng.choice(["raw", "uds", "ws"]))
        if own.transport == "ws":
            S.handshake(own)
        S.request(own, "add", {"path": "r/s", "value": 1, "timeout": 1})
        S.request(own, "add", {"path": "r/m", "timeout": 2})
        S.settle()
        t = rng.choice(["raw", "uds", "ws"])
        stale = []          # forwarded ids of requests whose caller is gone or was answered with the timeout
        for rnd in range(prm.get("rounds", 6)):
            c = S.connect("c%d" % rnd, t)
            if t == "ws":
                S.handshake(c)
            S.settle()
            k = rng.choice([1, 1, 2, 3])
            ps = []
            for i in range(k):
                if rng.random() < 0.6:
                    ps.append(S.request(c, "set", {"path": "r/s", "value": S.next_val(c)}))
                else:
                    ps.append(S.request(c, "call", {"path": "r/m", "args": [S.next_val(c)]}))
            S.settle()
            ps = [p for p in ps if p.state == "forwarded"]
            # the owner now answers what it was asked by callers of EARLIER rounds: nothing of it may reach anybody
            late = stale[:]
            rng.shuffle(late)
            for fid in late[:rng.choice([1, 2, 4])]:
                S.ops.append(["late reply", fid])
                S.send_payload(own, json.dumps({"id": fid, rng.choice(["result", "error"]): {"late": fid}}).encode())
                S.stats["late_replies_for_gone_callers"] += 1
            S.settle()
            how = rng.choice(["timeout-then-leave", "leave", "reply-some-then-leave", "timeout-then-leave"])
            if how == "reply-some-then-leave" and ps:
                S.reply(own, ps[0], "result")
                S.settle()
                ps = ps[1:]
            if how.startswith("timeout") and ps:
                dl = max(p.deadline for p in ps if p.deadline is not None)
                S.advance(dl - S.now + 1)
                S.settle()
            stale += [p.fwd_id for p in ps if p.fwd_id]
            S.end(c, rng.choice(["eof", "rst"]))
            S.settle()
            S.sig("successor-round", t, how, len(ps))
        st = S.close_all()
        S.check_idle_baseline(st)
        S.shutdown()
        return S.ops[:12]
    sim_case(case, res, body)


@scenario("deadline-cancelfault")
def cancelfault(case, res):
    """the system call that disarms a routed request's deadline timer fails (when the owner's reply arrives, when the caller or the
    owner leaves): the outcome is still exactly one answer - the owner's payload if it replied before the deadline - nothing more
    arrives when the deadline passes, and everything is released in the end"""
    import errno as E
    prm = case.get("params", {})

    def body(S, rng):
        own = S.connect("own", rng.choice(["raw", "uds", "ws"]))
        if own.transport == "ws":
            S.handshake(own)
        S.request(own, "add", {"path": "r/s", "value": 1, "timeout": 5})
        S.request(own, "add", {"path": "r/m", "timeout": 7})
        S.settle()
        S.inject_active = True
        for rnd in range(prm.get("rounds", 5)):
            cal = S.connect("cal%d" % rnd, rng.choice(["raw", "uds", "ws"]))
            if cal.transport == "ws":
                S.handshake(cal)
            k = rng.choice([1, 1, 2])
            ps = []
            for i in range(k):
                if rng.random() < 0.6:
                    ps.append(S.request(cal, "set", {"path": "r/s", "value": S.next_val(cal)}, idv=AUTO if rng.random() < 0.85 else None))
                else:
                    ps.append(S.request(cal, "call", {"path": "r/m", "args": [S.next_val(cal)]}))
            S.settle()
            ps = [p for p in ps if p.state == "forwarded"]
            if not ps:
                break
            what = rng.choice(["reply", "reply", "reply", "caller-eof", "caller-rst", "owner-eof"])
            # the NEXT timerfd_settime call (the disarming one) fails; sometimes the one after it
            S.sim.inject("timerfd_settime", rng.choice([1, 1, 1, 2]), rng.choice([E.EINVAL, E.EBADF, E.ENOMEM]))
            S.sig("cancel-fault", what, len(ps))
            S.stats["cancel_faults"] += 1
            if what == "reply":
                for p in ps:
                    S.reply(own, p, rng.choice(["result", "error"]))
                S.settle()
            elif what.startswith("caller"):
                S.end(cal, what[7:])
                S.settle()
            else:
                S.end(own, "eof")
                S.settle()
            # the deadlines pass: nothing may follow
            S.advance(8 * 10**9)
            S.settle()
            S.sim.inject("timerfd_settime", 0, 0)
            if what == "owner-eof":
                break
            if not cal.closed and not cal.ended:
                S.request(cal, "info")
                S.settle()
                S.end(cal, "eof")
                S.settle()
        st = S.close_all()
        S.check_idle_baseline(st)
        S.shutdown()
        return S.ops[:12]
    sim_case(case, res, body)
