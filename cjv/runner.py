"""Scenario execution (parallel), verdicts, known findings, evidence, replay files."""
import collections, json, multiprocessing, os, random, re, sys, time, traceback

from . import build
from .engine import Session
from .sim import DaemonDied, DaemonExited, Hang, crash_key

VERIF = build.VERIF
KNOWN = os.path.join(VERIF, "known_findings.json")


def tier():
    t = os.environ.get("VERIF_TIER")
    return t if t in ("quick", "thorough") else None


def seed():
    try:
        return int(os.environ.get("VERIF_SEED", "1"))
    except ValueError:
        return 1


def load_known():
    try:
        with open(KNOWN) as fh:
            return json.load(fh)["findings"]
    except FileNotFoundError:
        return []


class Result:
    """outcome of one scenario (picklable)"""
    def __init__(self, case):
        self.case = case
        self.viol = []
        self.stats = collections.Counter()
        self.sigs = set()
        self.reasons = collections.Counter()
        self.inconclusive = None
        self.ops = None
        self.sample = None
        self.wall = 0.0
        self.alloc_count = None
        self.call_counts = None


_REGISTRY = {}


def scenario(name):
    def deco(fn):
        _REGISTRY[name] = fn
        return fn
    return deco


def run_case(case):
    """case = dict(kind=<scenario name>, seed=int, config=..., lane=..., params={...})"""
    res = Result(case)
    t0 = time.time()
    fn = _REGISTRY[case["kind"]]
    try:
        fn(case, res)
    except Exception as e:   # harness bug: never a verdict
        res.inconclusive = "harness exception: %s\n%s" % (e, traceback.format_exc()[-1500:])
    res.wall = time.time() - t0
    return res


def sim_case(case, res, body, session_kw=None):
    """run body(S, rng) against a fresh simd; collects violations incl. crashes"""
    cfgname = case.get("config", "default")
    lane = case.get("lane", "asan")
    binary = build.build(config=cfgname, lane=lane)
    rng = random.Random(case["seed"])
    kw = dict(session_kw or {})
    S = None
    died = None
    try:
        # every fourth case runs without ASan's quarantine (immediate reuse of released memory), unless the case says otherwise
        kw.setdefault("reuse", case.get("reuse", (case.get("params") or {}).get("reuse", lane == "asan" and case["seed"] % 4 == 3)))
        S = Session(binary, config=build.cfg_of(cfgname), seed=case["seed"], fill_byte=case.get("fill_byte"), **kw)
        S.stats["runs_without_quarantine" if S.reuse else "runs_with_quarantine"] += 1
        res.sample = body(S, rng)
    except DaemonDied:
        died = "died"
    except DaemonExited as e:
        died = "exited"
        if S is not None:
            S.v("crash/daemon-left-its-event-loop", "cjet_main returned %r" % (e.status,))
        else:
            # nothing was made to fail (start-up faults are a scenario of their own): a daemon that does not come up is broken
            res.viol.append(("crash/daemon-exited-during-start-up", "cjet_main returned %r with arguments %r" % (e.status, kw.get("args", ("-f",)))))
            return
    except Hang as e:
        res.inconclusive = "hang: %s" % e
        died = "hang"
    if S is None:
        if res.inconclusive is None:
            res.inconclusive = "simd did not start"
        return
    if died == "hang":
        rc, err = S.sim.finish(kill=True)
    else:
        rc, err = S.finish()
    if died != "hang":
        key = crash_key(rc, err)
        if key is not None:
            S.viol.append((S.key_prefix + "crash/" + key, err[:3500]))
        elif died == "died":
            S.viol.append((S.key_prefix + "crash/daemon-vanished", err[-1000:]))
    res.viol = S.viol
    res.stats = S.stats
    res.sigs = S.sigs
    res.reasons = S.reasons
    res.ops = S.ops
    if res.sample is None:
        res.sample = S.ops[:30]


def run_cases(cases, workers=None):
    workers = workers or min(16, os.cpu_count() or 4)
    if len(cases) == 0:
        return []
    # build every needed binary once, up front, in this process
    for cfg, lane in sorted(set((c.get("config", "default"), c.get("lane", "asan")) for c in cases if c.get("sim", True))):
        build.build(config=cfg, lane=lane)
    if workers == 1 or len(cases) == 1:
        return [run_case(c) for c in cases]
    # scheduling only: the longest histories are handed out first and one case at a time, so that a run does not end with two
    # workers going through a chunk of long cases while fourteen sit idle; results come back in the order of `cases`
    def cost(c):
        p = c.get("params") or {}
        n = p.get("n_ops", 0)
        return n if isinstance(n, (int, float)) else 0
    order = sorted(range(len(cases)), key=lambda i: -cost(cases[i]))
    heavy = [i for i in order if cost(cases[i]) >= 1000]
    light = [i for i in order if cost(cases[i]) < 1000]
    light.sort()
    out = [None] * len(cases)
    with multiprocessing.Pool(workers) as pool:
        rh = pool.map_async(run_case, [cases[i] for i in heavy], chunksize=1) if heavy else None
        rl = pool.map(run_case, [cases[i] for i in light], chunksize=max(1, len(light) // (workers * 8))) if light else []
        for i, r in zip(light, rl):
            out[i] = r
        if rh is not None:
            for i, r in zip(heavy, rh.get()):
                out[i] = r
    return out


def report(prop, level, results, rule, t0, tier_name, assumptions=(), extra_cov=None, min_events=None):
    """prints VIOLATION / KNOWN-FINDING lines, writes evidence, returns the exit code"""
    known = [k for k in load_known() if k["property"] == prop]
    seen_known = {}
    unlisted = {}
    inconclusive = []
    stats = collections.Counter()
    sigs = set()
    reasons = collections.Counter()
    samples = []
    for r in results:
        stats.update(r.stats)
        sigs |= r.sigs
        reasons.update(r.reasons)
        if r.inconclusive:
            inconclusive.append((r.case, r.inconclusive))
            continue
        if r.sample is not None and len(samples) < 4:
            samples.append({"case": r.case, "trace": r.sample})
        for key, detail in r.viol:
            full = "%s/%s" % (prop, key)
            hit = None
            for k in known:
                if k.get("status") == "open" and re.search(k["key_regex"], full):
                    hit = k
                    break
            if hit is not None:
                seen_known.setdefault(hit["key_regex"], (hit, full, r.case))
            else:
                unlisted.setdefault(full, (detail, r))
    os.makedirs(os.path.join(VERIF, "replays"), exist_ok=True)
    for rgx, (k, full, case) in seen_known.items():
        print("KNOWN-FINDING: property=%s %s [%s]" % (prop, k["what"], full))
    nviol = 0
    for full, (detail, r) in sorted(unlisted.items()):
        nviol += 1
        name = re.sub(r"[^A-Za-z0-9_.-]+", "_", full)[:120]
        path = os.path.join(VERIF, "replays", "%s.json" % name)
        with open(path, "w") as fh:
            json.dump({"property": prop, "key": full, "detail": detail, "case": r.case, "ops": r.ops,
                       "all_violations_of_case": [v[0] for v in r.viol]}, fh, indent=1, default=str)
        print("VIOLATION property=%s replay=%s" % (prop, path))
        print("  key: %s" % full)
        print("  " + detail[:800].replace("\n", "\n  "))
    evaluations = len(results)
    cov = {
        "evaluations": evaluations,
        "distinct_nontrivial": len(sigs),
        "rule": rule,
        "samples": samples or [{"note": "no sample recorded"}],
        "events": dict(stats),
        "inconclusive": len(inconclusive),
        "known_findings_seen": sorted(seen_known),
    }
    if reasons:
        cov["error_reasons_seen"] = dict(reasons.most_common(60))
    if extra_cov:
        cov.update(extra_cov)
    ev = {"property_id": prop, "tier": tier_name, "seed": seed(), "level": level, "coverage": cov,
          "assumptions": list(assumptions), "wall_s": round(time.time() - t0, 2), "violations": nviol}
    evdir = os.path.join(VERIF, "evidence")
    if os.path.realpath(os.environ.get("VERIF_REPO", "/repo")) != "/repo":
        # a run against a scratch copy of the repository (seeded change, mutant) is no evidence about /repo
        evdir = os.path.join("/tmp", "verif-evidence-of-scratch-runs")
    os.makedirs(evdir, exist_ok=True)
    with open(os.path.join(evdir, "%s.json" % prop), "w") as fh:
        json.dump(ev, fh, indent=1, default=str)
    for case, why in inconclusive[:5]:
        print("INCONCLUSIVE case=%s: %s" % (json.dumps(case, default=str)[:200], why[:1500]))
    print("%s %s: %d cases, %d distinct signatures, %d unlisted violation keys, %d known findings, %d inconclusive, %.1fs"
          % (prop, tier_name, evaluations, len(sigs), nviol, len(seen_known), len(inconclusive), time.time() - t0))
    if nviol:
        return 1
    if len(inconclusive) > max(2, evaluations // 50):
        print("HARNESS-FAILURE: too many inconclusive cases")
        return 2
    if len(sigs) < 2 or (min_events and any(stats[k] < n for k, n in min_events.items())):
        print("HARNESS-FAILURE: the monitors observed too little: %r" % {k: stats[k] for k in (min_events or {})})
        return 2
    return 0
