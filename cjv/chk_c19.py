"""C19 permessage-deflate: lossless round trip, memory safety on corrupt streams, legal negotiation.

The real websocket.c / compression.c / http_connection.c / vendored zlib run in wsx_harness (gcc
ASan+UBSan) as a server-side endpoint on an in-memory buffered_reader; this module is the
independent second endpoint (Python's zlib, own frame codec, own RFC 7692 negotiation rules).

Four oracles, each harness process handles ONE connection (one small group of messages), so that a
sanitizer abort is attributed to the case that caused it:
  s2c      payload -> cjet websocket_send_* -> Python raw inflate == payload; frame shape
  c2s      Python raw deflate -> masked frame(s) -> cjet -> delivered message == payload
  corrupt  mutated / adversarial compressed frames: no sanitizer report, no crash, no hang
  nego     offers from a grammar x levels: the response is legal, and round trips work with exactly
           the negotiated parameters
"""
import base64, collections, hashlib, json, multiprocessing, os, random, re, select, struct
import subprocess, sys, tempfile, time, traceback, zlib

from . import build, runner
from .runner import Result
from .sim import crash_key, default_env

HARNESS_SRC = os.path.join(build.VERIF, "harness", "wsx", "wsx_harness.c")
UNITS = ["websocket.c", "compression.c", "http_connection.c", "http_server.c",
         "http-parser/http_parser.c", "sha1/sha1.c", "base64.c", "utf8_checker.c", "jet_string.c",
         "alloc.c", "linux/jet_endian.c", "linux/jet_string.c", "posix/jet_string.c",
         "linux/random.c",
         "zlib/adler32.c", "zlib/deflate.c", "zlib/inffast.c", "zlib/inflate.c", "zlib/inftrees.c",
         "zlib/trees.c", "zlib/zutil.c"]

# The vendored zlib 1.2.11 calls memcpy(dst, NULL, 0) on every Z_SYNC_FLUSH (trees.c
# _tr_stored_block): UBSan's nonnull-attribute check aborts EVERY compressed send.  That one
# check is therefore switched off for the bulk binary and examined by a dedicated probe case
# with the fully strict binary, so that it is reported once, under its own key, and does not
# mask every other verdict.
RELAXED = ["-fno-sanitize=nonnull-attribute"]

KEY = "dGhlIHNhbXBsZSBub25jZQ=="
ACCEPT = base64.b64encode(hashlib.sha1((KEY + "258EAFA5-E914-47DA-95CA-C5AB0DC85B11").encode()).digest())
TAIL = b"\x00\x00\xff\xff"
PMD = "permessage-deflate"
P_CMWB, P_SMWB = "client_max_window_bits", "server_max_window_bits"
P_CNCT, P_SNCT = "client_no_context_takeover", "server_no_context_takeover"
PARAMS = (P_CMWB, P_SMWB, P_CNCT, P_SNCT)
CMD_TIMEOUT = 60.0
READER_LIMIT = 1 << 20


def binary(strict=False):
    return build.build(kind="wsx_harness", cjet_units=UNITS, extra_sources=[HARNESS_SRC], wraps=[],
                       main_rename=False, name="wsx_harness", lane="asan",
                       extra_flags=[] if strict else RELAXED)


# ---------------------------------------------------------------------------------------------
# harness process

class Died(Exception):
    pass


class HangError(Exception):
    pass


class Wsx:
    def __init__(self, path):
        self.err = tempfile.TemporaryFile()
        self.p = subprocess.Popen([path], stdin=subprocess.PIPE, stdout=subprocess.PIPE,
                                  stderr=self.err, env=default_env(), bufsize=0)
        self.buf = b""
        self.ops = []
        self.last = None
        self._read_until(lambda e: e.get("ev") == "hello")

    def _line(self):
        deadline = time.time() + CMD_TIMEOUT
        while b"\n" not in self.buf:
            left = deadline - time.time()
            if left <= 0:
                raise HangError("no answer to %r within %ds" % (self.last, CMD_TIMEOUT))
            r, _, _ = select.select([self.p.stdout], [], [], left)
            if not r:
                continue
            chunk = os.read(self.p.stdout.fileno(), 1 << 18)
            if not chunk:
                raise Died()
            self.buf += chunk
        line, self.buf = self.buf.split(b"\n", 1)
        return line

    def _read_until(self, pred):
        evs = []
        while True:
            e = json.loads(self._line())
            evs.append(e)
            if pred(e):
                return evs

    def cmd(self, line):
        self.last = line[:60]
        self.ops.append(line if len(line) <= 400 else line[:400] + "...(%d chars)" % len(line))
        try:
            self.p.stdin.write(line.encode() + b"\n")
        except (BrokenPipeError, OSError):
            raise Died()
        evs = self._read_until(lambda e: e.get("ev") == "done")
        return evs

    def finish(self, kill=False):
        if not kill:
            try:
                self.p.stdin.write(b"quit\n")
                self.p.stdin.close()
            except (BrokenPipeError, OSError):
                pass
        else:
            self.p.kill()
        try:
            rc = self.p.wait(timeout=CMD_TIMEOUT)
        except subprocess.TimeoutExpired:
            self.p.kill()
            self.p.wait()
            rc = "hang"
        try:
            self.p.stdout.close()
        except Exception:
            pass
        self.err.seek(0)
        err = self.err.read().decode("utf-8", "replace")
        self.err.close()
        return rc, err


_LEAK = re.compile(r"(?:Direct|Indirect) leak of \d+ byte\(s\) in \d+ object\(s\) allocated from:\n((?:\s+#\d+ .*\n)+)")
_FR = re.compile(r"#\d+\s+0x[0-9a-f]+\s+in\s+(\S+)")
_SKIPFN = re.compile(r"^(__interceptor_|__asan|__sanitizer|malloc$|calloc$|realloc$|free$|memcpy$|memmove$|"
                     r"zcalloc$|zcfree$)")


def sanitizer_keys(rc, err, shape):
    """-> list of (key, detail) for the process's exit; leaks are keyed by allocation site"""
    out = []
    if "LeakSanitizer" in err and "ERROR: AddressSanitizer" not in err and "runtime error:" not in err:
        sites = []
        for m in _LEAK.finditer(err):
            fns = [f for f in _FR.findall(m.group(1)) if not _SKIPFN.match(f)]
            site = fns[0] if fns else "?"
            if site not in sites:
                sites.append(site)
        for s in sites or ["?"]:
            out.append(("leak/allocated-in:%s:%s" % (s, shape), err[:3000]))
        return out
    k = crash_key(rc, err)
    if k is None:
        return out
    kind, _, frames = k.partition("@")
    top = frames.split("<-")[0] if frames else "?"
    out.append(("crash/%s@%s:%s" % (kind, top, shape), "full key %s\n%s" % (k, err[:3000])))
    return out


# ---------------------------------------------------------------------------------------------
# frames, payloads, reference deflate endpoint

def client_frame(opcode, payload, fin=True, rsv1=False, mask=None, rsv23=0, masked=True, len_enc=None):
    b0 = (0x80 if fin else 0) | (0x40 if rsv1 else 0) | (rsv23 << 4) | opcode
    n = len(payload)
    enc = len_enc or ("7" if n < 126 else "16" if n < 65536 else "64")
    mb = 0x80 if masked else 0
    if enc == "7":
        hdr = bytes([b0, mb | n])
    elif enc == "16":
        hdr = bytes([b0, mb | 126]) + struct.pack(">H", n)
    else:
        hdr = bytes([b0, mb | 127]) + struct.pack(">Q", n)
    if not masked:
        return hdr + payload
    mask = mask or b"\x12\x34\x56\x78"
    body = bytes(payload[i] ^ mask[i & 3] for i in range(n)) if n < 64 else _xor(payload, mask)
    return hdr + mask + body


def _xor(data, mask):
    n = len(data)
    m = (mask * (n // 4 + 1))[:n]
    return (int.from_bytes(data, "big") ^ int.from_bytes(m, "big")).to_bytes(n, "big")


def parse_server_frame(b):
    """-> (info dict, problems list) for the bytes of ONE writev of the server"""
    prob = []
    if len(b) < 2:
        return None, ["shorter-than-a-header"]
    fin, rsv1, rsv23, op = b[0] >> 7, (b[0] >> 6) & 1, (b[0] >> 4) & 3, b[0] & 15
    masked, l7 = b[1] >> 7, b[1] & 127
    off = 2
    if l7 == 126:
        if len(b) < 4:
            return None, ["truncated-header"]
        n = struct.unpack(">H", b[2:4])[0]
        off = 4
        if n < 126:
            prob.append("length-not-minimally-encoded")
    elif l7 == 127:
        if len(b) < 10:
            return None, ["truncated-header"]
        n = struct.unpack(">Q", b[2:10])[0]
        off = 10
        if n < 65536:
            prob.append("length-not-minimally-encoded")
        if n >> 63:
            prob.append("length-msb-set")
    else:
        n = l7
    if masked:
        prob.append("masked")
        off += 4
    if len(b) - off != n:
        prob.append("length-field-does-not-match-bytes-written")
    if not fin:
        prob.append("fin-missing")
    if rsv23:
        prob.append("rsv2-or-rsv3-set")
    return dict(fin=fin, rsv1=rsv1, opcode=op, length=n, payload=b[off:]), prob


def size_class(n):
    if n == 0:
        return "0bytes"
    if n == 1:
        return "1byte"
    if n <= 4:
        return "2..4bytes"
    if n <= 8:
        return "5..8bytes"
    if n <= 16:
        return "9..16bytes"
    if n <= 125:
        return "17..125bytes"
    if n <= 65535:
        return "126..65535bytes"
    return ">=65536bytes"


WORDS = [b"jet", b"path", b"value", b"fetch", b"change", b"add", b"remove", b"state", b"id", b"params",
         b"method", b"result", b"error", b"true", b"false", b"null", b"12345", b"3.1415", b"persons/", b"name"]


def make_payload(rng, cls, n):
    if n == 0:
        return b""
    if cls == "random":
        return rng.getrandbits(8 * n).to_bytes(n, "big")
    if cls == "high":      # literals 144..255 cost 9 bits in a fixed-Huffman block: worst case for tiny messages
        return bytes(rng.randrange(0x90, 0x100) for _ in range(n))
    if cls == "repetitive":
        unit = bytes(rng.randrange(256) for _ in range(rng.choice([1, 1, 2, 3, 7, 64])))
        return (unit * (n // len(unit) + 1))[:n]
    if cls == "zeros":
        return bytes(n)
    if cls == "run":
        return b"a" * n
    if cls == "text":
        out = bytearray()
        while len(out) < n:
            out += rng.choice(WORDS) + b" "
        return bytes(out[:n])
    if cls == "json":
        out = bytearray()
        i = 0
        while len(out) < n:
            out += b'{"jsonrpc":"2.0","id":%d,"method":"%s","params":{"path":"%s%d","value":%d}}' % (
                i, rng.choice(WORDS), rng.choice(WORDS), rng.randrange(1000), rng.randrange(1 << 30))
            i += 1
        return bytes(out[:n])
    if cls == "mixed":
        out = bytearray()
        while len(out) < n:
            k = rng.randrange(1, 400)
            out += make_payload(rng, rng.choice(["random", "repetitive", "text", "json"]), k)
        return bytes(out[:n])
    raise ValueError(cls)


def case_payloads(rng, spec):
    """(class, size) list -> (class, bytes) list; class "again" repeats the first message of the case byte for byte, so that a
    compressor with context takeover refers back across everything that was sent in between"""
    out = []
    for cls, n in spec:
        if cls == "again" and out:
            out.append(("again", out[0][1]))
        else:
            out.append((cls, make_payload(rng, "random" if cls == "again" else cls, n)))
    return out


class RefInflater:
    """the client's view of what the server sends"""
    def __init__(self, wbits, no_takeover):
        self.wbits, self.no_takeover = wbits, no_takeover
        self.d = None

    def inflate(self, data):
        if self.no_takeover or self.d is None:
            self.d = zlib.decompressobj(-self.wbits)
        out = self.d.decompress(data + TAIL)
        if self.d.unused_data or self.d.eof:
            raise zlib.error("stream ended inside the message")
        return out


class RefDeflater:
    """the client's compressor: zlib raw deflate + RFC 7692 7.2.1"""
    def __init__(self, wbits, takeover, level=6, strategy=0, memlevel=8, style="sync"):
        # Python's zlib refuses raw windowBits 8; deflate with a 512-byte window never emits a
        # distance above 512-262=250, which an 8-bit window inflater accepts (self-checked below)
        self.wbits, self.eff = wbits, max(wbits, 9)
        self.takeover, self.level, self.strategy, self.memlevel, self.style = takeover, level, strategy, memlevel, style
        self.c = None
        self.check = None

    def deflate(self, payload):
        if not self.takeover or self.c is None or self.style == "bfinal":
            self.c = zlib.compressobj(self.level, zlib.DEFLATED, -self.eff, self.memlevel, self.strategy)
            self.check = zlib.decompressobj(-self.wbits)
        if self.style == "bfinal":
            # RFC 7692 7.2.3.4: a block with BFINAL=1 followed by an empty stored block header
            d = self.c.compress(payload) + self.c.flush(zlib.Z_FINISH) + b"\x00"
            if zlib.decompressobj(-self.wbits).decompress(d[:-1]) != payload:
                raise AssertionError("reference encoder self-check failed")
            return d
        d = self.c.compress(payload) + self.c.flush(zlib.Z_FULL_FLUSH if self.style == "full" else zlib.Z_SYNC_FLUSH)
        if not d.endswith(TAIL):
            if d == b"" and payload == b"":
                return b"\x00"
            raise AssertionError("reference encoder: no sync tail")
        if self.check.decompress(d) != payload:
            raise AssertionError("reference encoder self-check failed")
        d = d[:-4]
        return d if d else b"\x00"


# ---------------------------------------------------------------------------------------------
# negotiation: grammar, RFC 7692 section 7.1 rules

def http_request(ext_headers):
    lines = ["GET /ws HTTP/1.1", "Host: verif", "Upgrade: websocket", "Connection: Upgrade",
             "Sec-WebSocket-Key: " + KEY, "Sec-WebSocket-Version: 13"]
    for h in ext_headers:
        lines.append("Sec-WebSocket-Extensions: " + h)
    return ("\r\n".join(lines) + "\r\n\r\n").encode("latin-1")


def elem(params, sep="; ", name=PMD):
    """params: list of (name, value or None, rendered or None).  -> structured offer element"""
    txt = name
    for p in params:
        rendered = p[2] if len(p) > 2 and p[2] is not None else (p[0] if p[1] is None else "%s=%s" % (p[0], p[1]))
        txt += sep + rendered
    return dict(name=name, params=[(p[0], p[1]) for p in params], text=txt,
                amb=any(len(p) > 3 and p[3] for p in params))


def classify(e):
    """-> 'other' | 'valid' | 'ambiguous' | 'invalid:<reason>' per RFC 7692 7.1"""
    if e["name"] != PMD:
        return "other"
    if e.get("amb"):
        return "ambiguous"
    seen = set()
    for n, v in e["params"]:
        if n not in PARAMS:
            return "invalid:unknown-parameter"
        if n in seen:
            return "invalid:duplicate-parameter"
        seen.add(n)
        if n in (P_CNCT, P_SNCT):
            if v is not None:
                return "invalid:%s-with-value" % n
        else:
            if v is None:
                if n == P_SMWB:
                    return "invalid:server_max_window_bits-without-value"
            elif not re.fullmatch(r"[1-9][0-9]?", v) or not 8 <= int(v) <= 15:
                return "invalid:%s-value-out-of-range" % n
    return "valid"


def parse_response_ext(value):
    """-> (params dict, problems) of a Sec-WebSocket-Extensions response value"""
    prob = []
    if "," in value:
        prob.append("more-than-one-extension")
    parts = [p.strip(" \t") for p in value.split(";")]
    if parts[0] != PMD:
        prob.append("extension-name")
    got = collections.OrderedDict()
    for p in parts[1:]:
        m = re.fullmatch(r"([A-Za-z_]+)(?:=([0-9A-Za-z]+))?", p)
        if not m:
            prob.append("parameter-syntax")
            continue
        n, v = m.group(1), m.group(2)
        if n in got:
            prob.append("duplicate-parameter:" + n)
        if n not in PARAMS:
            prob.append("unknown-parameter")
        got[n] = v
    for n in (P_CMWB, P_SMWB):
        if n in got:
            v = got[n]
            if v is None or not re.fullmatch(r"[1-9][0-9]?", v) or not 8 <= int(v) <= 15:
                prob.append("window-value-out-of-range:" + n)
    for n in (P_CNCT, P_SNCT):
        if got.get(n) is not None:
            prob.append("takeover-parameter-with-value")
    return got, prob


def illegal_for(resp, e):
    """reasons why the (well-formed) response is not a legal answer to offer element e"""
    off = dict(e["params"])
    out = []
    if P_CMWB in resp:
        if P_CMWB not in off:
            out.append("answers-parameter-not-offered:" + P_CMWB)
        elif off[P_CMWB] is not None and off[P_CMWB].isdigit() and int(resp[P_CMWB]) > int(off[P_CMWB]):
            out.append("window-above-offer:" + P_CMWB)
    if P_SMWB in off and off[P_SMWB] is not None and off[P_SMWB].isdigit():
        if P_SMWB not in resp:
            out.append("ignores-offered:" + P_SMWB)
        elif int(resp[P_SMWB]) > int(off[P_SMWB]):
            out.append("window-above-offer:" + P_SMWB)
    if P_SNCT in off and P_SNCT not in resp:
        out.append("ignores-offered:" + P_SNCT)
    return out


def lenient(e):
    ps = []
    for n, v in e["params"]:
        for known in PARAMS:
            if n.startswith(known):
                ps.append((known, v if (v is not None and v.isdigit() and known in (P_CMWB, P_SMWB)) else None))
                break
    return dict(e, params=ps)


def judge_negotiation(level, elements, resp_headers):
    """-> (violations [(key, detail)], negotiated dict or None)"""
    viol = []
    exts = resp_headers.get("sec-websocket-extensions", [])
    offered_txt = ", ".join(e["text"] for e in elements)
    if not exts:
        return viol, None
    if len(exts) > 1:
        viol.append(("deflate/negotiation-malformed-response:several-extension-headers", "offer %r -> %r" % (offered_txt, exts)))
    resp, prob = parse_response_ext(exts[0])
    for p in prob:
        viol.append(("deflate/negotiation-malformed-response:" + p, "level %d offer %r -> response %r" % (level, offered_txt, exts[0])))
    if prob:
        return viol, None
    if len(exts[0]) > 128:     # websocket.c reserves 128 + 1 bytes; ASan guards the rest
        viol.append(("deflate/negotiation-response-too-long", "%d bytes" % len(exts[0])))
    detail = "level %d, offer %r -> response %r" % (level, offered_txt, exts[0])
    if level == 0:
        viol.append(("deflate/negotiation-accepts-although-compression-disabled", detail))
    classes = [(classify(e), e) for e in elements]
    pmd = [(c, e) for c, e in classes if c != "other"]
    usable = [(c, e) for c, e in pmd if c in ("valid", "ambiguous")]
    if not any(not illegal_for(resp, e) for c, e in usable):
        invalid = [(c, e) for c, e in pmd if c.startswith("invalid:")]
        # an offer element the server MUST decline, read the way a lenient parser would read it
        culprit = [c for c, e in invalid if not illegal_for(resp, lenient(e))]
        # several invalid elements may explain the answer; name the violation after the most specific reason
        culprit.sort(key=lambda c: (0 if c.endswith("-with-value") else 1 if c.endswith("unknown-parameter") else 2))
        if not pmd:
            viol.append(("deflate/negotiation-answers-without-offer", detail))
        elif culprit:
            viol.append(("deflate/negotiation-accepts-invalid-offer:" + culprit[0].split(":", 1)[1], detail))
        elif not usable:
            viol.append(("deflate/negotiation-accepts-invalid-offer:" + pmd[0][0].split(":", 1)[1], detail))
        else:
            # the offer element that explains the response best (fewest discrepancies; first on a tie)
            best = min((illegal_for(resp, e) for c, e in usable), key=len)
            for why in best:
                viol.append(("deflate/negotiation-" + why, detail))
    neg = dict(cmwb=int(resp[P_CMWB]) if P_CMWB in resp else 15,
               smwb=int(resp[P_SMWB]) if P_SMWB in resp else 15,
               cnct=P_CNCT in resp, snct=P_SNCT in resp, text=exts[0])
    return viol, neg


def parse_http_response(raw):
    head, sep, rest = raw.partition(b"\r\n\r\n")
    if not sep:
        return None, None, raw
    lines = head.decode("latin-1").split("\r\n")
    hdr = collections.defaultdict(list)
    for l in lines[1:]:
        k, _, v = l.partition(":")
        hdr[k.strip().lower()].append(v.strip())
    return lines[0], hdr, rest


CM_VALUES = [None] + [str(i) for i in range(8, 16)]
BAD_VALUES = ["7", "16", "0", "1", "100", "08", "015", "", "abc", "1x", "-1", "+9", "9.0", "0x9", "99", "1/"]
UNKNOWN = ["foo", "client_max_window_bitsx", "client_no_context_takeoverx", "server_no_context_takeover_x",
           "server_max_window_bit", "x-webkit-deflate-frame", "client_max_window_bits2=10", "mux=1",
           "client_no_context_takeove", "server_max_window_bitss=10"]


def gen_param(rng, pool=None):
    r = rng.random()
    name = rng.choice(pool or PARAMS)
    if r < 0.07:
        u = rng.choice(UNKNOWN)
        n, _, v = u.partition("=")
        return (n, v or None)
    if name == P_CMWB:
        if r < 0.25:
            return (name, rng.choice(BAD_VALUES))
        return (name, rng.choice(CM_VALUES))
    if name == P_SMWB:
        if r < 0.25:
            return (name, rng.choice(BAD_VALUES + [None]))
        return (name, str(rng.randrange(8, 16)))
    if r < 0.15:
        return (name, rng.choice(["1", "true", "0", ""]))
    return (name, None)


def gen_element(rng):
    r = rng.random()
    if r < 0.06:
        return elem([], name=rng.choice(["x-webkit-deflate-frame", "permessage-bzip2", "permessage-deflat", "permessage-deflatex", "foo"]))
    k = rng.choice([0, 1, 1, 2, 2, 3, 3, 4, 4, 5, 6])
    if rng.random() < 0.6:
        names = list(PARAMS)
        rng.shuffle(names)
        params = [gen_param(rng, [n]) for n in names[:min(k, 4)]]
        while len(params) < k:      # more than four parameters => at least one duplicate / unknown
            params.append(gen_param(rng))
    else:
        params = [gen_param(rng) for _ in range(k)]
    full = []
    for p in params:
        rendered, amb = None, False
        q = rng.random()
        if q < 0.04 and p[1] is not None:
            rendered, amb = "%s = %s" % p, True
        elif q < 0.07 and p[1] is not None and p[1].isdigit():
            rendered, amb = '%s="%s"' % p, True
        full.append((p[0], p[1], rendered, amb))
    sep = rng.choice(["; ", "; ", ";", " ; ", ";  ", ";\t", " ;"])
    e = elem(full, sep=sep)
    if rng.random() < 0.03:
        e["text"] += rng.choice([";", "; ", ";;"])
        e["amb"] = True
    return e


def gen_offer(rng):
    n = rng.choice([1, 1, 1, 1, 2, 2, 3])
    els = [gen_element(rng) for _ in range(n)]
    if n > 1 and rng.random() < 0.25:
        cut = rng.randrange(1, n)
        groups = [els[:cut], els[cut:]]
    else:
        groups = [els]
    sep = rng.choice([", ", ",", " , "])
    return els, [sep.join(e["text"] for e in g) for g in groups]


def systematic_offers():
    out = []
    out.append([elem([])])
    for v in CM_VALUES + BAD_VALUES:
        out.append([elem([(P_CMWB, v)])])
    for v in [None] + [str(i) for i in range(8, 16)] + BAD_VALUES:
        out.append([elem([(P_SMWB, v)])])
    for n in (P_CNCT, P_SNCT):
        for v in (None, "1", "true", ""):
            out.append([elem([(n, v)])])
    for u in UNKNOWN:
        n, _, v = u.partition("=")
        out.append([elem([(n, v or None)])])
    for a in PARAMS:
        out.append([elem([(a, None if a != P_SMWB else "10"), (a, None if a != P_SMWB else "10")])])
        out.append([elem([(a, None if a != P_SMWB else "11"), (P_CNCT, None), (a, "12" if a in (P_CMWB, P_SMWB) else None)])])
    out.append([elem([(P_CMWB, None), (P_SMWB, "10"), (P_CNCT, None), (P_SNCT, None)])])
    out.append([elem([(P_SNCT, None), (P_CNCT, None), (P_SMWB, "15"), (P_CMWB, "15")])])
    out.append([elem([(P_SNCT, None), (P_CNCT, None), (P_SMWB, "9"), (P_CMWB, "8")])])
    out.append([elem([(P_SNCT, None), (P_CNCT, None), (P_SMWB, "9"), (P_CMWB, "8"), ("foo", None)])])
    out.append([elem([(P_CMWB, "9"), ("bogus", None)]), elem([(P_CMWB, None)])])
    out.append([elem([(P_SMWB, "10"), ("bogus", None)]), elem([(P_SMWB, "12")])])
    out.append([elem([(P_SMWB, "10"), ("bogus", None)]), elem([])])
    out.append([elem([(P_CNCT, None), ("bogus", None)]), elem([])])
    out.append([elem([(P_SMWB, "8")]), elem([(P_SMWB, "15")])])
    out.append([elem([], name="x-webkit-deflate-frame")])
    out.append([elem([], name="x-webkit-deflate-frame"), elem([(P_CMWB, None)])])
    out.append([elem([]), elem([(P_CMWB, None)])])
    # an offer that ends in ';' (outside the ABNF, hence 'ambiguous': any answer is legal, no memory error is)
    for txt in (PMD + ";", PMD + "; ", PMD + "; client_max_window_bits;", PMD + "; server_no_context_takeover; "):
        out.append([dict(name=PMD, params=[], text=txt, amb=True)])
    out.append([])
    return out


# ---------------------------------------------------------------------------------------------
# one connection

class Conn:
    def __init__(self, res, holder, path, level, ext_headers, shape, cbmask=3, misalign=0, share=None, slot=0):
        """share: another Conn whose harness process this connection lives in too (slot = which of the process's connections)"""
        self.res, self.shape = res, shape
        self.slot, self.shared = slot, share is not None
        if share is not None:
            self.w = share.w
            share.shared = True
        else:
            self.w = Wsx(path)
            holder["conn"] = self
        self.status, self.headers, self.rest, self.state, self.alive = None, {}, b"", None, False
        self.closed = False
        evs = self.cmd("conn %d %d %d %d" % (level, cbmask, misalign, READER_LIMIT))
        evs = self.cmd("feed " + http_request(ext_headers).hex())
        raw = b"".join(bytes.fromhex(e["hex"]) for e in evs if e["ev"] == "w")
        self.status, self.headers, self.rest = parse_http_response(raw)
        self.alive = evs[-1]["alive"]
        self.state = None
        if self.alive:
            st = [e for e in self.cmd("state") if e["ev"] == "state"]
            self.state = st[0] if st else None

    def cmd(self, line):
        if self.shared:
            self.w.cmd("use %d" % self.slot)
        return self.w.cmd(line)

    def send(self, kind, payload):
        evs = self.cmd("send %s %s" % (kind, payload.hex() if payload else "-"))
        return evs

    def feed(self, data, chunk=0):
        if chunk:
            return self.cmd("feedc %d %s" % (chunk, data.hex()))
        return self.cmd("feed " + data.hex())


def run_conn(res, body, path, shape):
    """runs body(); turns process death / sanitizer output into violations"""
    holder = {}
    hang = False
    try:
        body(holder)
    except Died:
        pass
    except HangError as e:
        hang = True
        res.viol.append(("hang/no-answer-to-command:" + shape, str(e)))
    c = holder.get("conn")
    if c is None:
        if res.inconclusive is None and not res.viol:
            res.inconclusive = "harness process did not start a connection"
        return
    if not hang:
        # all connections of the process are ended: nothing may be left on the books of the capped allocator (memory that is
        # accounted but never given back adds up over the life of a daemon until the cap refuses ordinary requests)
        try:
            hv = [e for e in c.w.cmd("heap") if e.get("ev") == "heap"]
            if hv:
                res.stats["heap_checks_after_last_connection"] += 1
                if hv[0]["bytes"] != 0:
                    res.viol.append(("mem/accounted-heap-not-zero-after-the-last-connection:" + holder.get("shape", shape), "%d bytes accounted with no connection left" % hv[0]["bytes"]))
        except (Died, HangError):
            pass
    rc, err = c.w.finish(kill=hang)
    res.ops = c.w.ops[:60]
    if not hang:
        for k, d in sanitizer_keys(rc, err, holder.get("shape", shape)):
            res.viol.append((k, d))
            res.stats["sanitizer_reports"] += 1


def check_handshake(res, c, level, what):
    if c.status is None or " 101 " not in c.status + " ":
        res.inconclusive = "upgrade failed (%s): %r" % (what, c.status)
        return False
    if c.headers.get("sec-websocket-accept", [""])[0].encode() != ACCEPT:
        res.viol.append(("handshake/wrong-sec-websocket-accept", repr(c.headers)))
    return True


def negotiated_of(c, level, elements):
    viol, neg = judge_negotiation(level, elements, c.headers)
    return viol, neg


def s2c_messages(res, c, neg, payloads, kind, level, tag, keyfn, inf=None):
    """sends payloads, inflates as the client would; first failure ends the connection's verdict"""
    inf = inf or RefInflater(neg["smwb"], neg["snct"])
    for cls, p in payloads:
        evs = c.send(kind, p)
        res.stats["s2c_messages"] += 1
        shape = keyfn(cls, p)
        ws = [e for e in evs if e["ev"] in ("w", "w_absurd")]
        sent = [e for e in evs if e["ev"] == "sent"]
        logs = "; ".join(e["msg"] for e in evs if e["ev"] == "log")
        det = "level %d, negotiated %r, %s payload of %d bytes (%s...), logs: %s" % (level, neg["text"], cls, len(p), p[:24].hex(), logs)
        if len(ws) != 1:
            res.viol.append(("deflate/server-frame-malformed:%d-writes-for-one-message:%s" % (len(ws), shape), det))
            return False
        if ws[0]["ev"] == "w_absurd":
            res.viol.append(("deflate/server-frame-malformed:absurd-length:%s" % shape,
                             det + "; writev iov lengths %r header %s, send returned %r" % (ws[0]["iov"], ws[0]["head"], sent and sent[0].get("ret"))))
            return False
        fr, prob = parse_server_frame(bytes.fromhex(ws[0]["hex"]))
        if fr is not None:
            if not fr["rsv1"]:
                prob.append("rsv1-missing")
            if fr["opcode"] != (1 if kind == "t" else 2):
                prob.append("opcode")
        if prob:
            for pr in prob:
                res.viol.append(("deflate/server-frame-malformed:%s:%s" % (pr, shape), det + "; frame %s" % ws[0]["hex"][:80]))
            return False
        try:
            out = inf.inflate(fr["payload"])
            why = "inflated to %d bytes (%s...)" % (len(out), out[:24].hex())
        except zlib.error as e:
            out = None
            why = "client inflate failed: %s" % e
        if out != p:
            res.viol.append(("deflate/server-to-client-roundtrip-differs:%s" % shape,
                             det + "; frame payload %d bytes %s...; %s" % (fr["length"], fr["payload"][:40].hex(), why)))
            return False
        res.stats["s2c_ok"] += 1
        res.sigs.add(("s2c", level, neg["smwb"], "no-takeover" if neg["snct"] else "takeover", cls, size_class(len(p)),
                      "len7" if fr["length"] < 126 else "len16" if fr["length"] < 65536 else "len64"))
    return True


FRAGS = ["single", "1+rest", "1+10000", "many-small", "halves", "random-cuts", "growing", "shrinking",
         "empty-fragment-first", "empty-fragment-middle", "empty-fragment-last", "with-pings", "2+rest", "rest+1"]


def fragment(rng, d, cls):
    n = len(d)
    if cls.startswith("cuts:"):
        cuts = [min(int(x), n) for x in cls[5:].split(",")]
        return [d[a:b] for a, b in zip([0] + cuts, cuts + [n])]
    if cls == "single" or n < 2:
        return [d]
    if cls == "1+rest" or cls == "1+10000":
        return [d[:1], d[1:]]
    if cls == "2+rest":
        return [d[:2], d[2:]]
    if cls == "rest+1":
        return [d[:-1], d[-1:]]
    if cls == "halves":
        return [d[:n // 2], d[n // 2:]]
    if cls == "many-small":
        out, i = [], 0
        while i < n:
            k = rng.randrange(1, 8) if n < 4000 else rng.randrange(1, 1 + n // 300)
            out.append(d[i:i + k])
            i += k
        return out
    if cls in ("random-cuts", "with-pings"):
        k = rng.randrange(2, 7)
        cuts = sorted(rng.randrange(1, n) for _ in range(k - 1))
        return [d[a:b] for a, b in zip([0] + cuts, cuts + [n])]
    if cls == "growing":
        out, i, k = [], 0, 1
        while i < n:
            out.append(d[i:i + k])
            i += k
            k *= rng.choice([2, 3, 8])
        return out
    if cls == "shrinking":
        out, i, k = [], 0, max(1, n * 2 // 3)
        while i < n:
            out.append(d[i:i + k])
            i += k
            k = max(1, k // 3)
        return out
    if cls == "empty-fragment-first":
        return [b"", d[:n // 2], d[n // 2:]]
    if cls == "empty-fragment-middle":
        return [d[:n // 2], b"", d[n // 2:]]
    if cls == "empty-fragment-last":
        return [d[:n // 2], d[n // 2:], b""]
    raise ValueError(cls)


def frames_of(rng, opcode, frags, compressed, pings=False):
    out = []
    pingn = 0
    for i, f in enumerate(frags):
        mask = bytes(rng.randrange(256) for _ in range(4))
        out.append(client_frame(opcode if i == 0 else 0, f, fin=(i == len(frags) - 1), rsv1=(compressed and i == 0), mask=mask))
        if pings and i < len(frags) - 1 and rng.random() < 0.7:
            body = b"ping%d" % pingn
            pingn += 1
            out.append(client_frame(9, body, mask=mask))
    return b"".join(out), pingn


def collect_delivery(evs):
    """-> (list of delivered complete messages [(type, bytes)], partial bytes, closed?, pongs)"""
    msgs, cur, curtype = [], b"", None
    closed = False
    pongs = 0
    for e in evs:
        ev = e["ev"]
        if ev in ("text", "binary"):
            msgs.append((ev, bytes.fromhex(e["hex"])))
        elif ev in ("text_frame", "binary_frame"):
            cur += bytes.fromhex(e["hex"])
            curtype = ev[:-6]
            if e.get("last"):
                msgs.append((curtype, cur))
                cur = b""
        elif ev in ("ws_error", "br_close", "close_received", "reader_error"):
            closed = True
        elif ev == "w":
            b = bytes.fromhex(e["hex"])
            if b and b[0] & 15 == 10:
                pongs += 1
    return msgs, cur, closed, pongs


def c2s_messages(res, c, neg, rng, payloads, kind, level, frag, style, chunk, keysuffix, compressed=True,
                 zlevel=6, strategy=0, wbits=None, takeover=None, ref=None):
    wb = min(wbits, neg["cmwb"]) if wbits else neg["cmwb"]
    tk = (not neg["cnct"]) if takeover is None else takeover
    ref = ref or RefDeflater(wb, tk, zlevel, strategy, style=style)
    opcode = 1 if kind == "t" else 2
    for cls, p in payloads:
        d = ref.deflate(p) if compressed else p
        frags = fragment(rng, d, frag)
        wire, npings = frames_of(rng, opcode, frags, compressed, pings=(frag == "with-pings"))
        evs = c.feed(wire, chunk)
        res.stats["c2s_messages"] += 1
        msgs, partial, closed, pongs = collect_delivery(evs)
        logs = "; ".join(e["msg"] for e in evs if e["ev"] == "log")
        det = ("level %d, negotiated %r, client window %d takeover %s zlib level %d strategy %d style %s; %s payload of %d bytes (%s...), "
               "compressed %d bytes in fragments %r, fed in chunks of %d; logs: %s"
               % (level, neg["text"], wb, tk, zlevel, strategy, style, cls, len(p), p[:24].hex(), len(d),
                  [len(f) for f in frags][:12], chunk, logs))
        want = ("text" if kind == "t" else "binary", p)
        if msgs == [want] and not partial and not closed:
            if npings != pongs:
                res.viol.append(("ws/ping-inside-fragmented-message-not-answered:" + keysuffix, det + "; %d pings, %d pongs" % (npings, pongs)))
                return False
            res.stats["c2s_ok"] += 1
            res.sigs.add(("c2s", level, wb, "takeover" if tk else "no-takeover", cls, size_class(len(p)), frag,
                          "z%d/%d" % (zlevel, strategy), style, "chunk%d" % chunk, "comp" if compressed else "plain"))
            continue
        if closed and not msgs:
            res.viol.append(("deflate/client-to-server-valid-message-rejected:" + keysuffix, det + "; events %s" % summarize(evs)))
        else:
            got = msgs[0][1] if msgs else partial
            res.viol.append(("deflate/client-to-server-roundtrip-differs:" + keysuffix,
                             det + "; delivered %d message(s), first %d bytes (%s...); events %s"
                             % (len(msgs), len(got), got[:24].hex(), summarize(evs))))
        return False
    return True


def summarize(evs):
    out = []
    for e in evs:
        if e["ev"] in ("done", "log"):
            continue
        s = e["ev"]
        if "len" in e:
            s += "[%d]" % e["len"]
        if e["ev"] == "w":
            s += ":" + e["hex"][:12]
        out.append(s)
    return " ".join(out[:14])


# ---------------------------------------------------------------------------------------------
# scenarios (one harness process each)

def offer_for(neg_want):
    """simple valid offers used by the s2c / c2s / corrupt oracles"""
    ps = []
    if neg_want.get("cmwb", "absent") != "absent":
        ps.append((P_CMWB, neg_want["cmwb"]))
    if neg_want.get("smwb"):
        ps.append((P_SMWB, neg_want["smwb"]))
    if neg_want.get("cnct"):
        ps.append((P_CNCT, None))
    if neg_want.get("snct"):
        ps.append((P_SNCT, None))
    return elem(ps)


def open_negotiated(res, holder, case, shape):
    p = case["params"]
    e = offer_for(p.get("offer", {}))
    c = Conn(res, holder, case["bin"], p["level"], [e["text"]], shape, misalign=p.get("misalign", 0))
    if not check_handshake(res, c, p["level"], e["text"]):
        return None, None
    viol, neg = judge_negotiation(p["level"], [e], c.headers)
    res.viol.extend(viol)
    if neg is None:
        if not viol:
            res.stats["offer_declined"] += 1
            res.sigs.add(("declined", p["level"], e["text"]))
        return c, None
    return c, neg


def sc_s2c(case, res):
    p = case["params"]
    rng = random.Random(case["seed"])
    payloads = case_payloads(rng, p["payloads"])
    shape = "s2c-payload=" + size_class(len(payloads[0][1]))

    def body(holder):
        holder["shape"] = shape
        c, neg = open_negotiated(res, holder, case, shape)
        if neg is None:
            return

        earlier = []

        def keyfn(cls, pl):
            if earlier and min(earlier) <= 16:      # a tiny message may leave output behind in the deflater
                return "message-after-payload=" + size_class(min(earlier))
            return "payload=" + size_class(len(pl))
        # shape of a crash = the message being sent when the process died
        inf = RefInflater(neg["smwb"], neg["snct"])
        for i, (cls, pl) in enumerate(payloads):
            holder["shape"] = "s2c-payload=" + size_class(len(pl))
            if not s2c_messages(res, c, neg, [(cls, pl)], p["kind"], p["level"], "s2c", keyfn, inf):
                return
            earlier.append(len(pl))
    run_conn(res, body, case["bin"], shape)
    res.sample = dict(case=p, ops=(res.ops or [])[:6])


def sc_c2s(case, res):
    p = case["params"]
    rng = random.Random(case["seed"])
    payloads = case_payloads(rng, p["payloads"])
    style = p.get("style", "sync")
    suffix = p["frag"] if p["frag"] == "single" else "fragmented:" + p["frag"].split(":")[0]
    if style == "bfinal":
        suffix = "bfinal-block:" + suffix
    if not p.get("compressed", True):
        suffix = "uncompressed-message:" + suffix
    shape = "c2s-" + ("single" if p["frag"] == "single" else "fragmented")

    def body(holder):
        c, neg = open_negotiated(res, holder, case, shape)
        if neg is None:
            return
        c2s_messages(res, c, neg, rng, payloads, p["kind"], p["level"], p["frag"], style, p.get("chunk", 0), suffix,
                     compressed=p.get("compressed", True), zlevel=p.get("zlevel", 6), strategy=p.get("strategy", 0),
                     wbits=p.get("wbits"), takeover=p.get("takeover"))
    run_conn(res, body, case["bin"], shape)
    res.sample = dict(case=p, ops=[o[:120] for o in (res.ops or [])[:5]])


MUTATIONS = ["bitflip", "bitflips", "truncate", "random-bytes", "insert", "delete", "garbage", "bomb", "bomb-fragmented",
             "small-then-large", "all-empty-fragments", "empty-compressed", "rsv1-on-continuation", "rsv1-on-control",
             "unfinished-then-new", "continuation-without-start", "reserved-block-type", "stored-len-mismatch",
             "distance-too-far", "huge-length-header", "tail-only", "repeat-tail", "eof-mid-fragment", "eof-mid-frame",
             "valid-then-corrupt"]


MUTATED_HOWS = ("bitflip", "bitflips", "truncate", "random-bytes", "insert", "delete", "garbage", "valid-then-corrupt")
FRAGMENTED_HOWS = ("bomb-fragmented", "small-then-large", "all-empty-fragments", "rsv1-on-continuation",
                   "unfinished-then-new", "continuation-without-start", "eof-mid-fragment")


def mutate(rng, d, how):
    b = bytearray(d)
    if how == "bitflip" and b:
        i = rng.randrange(len(b) * 8)
        b[i // 8] ^= 1 << (i % 8)
    elif how == "bitflips" and b:
        for _ in range(rng.randrange(2, 12)):
            i = rng.randrange(len(b) * 8)
            b[i // 8] ^= 1 << (i % 8)
    elif how == "truncate":
        b = b[:rng.randrange(0, max(1, len(b)))]
    elif how == "random-bytes" and b:
        for _ in range(rng.randrange(1, 6)):
            b[rng.randrange(len(b))] = rng.randrange(256)
    elif how == "insert":
        i = rng.randrange(len(b) + 1)
        b[i:i] = bytes(rng.randrange(256) for _ in range(rng.randrange(1, 20)))
    elif how == "delete" and len(b) > 2:
        i = rng.randrange(len(b) - 1)
        del b[i:i + rng.randrange(1, min(16, len(b) - i))]
    elif how == "garbage":
        b = bytearray(rng.randrange(256) for _ in range(rng.choice([1, 2, 3, 5, 17, 100, 1000, 5000])))
    return bytes(b)


def sc_corrupt(case, res):
    p = case["params"]
    rng = random.Random(case["seed"])
    how = p["how"]
    fragd = how in FRAGMENTED_HOWS or (p.get("fragmented") and how in MUTATED_HOWS)
    shape = "corrupt-" + ("fragmented" if fragd else "single")

    def body(holder):
        c, neg = open_negotiated(res, holder, case, shape)
        if neg is None:
            return
        ref = RefDeflater(neg["cmwb"], not neg["cnct"], p.get("zlevel", 6))
        opcode = 1 if p["kind"] == "t" else 2
        cls, n = p["payload"]
        pl = make_payload(rng, cls, n)
        wire = b""
        if how == "valid-then-corrupt" or p.get("prefix_valid"):
            wire += frames_of(rng, opcode, [ref.deflate(make_payload(rng, "json", 300))], True)[0]
        d = ref.deflate(pl)
        eof = False
        if how in MUTATED_HOWS:
            m = mutate(rng, d, how if how != "valid-then-corrupt" else rng.choice(["bitflips", "truncate", "garbage"]))
            frags = fragment(rng, m, p.get("frag", "single")) if p.get("fragmented") else [m]
            wire += frames_of(rng, opcode, frags, True)[0]
        elif how == "bomb":
            z = zlib.compressobj(9, zlib.DEFLATED, -max(9, neg["cmwb"]))
            bomb = (z.compress(bytes(p.get("bomb", 61440))) + z.flush(zlib.Z_SYNC_FLUSH))[:-4]
            wire += frames_of(rng, opcode, [bomb], True)[0]
        elif how == "bomb-fragmented":
            z = zlib.compressobj(9, zlib.DEFLATED, -max(9, neg["cmwb"]))
            bomb = (z.compress(bytes(p.get("bomb", 61440))) + z.flush(zlib.Z_SYNC_FLUSH))[:-4]
            wire += frames_of(rng, opcode, fragment(rng, bomb, p.get("frag", "1+rest")), True)[0]
        elif how == "small-then-large":
            junk = bytes(rng.randrange(256) for _ in range(p.get("large", 10000)))
            wire += frames_of(rng, opcode, [d[:p.get("small", 1)] or b"\x00", junk], True)[0]
        elif how == "all-empty-fragments":
            wire += frames_of(rng, opcode, [b""] * p.get("count", 2), True)[0]
        elif how == "empty-compressed":
            wire += frames_of(rng, opcode, [b""], True)[0]
        elif how == "rsv1-on-continuation":
            h = len(d) // 2
            wire += client_frame(opcode, d[:h], fin=False, rsv1=True) + client_frame(0, d[h:], fin=True, rsv1=True)
        elif how == "rsv1-on-control":
            ctl = p.get("ctl") or rng.choice([8, 9, 10])
            wire += client_frame(ctl, b"\x03\xe8" + d[:20], rsv1=True)
        elif how == "unfinished-then-new":
            wire += client_frame(opcode, d[:len(d) // 2], fin=False, rsv1=True) + client_frame(opcode, d, fin=True, rsv1=True)
        elif how == "continuation-without-start":
            wire += client_frame(0, d, fin=rng.random() < 0.5, rsv1=rng.random() < 0.5)
        elif how == "reserved-block-type":
            wire += frames_of(rng, opcode, [bytes([0x06 | (rng.randrange(32) << 3)]) + d], True)[0]
        elif how == "stored-len-mismatch":
            wire += frames_of(rng, opcode, [b"\x00" + struct.pack("<HH", 5, rng.randrange(65536)) + b"hello"], True)[0]
        elif how == "distance-too-far":
            # fixed-Huffman block: literal 'a', then a match of length 3 at distance 4097+
            wire += frames_of(rng, opcode, [bytes.fromhex("4b04") + bytes([rng.randrange(256) for _ in range(6)])], True)[0]
        elif how == "huge-length-header":
            n64 = rng.choice([READER_LIMIT + 1, 1 << 31, (1 << 32) + 5, (1 << 63) - 1, (1 << 64) - 1])
            wire += bytes([0xC0 | opcode, 0xFF]) + struct.pack(">Q", n64) + b"\x01\x02\x03\x04" + d
        elif how == "tail-only":
            wire += frames_of(rng, opcode, [TAIL * rng.randrange(1, 4)], True)[0]
        elif how == "repeat-tail":
            wire += frames_of(rng, opcode, [d + TAIL + TAIL + d], True)[0]
        elif how == "eof-mid-fragment":
            wire += client_frame(opcode, d[:max(1, len(d) // 2)], fin=False, rsv1=True)
            eof = True
        elif how == "eof-mid-frame":
            f = client_frame(opcode, d, fin=True, rsv1=True)
            wire += f[:rng.randrange(1, len(f))]
            eof = True
        else:
            raise ValueError(how)
        evs = c.feed(wire, p.get("chunk", 0))
        res.stats["corrupt_inputs"] += 1
        msgs, partial, closed, pongs = collect_delivery(evs)
        if how == "rsv1-on-control" and not p.get("prefix_valid"):
            # RFC 7692 section 6: RSV1 on a control frame is a protocol error, never an ordinary close / ping / pong
            for e in evs:
                if e["ev"] != "w":
                    continue
                fr, _prob = parse_server_frame(bytes.fromhex(e["hex"]))
                if fr is None:
                    continue
                if fr["opcode"] == 10:
                    res.viol.append(("deflate/control-frame-with-rsv1-answered-with-pong", "opcode %d" % ctl))
                if fr["opcode"] == 8 and len(fr["payload"]) >= 2 and struct.unpack(">H", fr["payload"][:2])[0] != 1002:
                    res.viol.append(("deflate/control-frame-with-rsv1-not-refused-as-protocol-error",
                                     "opcode %d answered with close status %d" % (ctl, struct.unpack(">H", fr["payload"][:2])[0])))
            if not closed:
                res.viol.append(("deflate/control-frame-with-rsv1-accepted", "opcode %d: connection still open" % ctl))
        if eof and not closed:
            evs2 = c.w.cmd("eof")
            closed = any(e["ev"] in ("ws_error", "br_close") for e in evs2)
        elif not closed and rng.random() < 0.5:
            # a surviving endpoint must still be usable: one more valid exchange
            c.send(p["kind"], make_payload(rng, "json", 200))
        res.stats["corrupt_closed" if closed else "corrupt_survived"] += 1
        res.sigs.add(("corrupt", p["level"], how, "closed" if closed else "delivered" if msgs else "pending",
                      "frag" if fragd else "single"))
    run_conn(res, body, case["bin"], shape)
    res.sample = dict(case=p, ops=[o[:120] for o in (res.ops or [])[:5]])


NEGO_PAYLOADS = [("json", 300), ("text", 180)]


def sc_nego(case, res):
    p = case["params"]
    rng = random.Random(case["seed"])
    elements, headers = p["elements"], p["headers"]
    shape = "nego"

    def body(holder):
        c = Conn(res, holder, case["bin"], p["level"], headers, shape)
        res.stats["nego_offers"] += 1
        if not check_handshake(res, c, p["level"], headers):
            return
        viol, neg = judge_negotiation(p["level"], elements, c.headers)
        res.viol.extend(viol)
        exts = c.headers.get("sec-websocket-extensions", [])
        holder["resp"] = exts
        st = c.state or {}
        classes = sorted(set(classify(e).split(":")[0] for e in elements))
        if not exts:
            if st.get("accepted"):
                res.viol.append(("deflate/negotiation-accepted-internally-but-not-announced", "%r state %r" % (headers, st)))
            res.stats["nego_declined"] += 1
            res.sigs.add(("nego", p["level"], "declined", tuple(classes), len(elements)))
            # without the extension an RSV1 frame must be refused and plain messages pass
            pl = make_payload(rng, "json", 120)
            evs = c.feed(client_frame(1, pl, mask=b"\x01\x02\x03\x04"))
            msgs, partial, closed, _ = collect_delivery(evs)
            if msgs != [("text", pl)]:
                res.viol.append(("deflate/plain-message-damaged-without-extension", summarize(evs)))
            evs = c.send("t", pl)
            ws = [e for e in evs if e["ev"] == "w"]
            if len(ws) == 1:
                fr, prob = parse_server_frame(bytes.fromhex(ws[0]["hex"]))
                if fr is None or fr["rsv1"] or fr["payload"] != pl:
                    res.viol.append(("deflate/server-compresses-without-negotiated-extension", ws[0]["hex"][:60]))
            return
        if neg is None:
            return
        res.stats["nego_accepted"] += 1
        if st:
            if st.get("response_strlen", 0) > 128:
                res.viol.append(("deflate/negotiation-response-too-long", repr(st)))
            if st.get("response_strlen") != len(exts[0]):
                res.viol.append(("deflate/negotiation-response-not-terminated", "strlen %r vs header %r" % (st.get("response_strlen"), exts[0])))
        res.sigs.add(("nego", p["level"], "accepted", neg["text"], tuple(classes)))
        holder["shape"] = "nego-roundtrip"
        pls = [(cls, make_payload(rng, cls, n)) for cls, n in NEGO_PAYLOADS]
        ok = s2c_messages(res, c, neg, pls, "t", p["level"], "nego",
                          lambda cls, pl: "negotiated-parameters:" + ("window<15" if neg["smwb"] < 15 else "window=15"))
        if ok:
            pls2 = [(cls, make_payload(rng, cls, n)) for cls, n in NEGO_PAYLOADS + [("repetitive", 3000)]]
            c2s_messages(res, c, neg, rng, pls2, "t", p["level"], "single", "sync", 0,
                         "negotiated-parameters:" + ("window<15" if neg["cmwb"] < 15 else "window=15"),
                         zlevel=9)
    hold = {}

    def body2(holder):
        try:
            body(holder)
        finally:
            hold["resp"] = holder.get("resp")
    run_conn(res, body2, case["bin"], shape)
    res.sample = dict(level=p["level"], headers=headers, response=hold.get("resp"), ops=[o[:100] for o in (res.ops or [])[:3]])


def sc_strict(case, res):
    """the fully strict UBSan binary on plain, valid traffic (see RELAXED)"""
    p = case["params"]
    rng = random.Random(case["seed"])
    shape = "strict-ubsan-valid-traffic"

    def body(holder):
        c, neg = open_negotiated(res, holder, case, shape)
        if neg is None:
            return
        pls = [("json", make_payload(rng, "json", 300)), ("text", make_payload(rng, "text", 100))]
        if p["dir"] == "s2c":
            s2c_messages(res, c, neg, pls, "t", p["level"], "strict", lambda cls, pl: "strict-build")
        else:
            c2s_messages(res, c, neg, rng, pls, "t", p["level"], p.get("frag", "single"), "sync", 0, "strict-build")
        res.sigs.add(("strict", p["dir"], p["level"]))
    run_conn(res, body, case["bin"], shape)
    res.sample = dict(case=p)


def sc_multi(case, res):
    """several connections with DIFFERENT negotiated parameters in one process, as in a server: the same payloads are sent to all
    of them in turn (a broadcast), mixed with messages of their own in both directions; every connection's stream is followed
    by its own reference endpoint (window and context take-over as negotiated for THAT connection)"""
    p = case["params"]
    rng = random.Random(case["seed"])
    shape = "multi"

    def body(holder):
        holder["shape"] = shape
        conns = []
        first = None
        for k, off in enumerate(p["offers"]):
            e = offer_for(off)
            c = Conn(res, holder, case["bin"], p["level"], [e["text"]], shape, share=first, slot=k)
            first = first or c
            if not check_handshake(res, c, p["level"], e["text"]):
                return
            viol, neg = judge_negotiation(p["level"], [e], c.headers)
            res.viol.extend(viol)
            if neg is None:
                continue
            tk = not neg["cnct"]
            conns.append(dict(c=c, neg=neg, inf=RefInflater(neg["smwb"], neg["snct"]), ref=RefDeflater(neg["cmwb"], tk, 6, 0, style="sync"), k=k, n=0))
        if len(conns) < (1 if p.get("reopen") else 2):
            res.stats["multi_too_few_connections"] += 1
            return
        pool = [make_payload(rng, rng.choice(["text", "json", "repetitive", "random", "random"]), rng.choice([0, 8, 40, 120, 300, 600, 900, 2000, 2100, 5000])) for _ in range(4)]
        multi_offers = [{}, {"snct": True}, {"smwb": "9"}, {"smwb": "12", "snct": True}, {"cnct": True}, {"cmwb": "10"}, {"smwb": "15"}, {"smwb": "10"}, {"cmwb": "9", "smwb": "9"}]

        def keyfn(cls, pl):
            return "multi-connection:" + cls

        def s2c(cn, pl, cls):
            holder["shape"] = "multi-s2c"
            cn["n"] += 1
            return s2c_messages(res, cn["c"], cn["neg"], [(cls, pl)], p["kind"], p["level"], "multi", keyfn, cn["inf"])
        for step in range(p.get("steps", 14)):
            r = rng.random()
            if p.get("reopen") and rng.random() < 0.2:
                # one connection ends and another one, with other parameters, takes its place: whatever the process keeps of
                # the old one (buffers, compressor state) must not show in the new one's streams
                cn = rng.choice(conns)
                e = offer_for(rng.choice(multi_offers))
                holder["shape"] = "multi-reopen"
                c = Conn(res, holder, case["bin"], p["level"], [e["text"]], shape, share=first, slot=cn["k"])
                if not check_handshake(res, c, p["level"], e["text"]):
                    return
                viol, neg = judge_negotiation(p["level"], [e], c.headers)
                res.viol.extend(viol)
                conns.remove(cn)
                res.stats["multi_reopened"] += 1
                if neg is not None:
                    conns.append(dict(c=c, neg=neg, inf=RefInflater(neg["smwb"], neg["snct"]), ref=RefDeflater(neg["cmwb"], not neg["cnct"], 6, 0, style="sync"), k=cn["k"], n=0))
                    res.sigs.add(("multi-reopen", p["level"], cn["neg"]["smwb"], neg["smwb"], cn["neg"]["cmwb"], neg["cmwb"]))
                if not conns:
                    return
                continue
            if r < 0.55:
                # the same payload to every connection, in varying order; often one that was broadcast before
                pl = rng.choice(pool) if rng.random() < 0.7 else make_payload(rng, "text", rng.choice([30, 200, 1500]))
                order = conns[:]
                rng.shuffle(order)
                for cn in order:
                    if not s2c(cn, pl, "broadcast"):
                        return
                res.stats["multi_broadcasts"] += 1
                res.sigs.add(("multi-broadcast", p["level"], tuple(sorted(("no-takeover" if c_["neg"]["snct"] else "takeover", c_["neg"]["smwb"]) for c_ in conns)), size_class(len(pl))))
            elif r < 0.8:
                cn = rng.choice(conns)
                if not s2c(cn, make_payload(rng, rng.choice(["text", "json"]), rng.choice([5, 60, 400])), "own"):
                    return
            else:
                cn = rng.choice(conns)
                holder["shape"] = "multi-c2s"
                pl = rng.choice(pool) if rng.random() < 0.5 else make_payload(rng, "json", rng.choice([20, 300]))
                if not c2s_messages(res, cn["c"], cn["neg"], rng, [("multi", pl)], p["kind"], p["level"], "single", "sync", 0, "multi-connection", ref=cn["ref"]):
                    return
        res.stats["multi_sessions"] += 1
    run_conn(res, body, case["bin"], shape)
    res.sample = dict(case=p, ops=[o[:100] for o in (res.ops or [])[:8]])


SCEN = {"s2c": sc_s2c, "c2s": sc_c2s, "corrupt": sc_corrupt, "nego": sc_nego, "strict": sc_strict, "multi": sc_multi}


def run_one(case):
    res = Result({k: v for k, v in case.items() if k != "bin"})
    t0 = time.time()
    try:
        SCEN[case["kind"]](case, res)
    except AssertionError as e:
        res.inconclusive = "reference endpoint self-check: %s" % e
    except Exception as e:
        res.inconclusive = "harness exception: %s\n%s" % (e, traceback.format_exc()[-1500:])
    res.wall = time.time() - t0
    res.stats["cases_" + case["kind"]] += 1
    return res


# ---------------------------------------------------------------------------------------------
# workloads

OFFERS_S2C = [{}, {"snct": True}, {"smwb": "9"}, {"smwb": "10"}, {"smwb": "12"}, {"smwb": "15"},
              {"snct": True, "smwb": "11"}, {"cmwb": None, "cnct": True, "snct": True, "smwb": "13"}, {"smwb": "14"}]
OFFERS_C2S = [{}, {"cnct": True}, {"cmwb": None}, {"cmwb": "8"}, {"cmwb": "9"}, {"cmwb": "10"}, {"cmwb": "11"},
              {"cmwb": "12"}, {"cmwb": "13"}, {"cmwb": "14"}, {"cmwb": "15"}, {"cmwb": None, "cnct": True},
              {"cmwb": "10", "cnct": True, "snct": True, "smwb": "10"}]
CLASSES = ["random", "repetitive", "text", "json", "mixed", "zeros", "high"]


def gen_cases(tier, seed):
    rng = random.Random(seed * 7919 + 19)
    thorough = tier == "thorough"
    cases = []

    def add(scen, fixed=None, **params):
        # fixed: content independent of VERIF_SEED (minimal witnesses must not come and go with the seed)
        cs = rng.getrandbits(48)
        if fixed is not None:
            cs = int(hashlib.sha1(repr(fixed).encode()).hexdigest()[:12], 16)
        cases.append(dict(kind=scen, seed=cs, params=params, fixed=fixed is not None))

    # --- s2c: tiny payloads, one message per process (each may wreck the stream)
    tiny = list(range(0, 17)) + [20, 24, 32]
    for level in (1, 2, 3):
        for n in tiny:
            for cls in (("random", "repetitive", "high") if n else ("random",)):
                for kind in ("t", "b") if (thorough or n < 4) else ("t",):
                    # the follow-up message shows output that the tiny one left behind in the deflater
                    add("s2c", fixed=("tiny", level, n, cls, kind), level=level, kind=kind, offer={}, payloads=[(cls, n), ("text", 40)])
                    if thorough:
                        add("s2c", level=level, kind=kind, offer=rng.choice(OFFERS_S2C), payloads=[(cls, n), ("text", 40)])
    # --- s2c: an empty message that is not the first one (the deflater has nothing to do and said so before)
    for level in (1, 2, 3):
        for offer in ({}, {"snct": True}, {"smwb": "10"}):
            for kind in ("t", "b"):
                det = ("empty-later", level, sorted(offer.items()), kind)
                add("s2c", fixed=det, level=level, kind=kind, offer=offer, payloads=[("text", 40), ("random", 0), ("text", 40)])
                add("s2c", fixed=det, level=level, kind=kind, offer=offer, payloads=[("random", 0), ("random", 0), ("json", 300), ("random", 0)])
    # --- both directions: a later message repeats the first one behind 1..40 KiB of other traffic (back-references over long
    # distances: each side must keep exactly the window that was negotiated for the OTHER side's compressor)
    far_offers = [{}, {"smwb": "9"}, {"smwb": "10", "cmwb": "13"}, {"smwb": "9", "cmwb": None}, {"cmwb": "9"}, {"cmwb": "10", "smwb": "14"},
                  {"smwb": "12", "cmwb": "12"}, {"cmwb": None}]
    for level in (1, 2, 3):
        for oi, offer in enumerate(far_offers):
            for gap in ((700, 3000, 40000) if thorough else (700, 9000)):
                det = ("far-back-reference", level, oi, gap)
                pls = [("random", 600), ("random", gap), ("again", 0), ("text", 50), ("again", 0)]
                add("c2s", fixed=det, level=level, kind="b", offer=offer, frag="single", payloads=pls, zlevel=9)
                add("c2s", fixed=det, level=level, kind="t", offer=offer, frag="halves", payloads=[("json", 600), ("json", gap), ("again", 0)], zlevel=6)
                add("s2c", fixed=det, level=level, kind="b", offer=offer, payloads=pls)
    # --- s2c: frame length boundaries (compressed length 125/126/127, 65535/65536)
    for level in (1, 2, 3):
        for n in range(108, 132, 1 if thorough else 2):
            add("s2c", level=level, kind="b", offer={}, payloads=[("random", n)])
    for level in (2, 3):
        for n in range(65500, 65542, 1 if thorough else 4):
            add("s2c", level=level, kind="b", offer={}, payloads=[("random", n)])
    # --- s2c: sequences (context takeover across messages)
    sizes = [5, 6, 7, 8, 9, 10, 12, 16, 17, 33, 64, 100, 125, 126, 127, 128, 200, 300, 512, 1000, 1500, 4096, 10000, 16384, 32768, 65535, 65536]
    for i in range(3000 if thorough else 100):
        k = rng.randrange(2, 6)
        pls = []
        for _ in range(k):
            n = rng.choice(sizes) if rng.random() < 0.7 else rng.randrange(17, 20000)
            if n > 20000 and rng.random() < 0.5:
                n = rng.randrange(17, 5000)
            cls = rng.choice(CLASSES)
            if n < 17 and cls in ("random", "high", "mixed"):
                cls = "text"      # incompressible payloads below 17 bytes: the dedicated tiny cases
            pls.append((cls, n))
        add("s2c", level=rng.choice((1, 2, 3)), kind=rng.choice("tb"), offer=rng.choice(OFFERS_S2C), payloads=pls)
    # every class at the message limit once per level
    for level in (1, 2, 3):
        for cls in CLASSES:
            add("s2c", level=level, kind="b", offer={}, payloads=[(cls, 65536)])

    # --- several connections with different parameters side by side in one process (broadcasts)
    multi_offers = [{}, {"snct": True}, {"smwb": "9"}, {"smwb": "12", "snct": True}, {"cnct": True}, {"cmwb": "10"}, {"snct": True, "cnct": True}, {"smwb": "15"}]
    for level in (1, 2, 3):
        det = ("multi-witness", level)
        add("multi", fixed=det, level=level, kind="t", offers=[{"snct": True}, {}], steps=12)
        add("multi", fixed=det, level=level, kind="t", offers=[{}, {"snct": True}, {"smwb": "9"}], steps=12)
    for i in range(1500 if thorough else 60):
        add("multi", level=rng.choice((1, 2, 3)), kind=rng.choice("tb"), offers=[rng.choice(multi_offers) for _ in range(rng.choice([2, 2, 3, 4]))], steps=rng.choice([8, 14, 20]))
    # ... and one after the other: connections end and are replaced by connections with other parameters
    for level in (1, 2, 3):
        add("multi", fixed=("multi-reopen-witness", level), level=level, kind="b", offers=[{}, {"smwb": "9"}], steps=30, reopen=True)
    for i in range(1500 if thorough else 60):
        add("multi", level=rng.choice((1, 2, 3)), kind=rng.choice("tb"), offers=[rng.choice(multi_offers) for _ in range(rng.choice([1, 2, 3]))], steps=rng.choice([14, 24, 40]), reopen=True)

    # --- c2s
    def c2s_payloads(frag):
        k = rng.randrange(1, 4)
        out = []
        for _ in range(k):
            cls = rng.choice(CLASSES + ["empty", "1byte"])
            if cls == "empty":
                out.append(("random", 0))
            elif cls == "1byte":
                out.append(("random", 1))
            else:
                r = rng.random()
                n = rng.choice([2, 5, 30, 125, 126, 127, 300, 1000, 5000]) if r < 0.6 else rng.randrange(2, 70000) if r < 0.75 else rng.choice([65535, 65536, 20000])
                if frag == "1+10000":
                    cls, n = "random", rng.randrange(10001, 14000)
                out.append((cls, n))
        return out
    for frag in FRAGS:
        reps = (250 if thorough else 16) * (4 if frag == "single" else 1)
        for i in range(reps):
            level = rng.choice((1, 2, 3))
            add("c2s", level=level, kind=rng.choice("tb"), offer=rng.choice(OFFERS_C2S), frag=frag,
                payloads=c2s_payloads(frag), zlevel=rng.choice([0, 1, 6, 9]), strategy=rng.choice([0, 0, 0, 1, 2, 3, 4]),
                chunk=rng.choice([0, 0, 0, 1, 7, 1000]), style=rng.choice(["sync", "sync", "sync", "full"]),
                takeover=rng.choice([None, None, False]), misalign=rng.randrange(8))
    # --- c2s: messages that inflate to EXACTLY the size an inflater's output buffer has after k doublings, for growth rules of the
    # form (f * compressed length + c) * 2^k (a buffer that is filled to its last byte and asked for more)
    def exact_fit(f, c, k, zlevel=6, wbits=15):
        n = 2000
        for _ in range(12):
            co = zlib.compressobj(zlevel, zlib.DEFLATED, -wbits)
            ln = len(co.compress(b"a" * n) + co.flush(zlib.Z_SYNC_FLUSH)) - 4
            n2 = (f * ln + c) * (1 << k)
            if n2 == n:
                return n
            n = n2
        return None
    for level in (1, 2, 3):
        for (f, c) in ((20, 16), (2, 0), (4, 0), (10, 0), (16, 16), (20, 0)):
            for k in ((0, 1, 2, 3) if thorough else (0, 1, 2)):
                n = exact_fit(f, c, k)
                if n is None or n > 60000:
                    continue
                for dn in ((0, -1, 1) if thorough else (0,)):
                    det = ("exact-fit", level, f, c, k, dn)
                    add("c2s", fixed=det, level=level, kind="t", offer={}, frag="single", payloads=[("run", n + dn)], zlevel=6)
                    if thorough or (f, c) == (20, 16):
                        add("c2s", fixed=det, level=level, kind="b", offer={"cnct": True}, frag="halves", payloads=[("text", 30), ("run", n + dn)], zlevel=6)
    # deterministic minimal witnesses (stable inputs, independent of the seed's sampling)
    for level in (1, 2, 3):
        det = ("c2s-witness", level)
        add("c2s", fixed=det, level=level, kind="b", offer={}, frag="1+rest", payloads=[("random", 100)], zlevel=6)
        add("c2s", fixed=det, level=level, kind="t", offer={}, frag="1+10000", payloads=[("random", 10001)], zlevel=6)
        add("c2s", fixed=det, level=level, kind="t", offer={}, frag="halves", payloads=[("json", 400)], zlevel=6)
        add("c2s", fixed=det, level=level, kind="t", offer={}, frag="single", payloads=[("random", 0), ("random", 1), ("text", 50)], zlevel=6)
        add("c2s", fixed=det, level=level, kind="t", offer={}, frag="single", payloads=[("json", 300), ("json", 300), ("json", 300)], zlevel=9)
        add("c2s", fixed=det, level=level, kind="t", offer={"cnct": True}, frag="single", payloads=[("json", 300), ("json", 300)], zlevel=9)
        add("c2s", fixed=det, level=level, kind="t", offer={}, frag="single", style="bfinal", payloads=[("text", 60), ("text", 60)])
        add("c2s", fixed=det, level=level, kind="t", offer={}, frag="single", compressed=False, payloads=[("text", 60), ("json", 600)])
        add("c2s", fixed=det, level=level, kind="t", offer={}, frag="halves", compressed=False, payloads=[("text", 60), ("json", 600)])
        add("c2s", fixed=det, level=level, kind="b", offer={}, frag="with-pings", payloads=[("json", 2000)], zlevel=6)
    # every two-way split (thorough: every three-way split of a short one) of one compressed message
    for level in ((1, 2, 3) if thorough else (3,)):
        for k in range(1, 50):
            add("c2s", fixed=("cut2", level, k), level=level, kind="t", offer={}, frag="cuts:%d" % k, payloads=[("json", 60)], zlevel=6)
        if thorough:
            for a in range(0, 19):
                for b in range(a, 19):
                    add("c2s", fixed=("cut3", level, a, b), level=level, kind="b", offer={}, frag="cuts:%d,%d" % (a, b),
                        payloads=[("text", 24)], zlevel=6)
    # smaller client window than negotiated is legal
    for i in range(200 if thorough else 6):
        add("c2s", level=rng.choice((2, 3)), kind="b", offer={"cmwb": "15"}, frag="single", wbits=rng.randrange(9, 15),
            payloads=[("mixed", rng.randrange(100, 30000)), ("mixed", rng.randrange(100, 30000))], zlevel=rng.choice([1, 9]))

    # --- corrupt
    for how in MUTATIONS:
        reps = 350 if thorough else 14
        if how in ("bitflip", "bitflips", "truncate", "random-bytes", "garbage"):
            reps *= 3
        for i in range(reps):
            fragd = rng.random() < 0.35
            extra = {}
            if how in ("bomb", "bomb-fragmented"):
                extra["bomb"] = rng.choice([61440, 61440, 1 << 20, 1 << 22] if thorough else [61440, 61440, 1 << 20])
                extra["frag"] = rng.choice(["1+rest", "halves", "many-small", "2+rest", "rest+1"])
            if how == "small-then-large":
                extra["small"], extra["large"] = rng.choice([(1, 10000), (1, 30), (2, 64), (10, 100), (100, 1000), (1, 65536), (5, 300)])
            if how == "all-empty-fragments":
                extra["count"] = rng.choice([2, 2, 3, 5])
            extra.setdefault("frag", rng.choice(["halves", "many-small", "shrinking", "rest+1", "2+rest", "random-cuts"]))
            add("corrupt", level=rng.choice((1, 2, 3)), kind=rng.choice("tb"), offer=rng.choice(OFFERS_C2S[:6]), how=how,
                payload=(rng.choice(CLASSES), rng.choice([10, 100, 1000, 5000, 40000])), fragmented=fragd,
                chunk=rng.choice([0, 0, 1, 100]), prefix_valid=rng.random() < 0.3, zlevel=rng.choice([1, 6, 9]), **extra)

    # fixed witnesses: one per mutation and level, content independent of the seed
    for level in (1, 2, 3):
        for how in MUTATIONS:
            variants = [dict(prefix_valid=False)]
            if how == "all-empty-fragments":
                variants = [dict(prefix_valid=False, count=2), dict(prefix_valid=True, count=2)]
            if how == "small-then-large":
                variants = [dict(prefix_valid=False, small=1, large=10000), dict(prefix_valid=False, small=1, large=30)]
            if how in ("bomb", "bomb-fragmented"):
                variants = [dict(prefix_valid=False, bomb=61440, frag="1+rest")]
            if how == "rsv1-on-control":
                variants = [dict(prefix_valid=False, ctl=8), dict(prefix_valid=False, ctl=9), dict(prefix_valid=False, ctl=10)]
            for i, v in enumerate(variants):
                v.setdefault("frag", "halves")
                add("corrupt", fixed=("corrupt-witness", level, how, i), level=level, kind="b", offer={}, how=how,
                    payload=("json", 1000), fragmented=(how in ("bitflips", "truncate")), chunk=0, zlevel=6, **v)

    # --- negotiation
    sysoff = systematic_offers()
    for level in (1, 2, 3):
        for els in sysoff:
            hs = [", ".join(e["text"] for e in els)] if els else []
            add("nego", level=level, elements=els, headers=hs)
    for els in sysoff[:12]:
        add("nego", level=0, elements=els, headers=[", ".join(e["text"] for e in els)] if els else [])
    for i in range(40000 if thorough else 700):
        els, hs = gen_offer(rng)
        add("nego", level=rng.choice((1, 2, 3)), elements=els, headers=hs)

    # --- strict-UBSan probes
    for level in (1, 2, 3):
        add("strict", level=level, dir="s2c", offer={})
        add("strict", level=level, dir="c2s", offer={})
        add("strict", level=level, dir="c2s", offer={}, frag="halves")
    return cases


ASSUMPTIONS = [
    "The daemon itself never enables permessage-deflate (linux_io.c passes compression level 0); the property is decided "
    "on the real websocket.c/compression.c/http_connection.c/zlib units linked into wsx_harness on an in-memory "
    "buffered_reader that mimics buffered_socket.c (armed read request, handler called with exactly the requested bytes "
    "as an exact-size heap copy, len 0 = end of stream).",
    "Reader limit 1 MiB per read request (the real buffered_socket: CONFIG_MAX_MESSAGE_SIZE); messages up to 64 KiB.",
    "Frame callbacks AND message callbacks are registered (as the repository's compression_test does); fragmented "
    "compressed messages are only reachable this way.",
    "UBSan's nonnull-attribute check is disabled in the bulk binary because vendored zlib calls memcpy(dst, NULL, 0) on "
    "every sync flush; 9 probe cases run the fully strict binary on valid traffic and report it under its own key.",
    "Python's zlib cannot produce a raw deflate stream with windowBits 8; for client_max_window_bits=8 the reference "
    "client deflates with a 512-byte window (distances <= 250) and self-checks every message with an 8-bit inflater.",
    "Corrupt-stream oracle: no sanitizer report, no crash, no hang, no leak at exit; no particular close code demanded.",
    "Negotiation oracle: RFC 7692 section 7.1 (server MAY add either no_context_takeover parameter and "
    "server_max_window_bits; client_max_window_bits only if offered; values never above the offer; offers with "
    "unknown / duplicate / invalid parameters MUST be declined); offers with syntax outside RFC 6455's ABNF "
    "(blanks around '=', quoted values, trailing ';') are treated as ambiguous: either answer is accepted.",
]

RULE = ("a case is one harness process = one WebSocket connection with a fixed (oracle, level, offer, payload list, "
        "fragmentation, client deflate settings, mutation), or ('multi') 2-4 connections with different negotiated parameters side by side in one "
        "process, to all of which the same payloads are sent in turn (broadcasts) between messages of their own in both directions, each stream "
        "followed by its own reference endpoint; a signature counts only when the message was actually "
        "exchanged and judged: (direction, level, window bits, takeover, payload class, size class, fragmentation / "
        "frame length encoding / client zlib settings) resp. (corrupt, level, mutation, outcome) resp. "
        "(nego, level, accepted response text | declined, offer classes)")


def main(tier="quick"):
    t0 = time.time()
    seed = runner.seed()
    try:
        relaxed = binary(False)
        strict = binary(True)
    except build.BuildError as e:
        print("HARNESS-FAILURE: wsx_harness does not build: %s" % str(e)[:2000])
        return 2
    cases = gen_cases(tier, seed)
    for c in cases:
        c["bin"] = strict if c["kind"] == "strict" else relaxed
    # big ones first for a short tail
    order = sorted(range(len(cases)), key=lambda i: -sum(n for _, n in cases[i]["params"].get("payloads", [])))
    workers = min(16, os.cpu_count() or 4)
    with multiprocessing.Pool(workers) as pool:
        results = pool.map(run_one, [cases[i] for i in order], chunksize=4)
    # the replay written for a key is the first case that showed it: fixed witnesses and small inputs first
    def simplicity(r):
        p = r.case.get("params", {})
        size = sum(n for _, n in p.get("payloads", [])) + (p.get("payload") or (0, 0))[1] + len(" ".join(p.get("headers", [])))
        return (0 if r.case.get("fixed") else 1, size)
    results.sort(key=simplicity)
    per = collections.Counter()
    for r in results:
        per[r.case["kind"]] += 1
    stats = collections.Counter()
    for r in results:
        stats.update(r.stats)
    extra = {"cases_per_oracle": dict(per),
             "messages": {k: stats[k] for k in ("s2c_messages", "s2c_ok", "c2s_messages", "c2s_ok", "corrupt_inputs",
                                                "corrupt_closed", "corrupt_survived", "nego_offers", "nego_accepted",
                                                "nego_declined", "sanitizer_reports")},
             "harness_binaries": {"bulk": relaxed, "strict": strict}, "repo": build.REPO}
    return runner.report(prop="C19", level="exploration", results=results, rule=RULE, t0=t0, tier_name=tier,
                         assumptions=ASSUMPTIONS, extra_cov=extra,
                         min_events={"nego_offers": 100, "corrupt_inputs": 50, "s2c_messages": 50, "c2s_messages": 50})


def replay(path):
    with open(path) as fh:
        rp = json.load(fh)
    case = rp["case"]
    case["bin"] = binary(case["kind"] == "strict")
    if case["kind"] == "nego":
        case["params"]["elements"] = [dict(e, params=[tuple(x) for x in e["params"]]) for e in case["params"]["elements"]]
    if "payloads" in case["params"]:
        case["params"]["payloads"] = [tuple(x) for x in case["params"]["payloads"]]
    if "payload" in case["params"]:
        case["params"]["payload"] = tuple(case["params"]["payload"])
    r = run_one(case)
    for k, d in r.viol:
        print("C19/" + k)
        print("  " + d[:1500].replace("\n", "\n  "))
    if r.inconclusive:
        print("INCONCLUSIVE", r.inconclusive)
    print("ops:", json.dumps(r.ops, indent=1)[:3000])
    return 1 if r.viol else 0


if __name__ == "__main__":
    if len(sys.argv) > 2 and sys.argv[1] == "replay":
        sys.exit(replay(sys.argv[2]))
    sys.exit(main(sys.argv[1] if len(sys.argv) > 1 else (runner.tier() or "quick")))
