"""C20, file-system half: authorisation matrix + crash / short-write / write-error atomicity of the
credential file, decided on the REAL posix/auth_file.c + authenticate.c linked into
harness/authfs/authfs_harness.c (GNU ld --wrap on the file-system calls).

  fs_results(tier) -> [runner.Result]      (for the caller that merges daemon-level results)
  main(tier)       -> exit code            (stand-alone: runner.report)
  python3 -m cjv.chk_c20_fs replay <replays/...json>   re-runs the case of a replay file

Oracles
 (A) authorisation: Python reference matrix (passwd succeeds iff peer authenticated AND target
     exists AND target not read-only AND (peer == target OR peer is admin)); after success a FRESH
     loader process accepts (target,new), rejects (target,old), every other credential unchanged;
     after a refusal the file bytes and all credentials are unchanged.
 (B) atomicity: a fault-free run of the change gives the list of mutating calls; then every crash
     point (before / after every call), every sampled short count of every write (continued and
     crashed right after, plus crash points of the continued run), every errno in
     {ENOSPC, EIO, EINTR} on every call, short write followed by ENOSPC.  After each run the file
     on disk is loaded by a fresh auth_probe process (real load_passwd_data / credentials_ok): it
     must load and accept exactly the OLD or exactly the NEW credential set; if the operation
     reported success, the NEW set.
"""
import collections, hashlib, json, multiprocessing, os, random, re, shutil, subprocess, sys, tempfile, time
import warnings

with warnings.catch_warnings():
    warnings.simplefilter("ignore")
    import crypt

from . import build, runner
from .sim import default_env, crash_key

HARNESS_SRC = os.path.join(build.VERIF, "harness", "authfs", "authfs_harness.c")
UNITS = ["posix/auth_file.c", "authenticate.c", "groups.c", "response.c", "json/cJSON.c", "alloc.c",
         "jet_string.c", "linux/random.c", "posix/log.c"]
WRAPS = ("open openat creat fopen ftruncate truncate lseek write pwrite writev fsync fdatasync rename "
         "link close unlink syslog mmap").split()
ERRNOS = ("ENOSPC", "EIO", "EINTR")
PAGE = 4096

_BIN = None
_ENV = None


def binary():
    global _BIN, _ENV
    if _BIN is None:
        _BIN = build.build(kind="authfs_harness", cjet_units=UNITS, extra_sources=[HARNESS_SRC], wraps=WRAPS,
                           main_rename=False, name="authfs_harness", lane="asan")
    if _ENV is None:
        _ENV = default_env()
    return _BIN


def hx(s):
    if s is None:
        return "-"
    b = s.encode("utf-8")
    return b.hex() if b else "="


class HarnessProblem(Exception):
    pass


class Hung(Exception):
    pass


def run_harness(args, script, timeout=40):
    """-> (rc, events, stderr)"""
    b = binary()
    try:
        p = subprocess.run([b] + list(args), input=script.encode(), stdout=subprocess.PIPE,
                           stderr=subprocess.PIPE, env=_ENV, timeout=timeout)
    except subprocess.TimeoutExpired:
        raise Hung("authfs_harness %s did not finish within %ds" % (" ".join(args[:1] + args[2:]), timeout))
    events = []
    for line in p.stdout.decode("utf-8", "replace").splitlines():
        if not line.strip():
            continue
        try:
            events.append(json.loads(line))
        except ValueError:
            raise HarnessProblem("unparsable harness output line %r (stderr %r)" % (line[:200], p.stderr[-400:]))
    err = p.stderr.decode("utf-8", "replace")
    if p.returncode == 3:
        raise HarnessProblem("harness refused: %s" % err[-600:])
    return p.returncode, events, err


def sanitizer_key(rc, err):
    """None, or a short stable description of a sanitizer report / abnormal end of the process"""
    if rc in (0, 42, 4) and "ERROR: " not in err and "runtime error:" not in err:
        return None
    k = crash_key(rc, err) or ("exit-%s" % rc)
    kind = k.split("@")[0]
    if kind.startswith("ubsan:") and len(kind) > 34:
        kind = kind[:34].rsplit("-", 1)[0]
    # first frame inside the code under test that is not the allocator or the JSON library
    fn = None
    for m in re.finditer(r"^\s*#\d+\s+0x[0-9a-f]+\s+in\s+(\S+)\s+(\S+)", err, re.M):
        loc = m.group(2)
        if "/src/" in loc and "authfs_harness.c" not in loc and "/alloc.c" not in loc and "/cJSON.c" not in loc \
                and "libsanitizer" not in loc:
            fn = m.group(1)
            break
    return "%s-in-%s" % (kind, fn) if fn else k


# ------------------------------------------------------------------------------------------------
# credential files

_ALNUM = "abcdefghijklmnopqrstuvwxyzABCDEFGHIJKLMNOPQRSTUVWXYZ0123456789"
_SALT = _ALNUM + "./"
_TAILS = ["", "", "x", " with space", "\"q\\uote", "ü€", "0123456789abcdef0123", "{}[],:"]
_NAMES = ["bob", "alice", "john", "carol", "dave", "erin", "op.erator", "svc-user", "x y", "müller",
          "root", "guest", "u1", "an_admin", "ro-user", "fred"]
KINDS = ("plain", "admin", "readonly", "readonly-admin")
METHODS = ("des", "md5", "sha256", "sha512")


def _salt(rng, method):
    r = lambda n: "".join(rng.choice(_SALT) for _ in range(n))
    if method == "des":
        return r(2)
    if method == "md5":
        return "$1$" + r(8) + "$"
    if method == "sha256":
        return "$5$" + r(rng.randint(8, 16)) + "$"
    return "$6$" + r(rng.randint(8, 16)) + "$"


class PwGen:
    """passwords that differ pairwise within their first 6 ASCII characters (DES looks at 8 x 7 bit)"""
    def __init__(self, rng):
        self.rng = rng
        self.used = set()

    def new(self):
        while True:
            pre = "".join(self.rng.choice(_ALNUM) for _ in range(6))
            if pre not in self.used:
                self.used.add(pre)
                return pre + self.rng.choice(_TAILS)


# shapes: (kind, hash method) per user, number of distinct groups, group-name filler, comment padding
SHAPES = {
    "tiny-des": dict(users=[("plain", "des")], groups=1, gfill=0, pad=0, style="compact"),
    "tiny-md5": dict(users=[("admin", "md5")], groups=1, gfill=0, pad=0, style="compact"),
    "two-md5-sha512": dict(users=[("plain", "md5"), ("admin", "sha512")], groups=3, gfill=0, pad=0, style="indent2"),
    "three-mixed": dict(users=[("plain", "sha512"), ("readonly", "md5"), ("admin", "des")], groups=6, gfill=4, pad=0,
                        style="tabs"),
    "four-sha256": dict(users=[("plain", "sha256"), ("admin", "sha256"), ("readonly-admin", "sha512"), ("plain", "des")],
                        groups=12, gfill=8, pad=30, style="indent2"),
    "six-32groups-gt4k": dict(users=[("plain", "sha512"), ("plain", "md5"), ("admin", "sha512"), ("readonly", "des"),
                                     ("readonly-admin", "md5"), ("admin", "des")], groups=32, gfill=14, pad=0,
                              style="indent2"),
    "five-gt8k": dict(users=[("plain", "md5"), ("admin", "sha512"), ("readonly", "sha256"), ("plain", "des"),
                             ("admin", "md5")], groups=32, gfill=30, pad=500, style="tabs"),
    "two-md5-1k": dict(users=[("plain", "md5"), ("admin", "md5")], groups=8, gfill=10, pad=0, style="tabs"),
}


def gen_credfile(seed, shape_id, variant=0):
    """deterministic in (seed, shape_id, variant): {content, users:[{name,pw,kind,method}], ...}"""
    rng = random.Random("c20fs/%s/%s/%s" % (seed, shape_id, variant))
    if shape_id in SHAPES:
        shape = dict(SHAPES[shape_id])
    else:  # random shape
        n = rng.randint(1, 6)
        users = [(rng.choice(KINDS), rng.choice(METHODS)) for _ in range(n)]
        if not any(k in ("plain", "admin") for k, _ in users):
            users[0] = ("plain", users[0][1])
        shape = dict(users=users, groups=rng.randint(1, 32), gfill=rng.choice([0, 3, 12, 30]),
                     pad=rng.choice([0, 0, 20, 200, 900]), style=rng.choice(["compact", "indent2", "tabs"]))
    pwg = PwGen(rng)
    names = rng.sample(_NAMES, len(shape["users"]))
    groups = []
    for i in range(shape["groups"]):
        fill = "".join(rng.choice(_ALNUM) for _ in range(rng.randint(0, shape["gfill"]))) if shape["gfill"] else ""
        groups.append("g%02d%s" % (i, fill))
    users = []
    obj = collections.OrderedDict()
    for name, (kind, method) in zip(names, shape["users"]):
        pw = pwg.new()
        ent = collections.OrderedDict()
        if kind in ("admin", "readonly-admin") and rng.random() < 0.5:
            ent["admin"] = True
        if kind in ("readonly", "readonly-admin"):
            ent["readonly"] = True
        ent["password"] = crypt.crypt(pw, _salt(rng, method))
        if ent["password"] is None:
            raise HarnessProblem("python crypt cannot produce a %s hash" % method)
        pick = lambda: rng.sample(groups, rng.randint(0, len(groups)))
        ent["auth"] = collections.OrderedDict([("fetchGroups", pick()), ("setGroups", pick()), ("callGroups", pick())])
        if kind in ("admin", "readonly-admin") and "admin" not in ent:
            ent["admin"] = True
        if kind == "plain" and rng.random() < 0.3:
            ent["admin"] = False
        if kind in ("plain", "admin") and rng.random() < 0.3:
            ent["readonly"] = False
        if shape["pad"]:
            ent["comment"] = "".join(rng.choice(_ALNUM + "   ") for _ in range(rng.randint(shape["pad"] // 2, shape["pad"])))
        obj[name] = ent
        users.append(dict(name=name, pw=pw, kind=kind, method=method))
    # make sure every group is used at least once (so the loader registers all of them)
    first = obj[names[0]]["auth"]["fetchGroups"]
    for g in groups:
        if not any(g in e["auth"][k] for e in obj.values() for k in e["auth"]):
            first.append(g)

    def render():
        doc = {"users": obj}
        if shape["style"] == "compact":
            return json.dumps(doc, ensure_ascii=False, separators=(",", ":"))
        if shape["style"] == "indent2":
            return json.dumps(doc, ensure_ascii=False, indent=2) + "\n"
        return json.dumps(doc, ensure_ascii=False, indent="\t", separators=(",", ":\t"))
    content = render()
    return dict(seed=seed, shape=shape_id, variant=variant, content=content, users=users, nbytes=len(content.encode("utf-8")))


def _fresh_pw(spec, salt):
    """a new password not equal (in its first 6 characters) to any password of the file"""
    rng = random.Random("c20fs/newpw/%s/%s/%s/%s" % (spec["seed"], spec["shape"], spec["variant"], salt))
    used = set(u["pw"][:6] for u in spec["users"])
    while True:
        pre = "".join(rng.choice(_ALNUM) for _ in range(6))
        if pre not in used:
            return pre + rng.choice(_TAILS)


def atom_ops(spec):
    """the password changes whose update is fault-enumerated: [(label, peer user, target user)]"""
    us = spec["users"]
    ops = []
    plain = [u for u in us if u["kind"] == "plain"]
    admin = [u for u in us if u["kind"] == "admin"]
    anyadmin = [u for u in us if u["kind"] in ("admin", "readonly-admin")]
    if plain:
        ops.append(("self", plain[0]["name"], plain[0]["name"]))
    if anyadmin:
        others = [u for u in us if u["kind"] in ("plain", "admin") and u["name"] != anyadmin[-1]["name"]]
        if others:
            ops.append(("admin-other", anyadmin[-1]["name"], others[-1]["name"]))
    if admin:
        ops.append(("admin-self", admin[0]["name"], admin[0]["name"]))
    return ops


# ------------------------------------------------------------------------------------------------
# fresh-process loader (auth_probe)

_probe_cache = {}


def probe(path, pairs):
    """-> dict(state='loaded'|'unloadable'|'loader-crash', accepted=[bool], log=[...], crash=key, err=...)"""
    with open(path, "rb") as fh:
        content = fh.read()
    ck = (hashlib.sha1(content).hexdigest(), tuple(pairs))
    hit = _probe_cache.get(ck)
    if hit is not None:
        return hit
    script = "".join("%s %s\n" % (hx(u), hx(p)) for u, p in pairs)
    rc, ev, err = run_harness(["probe", path], script)
    logs = [e["msg"].strip() for e in ev if e.get("ev") == "log"]
    load = [e for e in ev if e.get("ev") == "load"]
    sk = sanitizer_key(rc, err)
    if sk is not None or rc != 0 or not load:
        res = dict(state="loader-crash", accepted=None, log=logs, crash=sk or ("exit-%s" % rc), err=err[:1500])
    elif load[0]["ret"] != 0:
        res = dict(state="unloadable", accepted=None, log=logs, crash=None, err="")
    else:
        acc = [e["ok"] for e in ev if e.get("ev") == "probe"]
        if len(acc) != len(pairs) or not any(e.get("ev") == "end" for e in ev):
            raise HarnessProblem("probe answered %d of %d pairs" % (len(acc), len(pairs)))
        res = dict(state="loaded", accepted=acc, log=logs, crash=None, err="")
    if len(_probe_cache) < 4000:
        _probe_cache[ck] = res
    return res


def _excerpt(b, head=260, tail=100):
    if len(b) <= head + tail:
        return repr(b)
    return "%r ... (%d bytes omitted) ... %r" % (b[:head], len(b) - head - tail, b[-tail:])


def _calls_summary(events, limit=14):
    out = []
    for e in events:
        if e.get("ev") == "call" and (e["n"] > 0 or e["name"] in ("lseek",)):
            s = "%s(%s)=%s" % (e["name"], e["args"], e["ret"])
            if e["ret"] < 0:
                s += " " + e["errno"]
            if e.get("fault"):
                s += " [%s]" % e["fault"]
            out.append(("#%d " % e["n"] if e["n"] else "") + s)
        elif e.get("ev") == "crash":
            out.append("CRASH %s call #%d %s" % (e["when"], e["n"], e["name"]))
    if len(out) > limit:
        out = out[:limit] + ["... %d more" % (len(out) - limit)]
    return "; ".join(out)


def _wlen(e):
    m = re.search(r"\blen=(\d+)", e.get("args", ""))
    return int(m.group(1)) if m else None


def numbered_calls(events):
    return [e for e in events if e.get("ev") == "call" and e["n"] > 0]


def position_label(events):
    """names of the mutating calls completed so far, e.g. 'ftruncate+short-write'"""
    parts = []
    for e in numbered_calls(events):
        if e["ret"] < 0:
            parts.append("failed-" + e["name"])
            continue
        nm = e["name"]
        if nm in ("write", "pwrite") and _wlen(e) is not None and e["ret"] < _wlen(e):
            nm = "short-" + nm
        parts.append(nm)
    if not parts:
        return "nothing"
    if len(parts) > 6:
        parts = parts[:6] + ["etc"]
    return "+".join(parts)


# ------------------------------------------------------------------------------------------------
# (B) atomicity

class AtomCtx:
    def __init__(self, spec, op, base):
        self.spec = spec
        self.label, self.peer, self.target = op
        self.tuser = [u for u in spec["users"] if u["name"] == self.target][0]
        self.old = self.tuser["pw"]
        self.new = _fresh_pw(spec, self.label)
        self.base = base
        self.pairs = []
        for u in spec["users"]:
            self.pairs += [(u["name"], u["pw"]), (u["name"], self.new), (u["name"], self.old if u["name"] != self.target else "#" + u["pw"])]
        self.pairs.append(("nobody-" + self.target, self.new))
        self.oldv = []
        self.newv = []
        for (n, p) in self.pairs:
            own = [u for u in spec["users"] if u["name"] == n]
            is_own = bool(own) and own[0]["pw"] == p
            self.oldv.append(is_own)
            if n == self.target:
                self.newv.append(p == self.new)
            else:
                self.newv.append(is_own)
        self.script = "check %s %s\npasswd %s %s %s\ncheck %s %s\ncheck %s %s\n" % (
            hx(self.target), hx(self.old), hx(self.peer), hx(self.target), hx(self.new),
            hx(self.target), hx(self.new), hx(self.target), hx(self.old))

    def run(self, fault_args, content=None, extra_files=None, script=None):
        """one run in a fresh scratch directory -> dict (content / extra_files: the directory as an earlier run left it)"""
        d0 = d = tempfile.mkdtemp(prefix="r", dir=self.base)
        want = getattr(self, "pathlen", None)
        if want:
            # the credential file lives at a path of exactly `want` characters (the longest path the system accepts has
            # PATH_MAX - 1 = 4095): nested directories with names of up to 255 characters
            rest = want - len(d) - len("/passwd.json")
            while rest > 0:
                n = min(255, rest - 1)
                if rest - 1 - n == 1:
                    n -= 1              # never leave a remainder that cannot hold "/" plus one character
                d = d + "/" + "d" * n
                rest -= n + 1
            os.makedirs(d)
        path = os.path.join(d, "passwd.json")
        if want and len(path) != want:
            raise HarnessProblem("could not build a path of %d characters (got %d)" % (want, len(path)))
        try:
            with open(path, "wb") as fh:
                fh.write(self.spec["content"].encode("utf-8") if content is None else content)
            for name, data in (extra_files or {}).items():
                with open(os.path.join(d, name), "wb") as fh:
                    fh.write(data)
            rc, ev, err = run_harness(["run", path] + list(fault_args), script or self.script)
            try:
                with open(path, "rb") as fh:
                    after = fh.read()
            except FileNotFoundError:
                after = None
            leftovers = sorted(f for f in os.listdir(d) if f != "passwd.json")
            left = {}
            for name in leftovers:
                try:
                    with open(os.path.join(d, name), "rb") as fh:
                        left[name] = fh.read()
                except OSError:
                    pass
            if after is None:
                pr = dict(state="missing", accepted=None, log=[], crash=None, err="")
            else:
                pr = probe(path, self.pairs)
            return dict(rc=rc, ev=ev, err=err, after=after, leftovers=leftovers, left=left, probe=pr)
        finally:
            shutil.rmtree(d0, ignore_errors=True)

    def recover(self, run, state, res, desc):
        """the daemon is started again on the directory a crashed update left (credential file plus whatever else lies there) and the
        same authorised change is requested with another new password: it has to be carried out, and to be effective on disk"""
        new2 = _fresh_pw(self.spec, self.label + "/after-restart")
        cur = self.old if state == "old" else self.new
        script = "check %s %s\npasswd %s %s %s\ncheck %s %s\ncheck %s %s\n" % (
            hx(self.target), hx(cur), hx(self.peer), hx(self.target), hx(new2),
            hx(self.target), hx(new2), hx(self.target), hx(cur))
        try:
            r2 = self.run([], content=run["after"], extra_files=run["left"], script=script)
        except Hung as e:
            res.viol.append(("authfile/change-after-restart-does-not-terminate", "%s\n%s" % (desc, e)))
            return
        res.stats["restarts-after-crash"] += 1
        if run["left"]:
            res.stats["restarts-after-crash:with-leftover-files"] += 1
        sk = sanitizer_key(r2["rc"], r2["err"])
        pres = [e for e in r2["ev"] if e.get("ev") == "result" and e.get("op") == "passwd"]
        chk = {e["idx"]: e["ok"] for e in r2["ev"] if e.get("ev") == "result" and e.get("op") == "check"}
        pairs = [(self.target, new2), (self.target, self.old), (self.target, self.new)]
        disk = None
        if r2["after"] is not None:
            d = tempfile.mkdtemp(prefix="p", dir=self.base)
            try:
                pth = os.path.join(d, "passwd.json")
                with open(pth, "wb") as fh:
                    fh.write(r2["after"])
                pr = probe(pth, pairs)
                disk = pr["accepted"] if pr["state"] == "loaded" else pr["state"]
            finally:
                shutil.rmtree(d, ignore_errors=True)

        def wit():
            return "\n".join([
                "first run: passwd by peer user %r for target %r (kind %s), new password %r; %s" % (
                    self.peer, self.target, self.tuser["kind"], self.new, desc),
                "directory after the crash: passwd.json = %s credential set (%d bytes); other files: %r" % (
                    state.upper(), len(run["after"]), {k: len(v) for k, v in run["left"].items()}),
                "second run (fresh process on that directory, no fault): passwd by %r for %r, new password %r" % (self.peer, self.target, new2),
                "reported to the peer: %s" % (json.dumps(pres[0].get("response"))[:300] if pres else "nothing (exit %s)" % r2["rc"]),
                "file-system calls of the second run: %s" % _calls_summary(r2["ev"]),
                "in-process afterwards: new password accepted=%s, previous accepted=%s" % (chk.get(3), chk.get(4)),
                "fresh loader on the file afterwards accepts (second new, original, first new): %r" % (disk,),
                "files left afterwards: %r" % r2["leftovers"],
            ])
        if sk is not None:
            res.viol.append(("mem/%s:change-after-restart" % sk, wit() + "\n" + r2["err"][-1500:]))
            return
        if r2["rc"] != 0 or not pres:
            raise HarnessProblem("restart run: exit %s, %d results: %s" % (r2["rc"], len(pres), r2["err"][-300:]))
        lf = "leftover-files" if run["left"] else "clean-directory"
        if not pres[0]["ok"]:
            res.viol.append(("authz/authorised-change-refused:after-restart-on-crashed-update:%s" % lf, wit()))
        elif chk.get(3) is False or chk.get(4) is True:
            res.viol.append(("authz/change-not-effective:after-restart-on-crashed-update:%s" % lf, wit()))
        elif disk != [True, False, False]:
            res.viol.append(("authfile/change-after-restart-not-on-disk:%s" % lf, wit()))
        else:
            res.stats["restarts-after-crash:change-carried-out-and-effective"] += 1

    def state_of(self, pr):
        if pr["state"] != "loaded":
            return pr["state"]
        if pr["accepted"] == self.oldv:
            return "old"
        if pr["accepted"] == self.newv:
            return "new"
        return "neither"

    def witness(self, fault_desc, run, state):
        res = [e for e in run["ev"] if e.get("ev") == "result" and e.get("op") == "passwd"]
        if res:
            r = res[0]
            rep = "success" if r["ok"] else "error %s" % json.dumps((r.get("response") or {}).get("error"))
        else:
            rep = "nothing (process ended at the injected crash point, exit %s)" % run["rc"]
        pr = run["probe"]
        lines = [
            "operation: passwd by peer user %r for target %r (kind %s, %s hash), new password %r"
            % (self.peer, self.target, self.tuser["kind"], self.tuser["method"], self.new),
            "fault: %s" % fault_desc,
            "reported to the peer: %s" % rep,
            "file-system calls: %s" % _calls_summary(run["ev"]),
            "file on disk afterwards: %s bytes; fresh loader (load_passwd_data in a new process): %s%s"
            % (len(run["after"]) if run["after"] is not None else "MISSING", pr["state"],
               (" log=%r" % pr["log"]) if pr["log"] else ""),
            "credential set on disk: %s (need OLD or NEW%s)" % (state.upper(), "; NEW because success was reported" if res and res[0]["ok"] else ""),
        ]
        if pr["state"] == "loaded":
            acc = ["%s:%s" % (n, p) for (n, p), a in zip(self.pairs, pr["accepted"]) if a]
            lines.append("accepted pairs: %r; OLD set accepts %r; NEW set accepts %r" % (
                acc, ["%s:%s" % q for q, a in zip(self.pairs, self.oldv) if a],
                ["%s:%s" % q for q, a in zip(self.pairs, self.newv) if a]))
        if pr["state"] == "loader-crash":
            lines.append("loader crash: %s\n%s" % (pr["crash"], pr["err"][:900]))
        if run["after"] is not None:
            lines.append("file content afterwards: %s" % _excerpt(run["after"]))
        if run["leftovers"]:
            lines.append("other files left in the directory: %r" % run["leftovers"])
        lines.append("credential file before (%d bytes, shape %s): %s" % (
            self.spec["nbytes"], self.spec["shape"], _excerpt(self.spec["content"].encode("utf-8"), 700, 60)))
        return "\n".join(lines)


def _fault_args(f):
    a = []
    if f.get("short"):
        a.append("short=%d:%d" % tuple(f["short"]))
    if f.get("fail"):
        a.append("fail=%d:%s" % tuple(f["fail"]))
    if f.get("crash_at"):
        a.append("crash-at=%d" % f["crash_at"])
    if f.get("crash_after"):
        a.append("crash-after=%d" % f["crash_after"])
    return a


def _fault_desc(f):
    d = []
    if f.get("short"):
        d.append("mutating call #%d (a write) accepts only %d bytes" % tuple(f["short"]))
    if f.get("fail"):
        d.append("mutating call #%d fails with %s" % tuple(f["fail"]))
    if f.get("crash_at"):
        d.append("process dies immediately BEFORE mutating call #%d" % f["crash_at"])
    if f.get("crash_after"):
        d.append("process dies immediately AFTER mutating call #%d" % f["crash_after"])
    return "; ".join(d) or "none"


def eval_fault_run(ctx, f, res):
    """runs one fault plan, appends violations / stats / sigs to res; returns the run"""
    try:
        run = ctx.run(_fault_args(f))
    except Hung:
        try:
            run = ctx.run(_fault_args(f))
        except Hung as e:
            res.viol.append(("authfile/update-does-not-terminate:%s" % f["kind"], "%s\n%s" % (_fault_desc(f), e)))
            return None
    crashing = bool(f.get("crash_at") or f.get("crash_after"))
    ev = run["ev"]
    state = ctx.state_of(run["probe"])
    calls = numbered_calls(ev)
    faulted = [e for e in calls if e.get("fault")]
    res.stats["runs/" + f["kind"]] += 1
    res.stats["snapshots-probed"] += 1
    res.stats["snapshot-state/" + state] += 1
    # did the fault happen as planned?
    short_effective = True
    if f.get("short"):
        se = [e for e in calls if e["n"] == f["short"][0]]
        if not se or se[0]["name"] not in ("write", "pwrite"):
            res.stats["fault-not-applicable"] += 1
            return run
        short_effective = se[0]["ret"] < (_wlen(se[0]) or 0)
        if not short_effective:
            res.stats["short-count-not-short-in-this-run"] += 1
    if crashing and run["rc"] != 42:
        sk = sanitizer_key(run["rc"], run["err"])
        if sk is None:
            res.stats["crash-point-not-reached"] += 1
            return run
    if f.get("fail") and not any(e.get("fault") == "fail" for e in calls):
        res.stats["fault-not-applicable"] += 1
        return run
    label = position_label(ev)
    passwd_res = [e for e in ev if e.get("ev") == "result" and e.get("op") == "passwd"]
    ok = passwd_res[0]["ok"] if passwd_res else None
    # which call / class for the key
    if crashing:
        fclass = "crash"
        site = "after-" + label
    else:
        fe = faulted[-1] if faulted else None
        if f.get("short") and f.get("fail"):
            fclass = "short-write-then-error"
            site = "%s:%s" % (fe["name"] if fe else "?", f["fail"][1])
        elif f.get("fail"):
            fclass = "error"
            site = "%s:%s" % (fe["name"] if fe else "?", f["fail"][1])
        elif f.get("short") and short_effective:
            fclass = "short-write"
            site = [e for e in calls if e["n"] == f["short"][0]][0]["name"]
        else:
            fclass = "no-fault"
            site = "none"
    idx_class = "none"
    if f.get("short"):
        k, L = f["short"][1], f.get("wlen") or 0
        idx_class = "k=0" if k == 0 else ("k<half" if 2 * k < L else "k>=half") + (":page-multiple" if k % PAGE == 0 else "")
    elif f.get("fail"):
        idx_class = "call-%d" % f["fail"][0]
    pos = f.get("crash_at") or f.get("crash_after")
    if pos:
        idx_class += "/crash-%s-%d" % ("before" if f.get("crash_at") else "after", pos)
    outcome = "%s/%s" % ("crashed" if crashing else ("ok" if ok else "error" if ok is False else "no-result"), state)
    res.sigs.add((ctx.tuser["kind"], ctx.tuser["method"], fclass, idx_class, outcome))
    wit = None

    def v(key):
        nonlocal wit
        if wit is None:
            wit = ctx.witness(_fault_desc(f), run, state)
        res.viol.append((key, wit))

    bad = {"unloadable": "leaves-unloadable-file", "missing": "leaves-no-credential-file",
           "loader-crash": "leaves-file-that-crashes-loader", "neither": "leaves-neither-old-nor-new"}
    if state in bad:
        v("authfile/%s-%s:%s" % (fclass, bad[state], site))
    if crashing and run["rc"] != 42:
        res.viol.append(("mem/%s:before-crash-point:%s" % (sanitizer_key(run["rc"], run["err"]), site),
                         ctx.witness(_fault_desc(f), run, state) + "\nsanitizer report:\n" + run["err"][-1800:]))
    if not crashing:
        sk = sanitizer_key(run["rc"], run["err"])
        if sk is not None:
            res.viol.append(("mem/%s:%s:%s" % (sk, fclass, site),
                             ctx.witness(_fault_desc(f), run, state) + "\nsanitizer report:\n" + run["err"][-1800:]))
        elif run["rc"] != 0:
            raise HarnessProblem("harness exit %s: %s" % (run["rc"], run["err"][-400:]))
        if ok is None and sk is None:
            raise HarnessProblem("no passwd result in a run that was not crashed")
        if ok and state != "new":
            v("authfile/%s-reported-as-success:%s" % (fclass if fclass != "no-fault" else "fault-free-change-not-on-disk", site))
        # in-process view after the operation (observations, plus effectiveness after success)
        chk = {e["idx"]: e["ok"] for e in ev if e.get("ev") == "result" and e.get("op") == "check"}
        if ok:
            if chk.get(3) is False:
                v("authz/new-password-not-valid:in-process")
            if chk.get(4) is True:
                v("authz/old-password-still-valid:in-process")
        elif ok is False:
            if chk.get(3) is True:
                res.stats["obs/error-reported-but-new-password-live-in-memory"] += 1
                res.stats["obs/error-reported-but-new-password-live-in-memory:disk-" + state] += 1
            if f.get("fail") is None and not f.get("short"):
                if getattr(ctx, "pathlen", None) and ctx.pathlen > 4080:
                    # at the longest paths no second name fits next to the file: an update that is refused (and leaves everything
                    # as it was - judged above) is as good as one that is carried out
                    res.stats["obs/longest-path:change-refused-without-fault"] += 1
                else:
                    v("authz/authorised-change-refused:fault-free")
    if run["leftovers"]:
        res.stats["obs/extra-files-left-in-directory:%s" % ("after-crash" if crashing else "no-crash")] += 1
    if crashing and run["rc"] == 42 and state in ("old", "new"):
        # every distinct directory state a crash leaves is restarted on once
        dk = (ctx.label, state, tuple(sorted((k, hashlib.sha1(v).hexdigest()) for k, v in run["left"].items())))
        seen = ctx.__dict__.setdefault("restarted", set())
        if dk not in seen:
            seen.add(dk)
            ctx.recover(run, state, res, _fault_desc(f))
    return run


@runner.scenario("c20fs/baseline")
def _baseline(case, res):
    spec = gen_credfile(case["seed"], case["shape"], case["variant"])
    op = atom_ops(spec)[case["op"]]
    base = tempfile.mkdtemp(prefix="c20fs-", dir=os.environ.get("TMPDIR") or "/tmp")
    try:
        ctx = AtomCtx(spec, op, base)
        ctx.pathlen = case.get("pathlen")
        # the unchanged file must itself load and hold the OLD set
        d = os.path.join(base, "orig")
        os.mkdir(d)
        p = os.path.join(d, "passwd.json")
        with open(p, "wb") as fh:
            fh.write(spec["content"].encode("utf-8"))
        st = ctx.state_of(probe(p, ctx.pairs))
        if st != "old":
            raise HarnessProblem("generated credential file does not hold its own credential set: %s" % st)
        run = eval_fault_run(ctx, dict(kind="fault-free"), res)
        calls = numbered_calls(run["ev"])
        if run["after"] != spec["content"].encode("utf-8") and not calls:
            raise HarnessProblem("the credential file changed but no mutating call was intercepted: the harness is blind")
        res.sample = dict(op=list(op), file_bytes=spec["nbytes"], calls=_calls_summary(run["ev"]),
                          state_after=ctx.state_of(run["probe"]))
        res.ops = dict(calls=[dict(n=e["n"], name=e["name"], len=_wlen(e)) for e in calls],
                       new_size=len(run["after"] or b""))
        res.stats["baseline-runs"] += 1
        res.stats["calls-seq/" + "+".join(e["name"] for e in calls)] += 1
    finally:
        shutil.rmtree(base, ignore_errors=True)


@runner.scenario("c20fs/atom")
def _atom(case, res):
    spec = gen_credfile(case["seed"], case["shape"], case["variant"])
    op = atom_ops(spec)[case["op"]]
    base = tempfile.mkdtemp(prefix="c20fs-", dir=os.environ.get("TMPDIR") or "/tmp")
    try:
        ctx = AtomCtx(spec, op, base)
        ctx.pathlen = case.get("pathlen")
        last = None
        for f in case["faults"]:
            run = eval_fault_run(ctx, f, res)
            if run is None:
                continue
            last = (f, run)
            # crash points of a continued faulty run (calls after the faulted one)
            if f.get("expand") and not (f.get("crash_at") or f.get("crash_after")):
                n0 = (f.get("short") or f.get("fail"))[0]
                for e in numbered_calls(run["ev"]):
                    if e["n"] > n0:
                        for how in ("crash_at", "crash_after"):
                            g = dict(f)
                            g.pop("expand")
                            g["kind"] = f["kind"] + "+later-crash"
                            g[how] = e["n"]
                            eval_fault_run(ctx, g, res)
        if last is not None:
            f, run = last
            res.sample = dict(op=list(op), shape=case["shape"], fault=_fault_desc(f), calls=_calls_summary(run["ev"]),
                              state_after=ctx.state_of(run["probe"]))
    finally:
        shutil.rmtree(base, ignore_errors=True)


def plan_faults(rng, calls, tier, small_all_k):
    """fault plans for one password change whose fault-free run made `calls`"""
    plans = []
    N = len(calls)
    for c in calls:
        plans.append(dict(kind="crash-before", crash_at=c["n"]))
        plans.append(dict(kind="crash-after", crash_after=c["n"]))
    plans.append(dict(kind="crash-before", crash_at=N + 1))      # never reached: control
    for c in calls:
        for en in ERRNOS:
            plans.append(dict(kind="error", fail=(c["n"], en)))
    for c in calls:
        if c["name"] not in ("write", "pwrite") or not c["len"]:
            continue
        L = c["len"]
        if L <= small_all_k:
            ks = set(range(0, L))
        else:
            ks = {0, 1, 2, 3, L // 2 - 1, L // 2, L // 2 + 1, L - 3, L - 2, L - 1}
            for m in range(PAGE, L, PAGE):
                ks |= {m - 1, m, m + 1}
            for m in (512, 1024):
                if m < L:
                    ks.add(m)
            nrand = 20 if tier == "quick" else 150
            ks |= set(rng.randrange(0, L) for _ in range(nrand))
        ks = sorted(k for k in ks if 0 <= k < L)
        deep = set(rng.sample(ks, min(len(ks), 3 if tier == "quick" else 12)))
        deep |= {k for k in (1, L // 2 - 1, L // 2 + 1, L - 1) if k in ks}
        deep |= {m for m in range(PAGE, L, PAGE)}
        for k in ks:
            plans.append(dict(kind="short", short=(c["n"], k), wlen=L, expand=(k in deep)))
            plans.append(dict(kind="short+crash", short=(c["n"], k), wlen=L, crash_after=c["n"]))
        for k in sorted(deep):
            for en in ("ENOSPC", "EIO"):
                plans.append(dict(kind="short+error", short=(c["n"], k), wlen=L, fail=(c["n"] + 1, en)))
    return plans


# ------------------------------------------------------------------------------------------------
# (A) authorisation sequences

def _kind_of(users, name):
    for u in users:
        if u["name"] == name:
            return u["kind"]
    return "unknown"


def expect_passwd(users, peer_user, target):
    """reference matrix -> (allowed, reason)"""
    if peer_user is None:
        return False, "unauthenticated-peer"
    tk = _kind_of(users, target)
    if tk == "unknown":
        return False, "unknown-target"
    if tk in ("readonly", "readonly-admin"):
        return False, "readonly-account"
    if peer_user == target:
        return True, "own-account"
    if _kind_of(users, peer_user) in ("admin", "readonly-admin"):
        return True, "admin"
    return False, "non-admin-other-account"


_REFUSAL_KEYS = {"unauthenticated-peer": "authz/unauthenticated-peer-changed-password",
                 "unknown-target": "authz/unknown-target-change-accepted",
                 "readonly-account": "authz/readonly-account-changed",
                 "non-admin-other-account": "authz/non-admin-changed-other-account"}


def build_authz_script(spec, rng, mode, nops):
    """-> list of steps; each step dict(line=..., kind=..., expectations)"""
    users = spec["users"]
    names = [u["name"] for u in users]
    cur = {u["name"]: u["pw"] for u in users}
    ever = {u["name"]: [u["pw"]] for u in users}
    steps = []
    peers = {}      # id -> user or None
    npeer = [0]
    pwsalt = [0]

    def newpw():
        pwsalt[0] += 1
        while True:
            p = _fresh_pw(spec, "authz-%s-%d-%d" % (mode, rng.random() * 1e9, pwsalt[0]))
            if all(p[:6] != q[:6] for l in ever.values() for q in l):
                return p

    def login(user, pw, why):
        if npeer[0] >= 16:
            return None
        pid = npeer[0]
        npeer[0] += 1
        good = user in cur and cur[user] == pw
        peers[pid] = user if good else None
        steps.append(dict(line="login %d %s %s" % (pid, hx(user), hx(pw)), kind="login", user=user, pw=pw, expect=good,
                          why=why, peer=pid))
        return pid

    def passwd(pid, peer_user, target, direct=False, peer_kind=None):
        new = newpw()
        allowed, reason = expect_passwd(users, peer_user, target)
        old = cur.get(target)
        if direct:
            line = "passwd %s %s %s" % (hx(peer_user), hx(target), hx(new))
        else:
            line = "ppasswd %d %s %s" % (pid, hx(target), hx(new))
        st = dict(line=line, kind="passwd", peer_user=peer_user, target=target, new=new, old=old, expect=allowed,
                  reason=reason, peer_kind=peer_kind or (_kind_of(users, peer_user) if peer_user else "unauthenticated"),
                  before=dict(cur))
        steps.append(st)
        if allowed:
            cur[target] = new
            ever[target].append(new)
        st["after"] = dict(cur)
        steps.append(dict(line=None, kind="snap", of=st))
        # in-process view
        if target in cur:
            steps.append(dict(line="check %s %s" % (hx(target), hx(new)), kind="check", user=target, pw=new,
                              expect=allowed, of=st, what="new"))
            if old is not None:
                steps.append(dict(line="check %s %s" % (hx(target), hx(old)), kind="check", user=target, pw=old,
                                  expect=not allowed, of=st, what="old"))

    if mode == "matrix":
        # one authenticated peer per user, one peer that failed to log in, one that never tried
        pid_of = {}
        for u in users:
            pid_of[u["name"]] = login(u["name"], u["pw"], "valid")
        failed = login(names[0], "x" + cur[names[0]], "wrong-password")
        ghost = login("nobody", "nopass", "unknown-user")
        combos = []
        for u in users:
            for t in names + ["no-such-user"]:
                combos.append(("peer", u["name"], t))
        for t in names + ["no-such-user"]:
            combos.append(("failed", None, t))
            combos.append(("ghost", None, t))
            combos.append(("direct-unauth", None, t))
        rng.shuffle(combos)
        for how, pu, t in combos:
            if how == "peer":
                passwd(pid_of[pu], pu, t)
            elif how == "failed":
                passwd(failed, None, t, peer_kind="failed-login")
            elif how == "ghost":
                passwd(ghost, None, t, peer_kind="unknown-user-login")
            else:
                passwd(None, None, t, direct=True)
    else:
        for _ in range(nops):
            r = rng.random()
            if r < 0.30 or not peers:
                u = rng.choice(names + ["nobody"])
                c = rng.random()
                if u in cur and c < 0.6:
                    login(u, cur[u], "valid")
                elif u in cur and c < 0.8 and len(ever[u]) > 1:
                    login(u, rng.choice(ever[u][:-1]), "stale-password")
                else:
                    login(u, "?" + cur.get(u, "zzzzzz"), "wrong-password")
            elif r < 0.85:
                pid = rng.choice(sorted(peers))
                t = rng.choice(names + names + ["no-such-user"])
                if rng.random() < 0.35 and peers[pid] is not None:
                    t = peers[pid]
                pk = None if peers[pid] is not None else "failed-login"
                passwd(pid, peers[pid], t, peer_kind=pk)
            elif r < 0.92:
                # direct stub peer (user_name as handle_authentication leaves it)
                pu = rng.choice(names + [None])
                passwd(None, pu, rng.choice(names + ["no-such-user"]), direct=True)
            else:
                u = rng.choice(names)
                pw = rng.choice(ever[u])
                steps.append(dict(line="auth %s %s" % (hx(u), hx(pw)), kind="auth", user=u, pw=pw, expect=cur[u] == pw))
    return steps, cur, ever


@runner.scenario("c20fs/authz")
def _authz(case, res):
    spec = gen_credfile(case["seed"], case["shape"], case["variant"])
    rng = random.Random("c20fs/authz/%s/%s/%s/%s" % (case["seed"], case["shape"], case["variant"], case["mode"]))
    steps, final, ever = build_authz_script(spec, rng, case["mode"], case.get("nops", 24))
    users = spec["users"]
    base = tempfile.mkdtemp(prefix="c20fs-", dir=os.environ.get("TMPDIR") or "/tmp")
    try:
        d = os.path.join(base, "cred")
        sd = os.path.join(base, "snaps")
        os.mkdir(d)
        os.mkdir(sd)
        path = os.path.join(d, "passwd.json")
        orig = spec["content"].encode("utf-8")
        with open(path, "wb") as fh:
            fh.write(orig)
        lines = []
        for i, st in enumerate(steps):
            if st["kind"] == "snap":
                st["snap_path"] = os.path.join(sd, "s%03d" % i)
                st["line"] = "snap %s" % hx(st["snap_path"])
            st["idx"] = len(lines) + 1
            lines.append(st["line"])
        rc, ev, err = run_harness(["run", path], "\n".join(lines) + "\n", timeout=120)
        results = {e["idx"]: e for e in ev if e.get("ev") == "result"}
        sk = sanitizer_key(rc, err)

        def wit(st, extra=""):
            r = results.get(st["idx"])
            hist = [s["line"] for s in steps if s["idx"] <= st["idx"] and s["kind"] in ("login", "passwd")]
            readable = []
            for s in steps:
                if s["idx"] > st["idx"]:
                    break
                if s["kind"] == "login":
                    readable.append("peer%d: authenticate(%r,%r) expected %s" % (s["peer"], s["user"], s["pw"], "ok" if s["expect"] else "refusal"))
                elif s["kind"] == "passwd":
                    readable.append("%s: passwd(target=%r,new=%r) by %s expected %s (%s)" % (
                        s["line"].split()[0] + (" peer" + s["line"].split()[1] if s["line"].startswith("pp") else ""),
                        s["target"], s["new"], "user %r" % s["peer_user"] if s["peer_user"] else "an unauthenticated peer (%s)" % s["peer_kind"],
                        "success" if s["expect"] else "refusal", s["reason"]))
            return "\n".join([
                extra,
                "step: %s" % (readable[-1] if readable else st["line"]),
                "answer: %s" % json.dumps(r)[:400],
                "users: %s" % ", ".join("%s(%s,%s)" % (u["name"], u["kind"], u["method"]) for u in users),
                "history (%d requests, last 12): %s" % (len(hist), " | ".join(readable[-12:])),
                "credential file (%d bytes, shape %s): %s" % (spec["nbytes"], spec["shape"], _excerpt(orig, 600, 60)),
            ])

        if sk is not None:
            res.viol.append(("mem/%s:authz-sequence" % sk, "script:\n%s\nstderr:\n%s" % ("\n".join(lines[:60]), err[-2500:])))
        elif rc != 0:
            raise HarnessProblem("harness exit %s: %s" % (rc, err[-400:]))
        all_pw = sorted(set(p for l in ever.values() for p in l))
        pairs = [(u["name"], p) for u in users for p in all_pw] + [("no-such-user", all_pw[0])]
        prev_bytes = orig
        diverged = False
        for st in steps:
            r = results.get(st["idx"])
            if r is None:
                if sk is None:
                    raise HarnessProblem("no result for step %d" % st["idx"])
                break
            if st["kind"] in ("login", "auth"):
                res.stats["authenticate-requests"] += 1
                res.sigs.add(("authn", _kind_of(users, st["user"]), st.get("why", "probe"), "", "ok" if r["ok"] else "refused"))
                if r["ok"] and not st["expect"]:
                    res.viol.append(("authz/authentication-accepted-wrong-credentials", wit(st)))
                elif not r["ok"] and st["expect"]:
                    res.viol.append(("authz/authentication-refused-valid-credentials", wit(st)))
            elif st["kind"] == "passwd":
                res.stats["passwd-requests"] += 1
                tk = _kind_of(users, st["target"])
                rel = "self" if st["peer_user"] == st["target"] else tk
                meth = next((u["method"] for u in users if u["name"] == st["target"]), "")
                res.sigs.add(("authz", st["peer_kind"], rel, meth, "ok" if r["ok"] else "refused"))
                res.stats["passwd-" + ("succeeded" if r["ok"] else "refused")] += 1
                st["got"] = r["ok"]
                if r["ok"] and not st["expect"]:
                    res.viol.append((_REFUSAL_KEYS[st["reason"]], wit(st)))
                elif not r["ok"] and st["expect"]:
                    res.viol.append(("authz/authorised-change-refused:%s-changing-%s" % (st["peer_kind"], rel), wit(st)))
                if r["ok"] != st["expect"]:
                    diverged = True     # the reference model no longer describes the process: stop judging
                    break
            elif st["kind"] == "check":
                of = st["of"]
                if of.get("got") != of["expect"]:
                    continue        # already reported at the passwd step
                if r["ok"] != st["expect"]:
                    if of["expect"]:
                        key = "authz/new-password-not-valid:in-process" if st["what"] == "new" else "authz/old-password-still-valid:in-process"
                    else:
                        key = "authz/refused-change-altered-credentials:in-process"
                    res.viol.append((key, wit(of, "in-process credentials_ok(%r,%r) says %s" % (st["user"], st["pw"], r["ok"]))))
            elif st["kind"] == "snap":
                of = st["of"]
                if not r["ok"]:
                    raise HarnessProblem("snapshot copy failed")
                with open(st["snap_path"], "rb") as fh:
                    b = fh.read()
                if of.get("got") != of["expect"]:
                    prev_bytes = b
                    continue
                if not of["expect"]:
                    if b != prev_bytes:
                        res.viol.append(("authz/refused-change-modified-file", wit(of, "file before the refused request: %s\nfile after: %s" % (_excerpt(prev_bytes), _excerpt(b)))))
                    res.stats["refused-change-file-identical"] += 1
                else:
                    spairs = []
                    for u in users:
                        for p in (of["after"][u["name"]], of["before"][u["name"]], of["new"], of["old"]):
                            if (u["name"], p) not in spairs:
                                spairs.append((u["name"], p))
                    spairs.append(("no-such-user", of["new"]))
                    pr = probe(st["snap_path"], spairs)
                    res.stats["fresh-loader-after-change"] += 1
                    if pr["state"] != "loaded":
                        res.viol.append(("authz/successful-change-left-%s-file" % pr["state"], wit(of, "loader: %r %s" % (pr["log"], pr["err"][-500:]))))
                    else:
                        for (n, p), a in zip(spairs, pr["accepted"]):
                            want = of["after"].get(n) == p
                            if a == want:
                                continue
                            if n == of["target"] and p == of["new"]:
                                key = "authz/new-password-not-valid:fresh-loader"
                            elif n == of["target"] and p == of["old"]:
                                key = "authz/old-password-still-valid:fresh-loader"
                            else:
                                key = "authz/other-account-affected:fresh-loader"
                            res.viol.append((key, wit(of, "fresh loader says (%r,%r) -> %s, expected %s" % (n, p, a, want))))
                prev_bytes = b
        # final state from a fresh process
        if sk is None and not diverged:
            pr = probe(path, pairs)
            res.stats["fresh-loader-final"] += 1
            if pr["state"] != "loaded":
                res.viol.append(("authz/sequence-left-%s-file" % pr["state"], "final file: %s\nlog %r" % (_excerpt(open(path, "rb").read()), pr["log"])))
            else:
                for (n, p), a in zip(pairs, pr["accepted"]):
                    if a != (final.get(n) == p):
                        res.viol.append(("authz/final-credentials-differ-from-model:fresh-loader",
                                         "(%r,%r) -> %s, model says %s\nrequests: %s" % (n, p, a, final.get(n) == p, " | ".join(l for l in lines if not l.startswith(("check", "snap")))[:1500])))
                        break
        res.sample = dict(shape=case["shape"], mode=case["mode"], requests=sum(1 for s in steps if s["kind"] in ("login", "passwd", "auth")),
                          first=[dict(kind=s["kind"], peer=s.get("peer_user") or s.get("user"), target=s.get("target"), expect=s["expect"],
                                      got=results.get(s["idx"], {}).get("ok")) for s in steps if s["kind"] in ("login", "passwd")][:10])
    finally:
        shutil.rmtree(base, ignore_errors=True)


# ------------------------------------------------------------------------------------------------

def _run(case):
    return runner.run_case(case)


def _shape_list(tier, seed):
    named = ["tiny-des", "tiny-md5", "two-md5-sha512", "three-mixed", "four-sha256", "six-32groups-gt4k", "five-gt8k",
             "two-md5-1k"]
    out = [(s, 0) for s in named]
    nrand = 4 if tier == "quick" else 24
    out += [("random", i) for i in range(nrand)]
    return out


def fs_results(tier):
    binary()
    seed = runner.seed()
    rng = random.Random("c20fs/plan/%s/%s" % (seed, tier))
    shapes = _shape_list(tier, seed)
    specs = {}
    for s, v in shapes:
        specs[(s, v)] = gen_credfile(seed, s, v)
    shapes.sort(key=lambda sv: specs[sv]["nbytes"])         # smallest witness first
    base_cases = []
    for s, v in shapes:
        ops = atom_ops(specs[(s, v)])
        if tier == "quick" and len(ops) > 2 and s != "three-mixed":
            ops = ops[:2]
        for i, _ in enumerate(ops):
            base_cases.append(dict(kind="c20fs/baseline", seed=seed, shape=s, variant=v, op=i, sim=False))
    # the same update with the credential file at the longest paths the system accepts (names derived from the path may not fit)
    s0, v0 = shapes[0]
    for plen in ((4095, 4094, 4091) if tier == "quick" else (4095, 4094, 4093, 4092, 4091, 4090, 4088, 4000, 3000)):
        base_cases.append(dict(kind="c20fs/baseline", seed=seed, shape=s0, variant=v0, op=0, sim=False, pathlen=plen))
    authz_cases = []
    for s, v in shapes:
        if len(specs[(s, v)]["users"]) >= 2:
            authz_cases.append(dict(kind="c20fs/authz", seed=seed, shape=s, variant=v, mode="matrix", sim=False))
    nseq = 40 if tier == "quick" else 400
    multi = [sv for sv in shapes if len(specs[sv]["users"]) >= 2]
    for i in range(nseq):
        s, v = multi[i % len(multi)]
        authz_cases.append(dict(kind="c20fs/authz", seed=seed, shape=s, variant=v, mode="seq%d" % i,
                                nops=rng.choice([8, 16, 30]), sim=False))
    workers = min(16, os.cpu_count() or 4)
    results = []
    with multiprocessing.Pool(workers) as pool:
        bres = pool.map(_run, base_cases, chunksize=1)
        results += bres
        atom_cases = []
        small_all_k = 700 if tier == "quick" else 2600
        all_k_budget = 2 if tier == "quick" else 8
        for bc, br in zip(base_cases, bres):
            if br.inconclusive or not br.ops:
                continue
            calls = br.ops["calls"]
            wl = max([c["len"] or 0 for c in calls if c["name"] in ("write", "pwrite")] or [0])
            allk = 0
            if wl <= small_all_k and all_k_budget > 0:
                all_k_budget -= 1
                allk = small_all_k
            plans = plan_faults(rng, calls, tier, allk)
            chunk = 8
            for i in range(0, len(plans), chunk):
                c = dict(bc)
                c["kind"] = "c20fs/atom"
                c["faults"] = plans[i:i + chunk]
                atom_cases.append(c)
        # big chunks last is bad for the tail: interleave authz (long) first
        todo = authz_cases + atom_cases
        results += pool.map(_run, todo, chunksize=1)
    return results


RULE = ("(A) passwd succeeds iff peer authenticated & target exists & target not read-only & (peer==target | peer admin); "
        "after success a fresh loader process accepts (target,new), rejects (target,old), all other credentials unchanged; "
        "after refusal file bytes and credentials unchanged.  (B) after every crash point / short write / errno of the "
        "update's mutating file-system calls the file on disk loads in a fresh process (real load_passwd_data) and its "
        "accepted (user,password) set over all users x {old,new,wrong} equals exactly the OLD or the NEW set; NEW if the "
        "operation reported success")

ASSUMPTIONS = [
    "crash model: after a crash the file holds exactly the effects of the file-system calls completed so far, in "
    "program order; reordering or loss of unsynced page-cache data is NOT modelled (the check is weaker than a real "
    "power failure, never stricter)",
    "faults are injected only at the wrapped calls (open/creat/openat, ftruncate/truncate, write/pwrite, fsync/fdatasync, "
    "rename/link/unlink) on the credential file's directory; stdio or writev based updates make the harness stop (exit 3) "
    "instead of being silently unobserved",
    "a short count of 0 is modelled as write() returning 0 once",
    "EINTR is injected with nothing written, as the other errnos",
    "the peer is a stub struct peer (peer.c is not linked); requests go through the real handle_authentication / "
    "handle_change_password",
    "user names that differ only in letter case are not generated (cJSON object lookup is case-insensitive)",
    "after an update that reported an error the in-memory credential set is only observed, not judged "
    "(coverage.events obs/error-reported-but-new-password-live-in-memory)",
]


def main(tier="quick"):
    t0 = time.time()
    try:
        results = fs_results(tier)
    except build.BuildError as e:
        print("HARNESS-FAILURE: cannot build authfs_harness: %s" % str(e)[:1500])
        return 2
    sizes = sorted(set(r.sample["file_bytes"] for r in results if r.case["kind"] == "c20fs/baseline" and r.sample))
    seqs = collections.Counter()
    for r in results:
        for k, n in r.stats.items():
            if k.startswith("calls-seq/"):
                seqs[k[10:]] += n
    extra = dict(credential_file_sizes=sizes, mutating_call_sequences_of_fault_free_change=dict(seqs),
                 harness=os.path.relpath(HARNESS_SRC, build.VERIF), repo=build.REPO)
    return runner.report(prop="C20", level="fault_enumeration", results=results, rule=RULE, t0=t0, tier_name=tier,
                         assumptions=ASSUMPTIONS, extra_cov=extra,
                         min_events={"runs/crash-after": 8, "runs/short": 20, "runs/error": 12, "passwd-succeeded": 10,
                                     "passwd-refused": 10, "fresh-loader-after-change": 10})


def replay(path):
    with open(path) as fh:
        rp = json.load(fh)
    binary()
    r = runner.run_case(rp["case"])
    if r.inconclusive:
        print("INCONCLUSIVE:", r.inconclusive)
        return 2
    keys = sorted(set(k for k, _ in r.viol))
    print("violations of the replayed case:", keys)
    want = rp["key"].split("/", 1)[1]
    for k, d in r.viol:
        if k == want:
            print(d)
            break
    return 1 if r.viol else 0


if __name__ == "__main__":
    if len(sys.argv) > 2 and sys.argv[1] == "replay":
        sys.exit(replay(sys.argv[2]))
    sys.exit(main(sys.argv[1] if len(sys.argv) > 1 else (runner.tier() or "quick")))
