"""C09: behaviour depends on each connection's byte stream, not on segmentation / batching / stale buffer bytes.

A script (per-connection byte streams cut into complete units, executed in a fixed global order of unit completions) is
run once as the reference (one whole unit per wake-up, nothing coalesced, no scribbling) and then under K variants; the
decoded output of every connection must be identical (daemon-generated routed ids canonicalised)."""
import json, random, re, struct, sys, time

from . import build, hostile, wire
from .runner import Result, scenario
from .sim import DaemonDied, DaemonExited, Hang, Sim, crash_key


def gen_script(rng, max_msg, stalls=False):
    """-> (conns: list of transport, steps: list of dict(c=, unit=bytes | reply=k | eof | stall=budget))
    stalls: a connection stops reading for a few steps (its output is parked inside the daemon); when it reads again it also sends
    a unit that is not answered (zero length prefix, unsolicited pong) - "writable again" and "readable" may then arrive as one
    readiness event or as two"""
    nconn = rng.randint(2, 4)
    conns = [rng.choice(["raw", "raw", "uds", "ws"]) for _ in range(nconn)]
    steps = []
    idc = [0]
    paths = ["a", "a/b", "b", "x/y"]

    def frame(c, payload):
        if conns[c] == "ws":
            return wire.ws_frame(1, payload, mask=bytes(rng.randrange(256) for _ in range(4)))
        return wire.raw_frame(payload)

    def req(c, method, params=None, with_id=True):
        idc[0] += 1
        m = {"method": method}
        if with_id:
            m["id"] = idc[0] if rng.random() < 0.7 else "s%d" % idc[0]
        if params is not None:
            m["params"] = params
        steps.append(dict(c=c, unit=frame(c, json.dumps(m).encode())))

    for c in range(nconn):
        if conns[c] == "ws":
            steps.append(dict(c=c, unit=wire.ws_handshake()))
    owner = rng.randrange(nconn)
    for p in paths[:rng.randint(1, 4)]:
        pr = {"path": p}
        if rng.random() < 0.7:
            pr["value"] = rng.randrange(100)
        if rng.random() < 0.3:
            pr["timeout"] = 1.5
        req(owner, "add", pr)
    forwards = 0
    stalled = None

    def unstall():
        c2 = stalled[0]
        quiet = wire.ws_frame(10, b"", mask=b"\x0a\x0b\x0c\x0d") if conns[c2] == "ws" else b"\x00\x00\x00\x00"
        steps.append(dict(c=c2, unit=quiet, unstall=True))

    for _ in range(rng.randint(10, 30)):
        if stalls:
            if stalled is None and rng.random() < 0.12:
                stalled = (rng.randrange(nconn), len(steps) + rng.randint(2, 6))
                steps.append(dict(c=stalled[0], stall=rng.choice([0, 0, 1, 30])))
            elif stalled is not None and len(steps) >= stalled[1]:
                unstall()
                stalled = None
        c = rng.randrange(nconn)
        r = rng.random()
        if r < 0.15:
            req(c, "fetch", {"id": "f%d" % idc[0], "path": {"startsWith": rng.choice(["a", "", "x"])}})
        elif r < 0.3:
            req(owner, "change", {"path": rng.choice(paths), "value": [idc[0], "v" * rng.randrange(0, 60)]})
        elif r < 0.4:
            req(c, "get", {"path": {"contains": rng.choice(["a", "/", "q"])}} if rng.random() < 0.7 else {})
        elif r < 0.55:
            req(c, rng.choice(["set", "call"]), {"path": rng.choice(paths), "value": idc[0], "args": [idc[0]]}, with_id=rng.random() < 0.85)
            forwards += 1
        elif r < 0.65 and forwards:
            steps.append(dict(c=owner, reply=rng.choice(["result", "error"])))
        elif r < 0.7:
            req(c, rng.choice(["info", "nosuch", "config"]), {"name": "n%d" % c} if rng.random() < 0.5 else None)
        elif r < 0.75:
            # a batch
            b = [{"id": idc[0] * 100 + i, "method": rng.choice(["info", "get", "unfetch"]), "params": {"id": "f1"}} for i in range(rng.randint(0, 3))]
            steps.append(dict(c=c, unit=frame(c, json.dumps(b).encode())))
        elif r < 0.8 and conns[c] != "ws":
            steps.append(dict(c=c, unit=b"\x00\x00\x00\x00"))                      # zero length: skipped
        elif r < 0.84 and conns[c] != "ws":
            # a message that ends exactly at / near the end of the read buffer
            pad = max_msg - rng.choice([0, 1, 2, 4, 5]) - 60
            m = json.dumps({"id": idc[0] + 5000, "method": "config", "params": {"name": "p" * max(pad, 1)}}).encode()[:max_msg]
            if len(m) <= max_msg:
                try:
                    json.loads(m)
                    steps.append(dict(c=c, unit=wire.raw_frame(m)))
                except ValueError:
                    pass
        elif r < 0.9:
            # truncated JSON whose continuation follows in the next unit: each unit must be judged from its own bytes only
            full = json.dumps({"id": idc[0] + 9000, "method": "info"}).encode()
            k = rng.randrange(1, len(full) - 1)
            if conns[c] == "ws":
                steps.append(dict(c=c, unit=wire.ws_frame(1, full[:k], mask=b"\x01\x02\x03\x04"), ends=True))
                steps.append(dict(c=c, unit=wire.ws_frame(1, full[k:], mask=b"\x01\x02\x03\x04"), ends=True))
            else:
                steps.append(dict(c=c, unit=wire.raw_frame(full[:k]), ends=True))
                steps.append(dict(c=c, unit=wire.raw_frame(full[k:]), ends=True))
        elif r < 0.93 and conns[c] != "ws":
            # above the maximum: ends the connection as soon as the 4 length bytes are there, so at most 3 bytes may be delivered early
            steps.append(dict(c=c, unit=struct.pack(">I", max_msg + rng.choice([1, 2, 100])) + b"x" * 8, ends=True, maxpre=3))
        elif r < 0.96 and conns[c] != "ws":
            m = json.dumps({"id": idc[0] + 7000, "method": "info"}).encode()
            steps.append(dict(c=c, unit=wire.raw_frame(m + rng.choice([b"", b"}", b"\x00", b" ", b"]}"]))))       # trailing bytes inside the declared length
        else:
            if rng.random() < 0.6:
                # last words: a request directly followed by the end of the stream (the kernel may report both at once)
                if rng.random() < 0.5:
                    req(c, "add", {"path": "lw/%d" % idc[0], "value": idc[0]})
                else:
                    req(c, rng.choice(["info", "get"]), None)
            steps.append(dict(c=c, eof=True))
    if stalled is not None:
        unstall()
    if stalls and rng.random() < 0.6:
        # a pipelined burst: many small requests of ONE connection back to back, several times the size of the read buffer. In
        # the reference run they arrive one per wake-up; a 'burst' policy makes all of them readable at once (nobody else is
        # active meanwhile, so the order of complete messages is the same)
        c = rng.randrange(nconn)
        total = int(8 * max_msg * rng.choice([0.4, 0.9, 1.0, 1.02, 1.1, 2.05, 3.3]))
        size, g = 0, len(steps)
        pos = rng.randrange(max(1, len(steps) // 2), len(steps) + 1)
        # not behind the end of that connection's stream
        for k_, st_ in enumerate(steps):
            if st_["c"] == c and (st_.get("eof") or st_.get("ends")):
                pos = min(pos, k_)
                break
        burst = []
        while size < total:
            idc[0] += 1
            m = {"id": idc[0] + 20000, "method": rng.choice(["info", "info", "nosuch", "get"])}
            if m["method"] == "get":
                m["params"] = {"path": {"equals": "none"}}
            u = frame(c, json.dumps(m).encode())
            burst.append(dict(c=c, unit=u, burst=g))
            size += len(u)
        steps[pos:pos] = burst
    # a unit that is longer than the read buffer takes effect (ends the connection) as soon as its length field is
    # complete, not when its last byte arrives: only a shorter prefix of it may be delivered early
    for st in steps:
        u = st.get("unit")
        if u is None:
            continue
        if conns[st["c"]] != "ws":
            if len(u) >= 4 and struct.unpack(">I", u[:4])[0] > max_msg:
                st["maxpre"] = 3
        elif not u.startswith(b"GET ") and len(u) > max_msg - 16:
            st["maxpre"] = 1
    return conns, steps


CANON = re.compile(r"(?:[^\"]*_)?[0-9a-f]+_0x[0-9a-f]+")   # "<origin id>_<counter>_<peer address>", no origin part for numeric ids


def _is_shutdown_error(m):
    return (isinstance(m, dict) and isinstance(m.get("error"), dict) and isinstance(m["error"].get("data"), dict)
            and m["error"]["data"].get("reason") == "peer shuts down")


def unordered_shutdown_runs(outputs):
    """When an owner leaves, its in-flight requests are answered in the order of its routing table, i.e. by the hash of ids that
    contain heap addresses: the order inside a run of consecutive "peer shuts down" answers on one connection is not part of
    the script's outcome. Each such run is put into a canonical order."""
    res = []
    for msgs in outputs:
        o, i = [], 0
        while i < len(msgs):
            if _is_shutdown_error(msgs[i]):
                j = i
                while j < len(msgs) and _is_shutdown_error(msgs[j]):
                    j += 1
                o.extend(sorted(msgs[i:j], key=lambda m: json.dumps(m.get("id"))))
                i = j
            else:
                o.append(msgs[i])
                i += 1
        res.append(o)
    return res


def execute(binary, conns, steps, policy, rng, timeout=60):
    """-> dict(outputs=[list of canonical messages per conn], parsed=[...], crash=None|key)"""
    sim = Sim(binary, timeout=timeout)
    out = dict(outputs=None, crash=None, detail="")
    fds, decs, outputs, fwd = [], [], [], []
    seen = {}
    try:
        if policy.get("scribble"):
            sim.scribble(policy["scribble"])
        # connections are made in the order of their first step, right before it; a policy may let the first bytes (and more)
        # be queued before the daemon gets to accept the connection, so that they are consumed by the read done from accept
        for t in conns:
            fds.append(None)
            decs.append(wire.WsDecoder() if t == "ws" else wire.RawDecoder())
            outputs.append([])
            fwd.append([])

        def ensure_connected(c):
            if fds[c] is not None:
                return False
            t = conns[c]
            ep = {"raw": "jet", "uds": "uds", "ws": "ws"}[t]
            fds[c] = sim.connect(ep, ("u",) if t == "uds" else ("4", "127.0.0.1", 5000 + c))
            if not (policy.get("preaccept") and rng.random() < policy["preaccept"]):
                sim.settle()
            return True

        def pump():
            for i, fd in enumerate(fds):
                if fd is None:
                    continue
                d = sim.drain(fd)
                for kind, payload, obj, _w in decs[i].feed(d["data"]):
                    if kind == "msg" and isinstance(obj, dict) and "method" in obj and "id" in obj:
                        fwd[i].append(obj["id"])
                    if kind == "http":
                        outputs[i].append(["http", obj])
                    elif kind in ("msg",):
                        outputs[i].append(obj)
                    else:
                        outputs[i].append([kind, payload.hex()])
                if d["closed"] and (not outputs[i] or outputs[i][-1] != "<closed>"):
                    outputs[i].append("<closed>")
                if d["closed"] and closed_at[i] is None:
                    closed_at[i] = cur[0]

        closed_at = [None] * len(conns)       # the step after which the daemon was seen to have released the connection
        cur = [-1]
        fin_early = {}
        out["closed_at"] = closed_at
        out["fin_early"] = fin_early
        ended = [False] * len(conns)
        pre = [b""] * len(conns)        # bytes of this connection's next unit that were delivered early
        # index of the next step per connection, for pre-delivery
        nxt = {}
        for i in range(len(steps) - 1, -1, -1):
            steps[i]["_next_same"] = nxt.get(steps[i]["c"])
            nxt[steps[i]["c"]] = i
        replied = [0] * len(conns)
        skip_to = -1
        for i, st in enumerate(steps):
            c = st["c"]
            cur[0] = i
            if ended[c] or i < skip_to:
                continue
            ensure_connected(c)
            if "burst" in st and policy.get("burst") and not pre[c]:
                j = i
                while j < len(steps) and steps[j].get("burst") == st["burst"]:
                    j += 1
                data = b"".join(x["unit"] for x in steps[i:j])
                for ch in wire.chunkings(data, policy.get("burst"), rng):
                    sim.send(fds[c], ch)
                out["bursts"] = out.get("bursts", 0) + 1
                out["burst_bytes"] = max(out.get("burst_bytes", 0), len(data))
                skip_to = j
                cur[0] = j - 1
                sim.settle(**policy.get("batch", {}))
                pump()
                continue
            if st.get("eof"):
                sim.eof(fds[c])
                ended[c] = True
                sim.settle(**policy.get("batch", {}))
                pump()
                continue
            if "stall" in st:
                sim.settle()
                sim.wpol(fds[c], budget=st["stall"])
                continue
            if st.get("unstall"):
                sim.wpol(fds[c], budget=-1, cap=-1)
                if policy.get("group_inout") and rng.random() < policy["group_inout"]:
                    out["grouped"] = out.get("grouped", 0) + 1      # readable + writable of this connection: one event
                else:
                    sim.settle(**policy.get("batch", {}))
            if "reply" in st:
                pump()
                if replied[c] >= len(fwd[c]):
                    continue
                rid = fwd[c][replied[c]]
                replied[c] += 1
                payload = json.dumps({"id": rid, st["reply"]: {"n": replied[c]}}).encode()
                unit = wire.ws_frame(1, payload, mask=b"\x09\x08\x07\x06") if conns[c] == "ws" else wire.raw_frame(payload)
            else:
                unit = st["unit"]
            data = unit[len(pre[c]):] if pre[c] and unit.startswith(pre[c]) else unit
            pre[c] = b""
            # optionally append a proper prefix of this connection's next unit to the last chunk
            tail = b""
            j = st.get("_next_same")
            if policy.get("coalesce") and j is not None and "unit" in steps[j] and rng.random() < policy["coalesce"]:
                nu = steps[j]["unit"]
                k = rng.randrange(0, min(len(nu), steps[j].get("maxpre", len(nu)) + 1))
                tail = nu[:k]
                pre[c] = tail
            chunks = wire.chunkings(data, policy.get("chunks"), rng)
            if not chunks:
                chunks = [b""]
            chunks[-1] = chunks[-1] + tail
            for ch in chunks[:-1]:
                sim.send(fds[c], ch)
                if policy.get("poll_between") and rng.random() < policy["poll_between"]:
                    sim.settle(**policy.get("batch", {}))
            sim.send(fds[c], chunks[-1])
            if (policy.get("fin_coalesce") and not tail and i + 1 < len(steps) and steps[i + 1]["c"] == c and steps[i + 1].get("eof")
                    and rng.random() < policy["fin_coalesce"]):
                # the FIN arrives together with the last bytes: one readiness event carries both
                sim.eof(fds[c])
                ended[c] = True
                fin_early[c] = i
            sim.settle(**policy.get("batch", {}))
            if policy.get("spurious") and rng.random() < policy["spurious"]:
                sim.poll(order=[fds[c]], spurious=fds[c])
            pump()
        cur[0] = len(steps)
        pump()
        # tear down one connection after the other: who still sees whose removes is then a matter of the script, not of kernel choice
        for c in range(len(fds)):
            cur[0] = len(steps) + 1 + c
            ensure_connected(c)
            sim.eof(fds[c])
            sim.settle()
            pump()
        txt = json.dumps(outputs)
        txt = CANON.sub(lambda m: seen.setdefault(m.group(0), "<routed-%d>" % len(seen)), txt)
        out["outputs"] = unordered_shutdown_runs(json.loads(txt))
    except DaemonDied:
        out["crash"] = "died"
    except DaemonExited as e:
        out["crash"] = "exited %r" % (e.status,)
    rc, err = sim.finish()
    k = crash_key(rc, err)
    if k is not None or out["crash"]:
        out["crash"] = k or out["crash"]
        out["detail"] = err[:3000]
    return out


POLICIES = [
    dict(name="bytes", chunks="bytes", fin_coalesce=0.8),
    dict(name="bytes+polls", chunks="bytes", poll_between=1.0),
    dict(name="k2", chunks=2, poll_between=0.5, fin_coalesce=0.8),
    dict(name="k3+coalesce", chunks=3, coalesce=0.7, fin_coalesce=0.7),
    dict(name="k5", chunks=5, poll_between=0.3, coalesce=0.3, preaccept=0.7),
    dict(name="k7+scribble}", chunks=7, scribble=2, coalesce=0.5),
    dict(name="rand+scribble-quote", chunks="rand", scribble=3, poll_between=0.5),
    dict(name="whole+coalesce+scribble-tail", chunks="whole", coalesce=0.9, scribble=4),
    dict(name="whole+scribble-ff", chunks="whole", scribble=6, fin_coalesce=1.0),
    dict(name="whole+scribble-1+preaccept", chunks="whole", scribble=7, coalesce=0.5, preaccept=1.0),
    dict(name="rand+scribble-rand", chunks="rand", scribble=5, coalesce=0.5, poll_between=0.5),
    dict(name="rand+batch1", chunks="rand", batch={"max": 1}, coalesce=0.4, fin_coalesce=0.7),
    dict(name="rand+shuffle", chunks="rand", batch={"shuffle": 77}, coalesce=0.4, poll_between=0.4, preaccept=0.5),
    dict(name="whole+spurious+preaccept", chunks="whole", spurious=0.3, fin_coalesce=1.0, preaccept=1.0),
    dict(name="bytes+scribble-brace", chunks="bytes", scribble=2, poll_between=0.2),
    dict(name="k2+coalesce+scribble-zero", chunks=2, coalesce=0.8, scribble=1),
    dict(name="whole+in-out-grouped", chunks="whole", group_inout=1.0),
    dict(name="k3+in-out-grouped", chunks=3, group_inout=0.8, coalesce=0.3),
    dict(name="whole+burst", chunks="whole", burst="whole"),
    dict(name="k5+burst-in-pieces", chunks=5, burst=1400, coalesce=0.3),
    dict(name="whole+burst+batch1", chunks="whole", burst="whole", batch={"max": 1}),
]


@scenario("segdiff")
def segdiff(case, res):
    prm = case["params"]
    cfgname = case.get("config", "default")
    binary = build.build(config=cfgname, lane=case.get("lane", "asan"))
    cfg = build.cfg_of(cfgname)
    rng = random.Random(case["seed"])
    conns, steps = gen_script(rng, int(cfg["CONFIG_MAX_MESSAGE_SIZE"]), stalls=True)
    res.sample = {"conns": conns, "steps": [dict(c=s["c"], unit=s["unit"][:60].decode("latin1")) if "unit" in s else {k: v for k, v in s.items() if not k.startswith("_")} for s in steps[:12]]}
    try:
        ref = execute(binary, conns, steps, dict(name="reference", chunks="whole"), random.Random(1))
    except Hang as e:
        res.inconclusive = "hang in reference: %s" % e
        return
    res.stats["reference_runs"] += 1
    if ref["crash"]:
        res.viol.append(("crash/" + str(ref["crash"]), ref["detail"]))
        return
    nmsg = sum(len(o) for o in ref["outputs"])
    res.stats["reference_messages"] += nmsg
    pols = list(POLICIES)
    rng.shuffle(pols)
    for pol in pols[:prm.get("variants", 6)]:
        try:
            var = execute(binary, conns, steps, pol, random.Random(case["seed"] * 31 + 7))
        except Hang as e:
            res.inconclusive = "hang in variant %s: %s" % (pol["name"], e)
            return
        res.stats["variant_runs"] += 1
        res.stats["readable_and_writable_in_one_event"] += var.get("grouped", 0)
        res.stats["pipelined_bursts"] += var.get("bursts", 0)
        res.stats["pipelined_burst_bytes"] += var.get("burst_bytes", 0)
        res.sigs.add(("variant", pol["name"], min(nmsg // 10, 6), tuple(sorted(set(conns)))))
        if var["crash"]:
            res.viol.append(("crash/" + str(var["crash"]), "policy %s\n%s" % (pol["name"], var["detail"])))
            return
        def burst_start(k):
            # the steps of a pipelined burst are one step as far as "when" is concerned
            if k is None or not (0 <= k < len(steps)) or "burst" not in steps[k]:
                return k
            while k > 0 and steps[k - 1].get("burst") == steps[k]["burst"]:
                k -= 1
            return k

        def same_release(v, r, early):
            # a FIN that was delivered together with the data of step k ends the connection in step k; in the reference run the
            # FIN is step k+1 of its own (unless the data of step k already ended the connection)
            for ci, (a, b) in enumerate(zip(v, r)):
                if a == b or (early.get(ci) == a and b == a + 1) or (a is not None and b is not None and burst_start(a) == burst_start(b)):
                    continue
                return False
            return True
        if var["outputs"] == ref["outputs"] and not same_release(var.get("closed_at"), ref.get("closed_at"), var.get("fin_early", {})):
            res.viol.append(("seg/connection-end-depends-on-segmentation", "policy %s: connections were released after steps %r, in the reference run after steps %r" %
                             (pol["name"], var.get("closed_at"), ref.get("closed_at"))))
            return
        if var["outputs"] != ref["outputs"]:
            which = "scribble" if pol.get("scribble") else "segmentation"
            for ci, (a, b) in enumerate(zip(ref["outputs"], var["outputs"])):
                if a != b:
                    k = next((i for i, (x, y) in enumerate(zip(a, b)) if x != y), min(len(a), len(b)))
                    res.viol.append(("seg/output-depends-on-%s" % which,
                                     "policy %s, connection %d (%s), message %d:\n reference: %s\n variant:   %s" %
                                     (pol["name"], ci, conns[ci], k, json.dumps(a[k:k + 2])[:300], json.dumps(b[k:k + 2])[:300])))
                    break
            return
        res.stats["variants_identical"] += 1


@scenario("realdiff")
def realdiff(case, res):
    """fidelity anchor: the simulated reference execution of a script vs the same script on the real kernel"""
    import os, subprocess, tempfile
    cfgname = case.get("config", "default")
    binary = build.build(config=cfgname, lane="asan")
    real = build.build(kind="cjetd", config=cfgname, lane="asan", wraps=[], main_rename=False, name="cjetd")
    cfg = build.cfg_of(cfgname)
    rng = random.Random(case["seed"])
    conns, steps = gen_script(rng, int(cfg["CONFIG_MAX_MESSAGE_SIZE"]))
    res.sample = {"conns": conns, "nsteps": len(steps)}
    try:
        ref = execute(binary, conns, steps, dict(name="reference", chunks="whole"), random.Random(1))
    except Hang as e:
        res.inconclusive = "hang in simulated run: %s" % e
        return
    if ref["crash"]:
        res.viol.append(("crash/" + str(ref["crash"]), ref["detail"]))
        return
    fd, path = tempfile.mkstemp(prefix="cjv-real-", suffix=".json")
    try:
        with os.fdopen(fd, "w") as fh:
            json.dump({"conns": conns, "steps": [dict(c=s["c"], unit=s["unit"].hex()) if "unit" in s else {k: v for k, v in s.items() if not k.startswith("_")} for s in steps]}, fh)
        try:
            r = subprocess.run(["unshare", "-n", sys.executable, "-m", "cjv.realk", real, path], cwd=build.VERIF, stdout=subprocess.PIPE, stderr=subprocess.PIPE, timeout=120)
        except subprocess.TimeoutExpired:
            res.inconclusive = "real-kernel run exceeded its watchdog"
            return
    finally:
        if os.path.exists(path):
            os.unlink(path)
    try:
        out = json.loads(r.stdout.decode())
    except ValueError:
        res.inconclusive = "real-kernel driver failed: %s" % r.stderr.decode()[-400:]
        return
    if "inconclusive" in out:
        res.inconclusive = out["inconclusive"]
        return
    out["outputs"] = unordered_shutdown_runs(out["outputs"])
    res.stats["real_kernel_runs"] += 1
    res.stats["real_kernel_messages"] += sum(len(o) for o in out["outputs"])
    if out.get("exit") not in (0,):
        k = crash_key(out.get("exit") if isinstance(out.get("exit"), int) else 1, out.get("stderr", ""))
        res.viol.append(("real-kernel/daemon-exit:%s" % (k or out.get("exit")), out.get("stderr", "")[:2000]))
        return
    res.sigs.add(("real", tuple(sorted(set(conns))), min(len(steps) // 8, 5)))
    if out["outputs"] != ref["outputs"]:
        for ci, (a, b) in enumerate(zip(ref["outputs"], out["outputs"])):
            if a != b:
                k = next((i for i, (x, y) in enumerate(zip(a, b)) if x != y), min(len(a), len(b)))
                res.viol.append(("real-kernel/simulated-and-real-kernel-runs-differ", "connection %d (%s), message %d:\n simulated: %s\n real:      %s" %
                                 (ci, conns[ci], k, json.dumps(a[k:k + 2])[:300], json.dumps(b[k:k + 2])[:300])))
                break
    else:
        res.stats["traces_validated_against_real_kernel"] += 1
