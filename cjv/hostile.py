"""Generators of hostile JSON-RPC messages, HTTP requests, WebSocket frames and byte mutations."""
import json, struct

from . import wire

METHODS = ["add", "remove", "change", "set", "call", "fetch", "unfetch", "get", "config", "info", "authenticate", "passwd"]

ID_GRID = ["", "x", "a-long-id-" + "z" * 120, "\u00fc\u20ac", 0, -1, 1, 2147483647, 2147483648, 9007199254740992, 1.5, 1e10,
           -0.0, 1e-7, -2147483649, 123456789012, 3e5,
           # whole numbers of 22..26 digits, both signs (as long as a number gets in plain notation; 15 significant digits at most)
           -2e24, 2e24, -9e24, 1e25, -1e25, 1e22, -1e21, -123456789012345e10]
NON_IDS = [None, True, False, {}, [], {"a": 1}, [1]]

STRINGS = ["", "a", "a/b", "A", "\u00fc", "x" * 97, "x" * 98, "x" * 99, "x" * 100, "n" * 200, "p" * 400, "%s%s%n", "\\", "\"", "\u0001",
           "a\tb", "caseInsensitive", "id", "\U0001F600"]
NUMBERS = [0, 1, -1, 0.001, 0.000999, 0.0015, 5, 1e9, 1.8e10, 1.9e10, 1e30, -1e30, 1e308, 2147483647, 2147483648, 4294967296, -0.5, 1e-300,
           -2e24, 9e24, -9.99e24, 1e25, -1e25, -1e21]


def rnd_json(rng, depth=0):
    r = rng.random()
    if depth > 3 or r < 0.35:
        return rng.choice([None, True, False, rng.choice(NUMBERS), rng.choice(STRINGS), rng.randrange(-5, 5)])
    if r < 0.65:
        return [rnd_json(rng, depth + 1) for _ in range(rng.randrange(0, 4))]
    return {rng.choice(STRINGS + ["path", "value", "id", "k"]): rnd_json(rng, depth + 1) for _ in range(rng.randrange(0, 4))}


def deep(n, kind="["):
    return "[" * n + "]" * n if kind == "[" else '{"a":' * n + "1" + "}" * n


def rule_shapes(rng, paths):
    """fetch/get path rules incl. ill-formed ones"""
    p = rng.choice(paths + STRINGS[:6])
    shapes = [
        {"equals": p}, {"startsWith": p}, {"endsWith": p}, {"contains": p}, {"equalsNot": p}, {"containsAllOf": [p, "a"]},
        {"equals": 1}, {"startsWith": None}, {"containsAllOf": p}, {"containsAllOf": []}, {"containsAllOf": [1, 2]},
        {"containsAllOf": [p, 3]}, {"unknownMatcher": p}, {}, {"caseInsensitive": True}, {"caseInsensitive": "yes", "equals": p},
        {"equals": p, "caseInsensitive": True}, {"equals": p, "caseInsensitive": False}, [], "str", 7, None,
        {k: p for k in ["equals", "startsWith", "endsWith", "contains", "equalsNot"]},
        {"equals": {"a": 1}}, {"contains": [p]},
    ]
    return rng.choice(shapes)


def params_for(rng, method, paths, fids):
    """a params value for a method: valid, missing members, mistyped members, hostile extras"""
    path = rng.choice(paths + STRINGS[:8])
    r = rng.random()
    if r < 0.06:
        return rng.choice([None, 1, "s", [], [1, 2], True, {}])
    pr = {}
    if method in ("add", "remove", "change", "set", "call"):
        if rng.random() < 0.9:
            pr["path"] = path if rng.random() < 0.85 else rng.choice([1, None, {}, [], True, 1.5])
        if method in ("add", "change", "set") and rng.random() < 0.8:
            pr["value"] = rnd_json(rng)
        if method == "call" and rng.random() < 0.6:
            pr["args"] = rnd_json(rng)
        if method == "add":
            if rng.random() < 0.3:
                pr["fetchOnly"] = rng.choice([True, False, 1, "true", None])
            if rng.random() < 0.3:
                pr["access"] = rng.choice([{"fetchGroups": ["g"], "setGroups": ["g"]}, {"fetchGroups": "g"}, [], 1, {"fetchGroups": [1, {}]},
                                           {"callGroups": ["a"] * 40}, {"fetchGroups": [], "setGroups": None}])
        if method in ("add", "set", "call") and rng.random() < 0.35:
            pr["timeout"] = rng.choice(NUMBERS + ["1", True, None, {}, []])
    elif method in ("fetch", "unfetch"):
        if rng.random() < 0.9:
            pr["id"] = rng.choice(fids + ID_GRID[:9] + NON_IDS[:4]) if rng.random() < 0.8 else rnd_json(rng)
        if method == "fetch" and rng.random() < 0.7:
            pr["path"] = rule_shapes(rng, paths)
        if method == "fetch" and rng.random() < 0.05:
            pr["match"] = ["a"]
    elif method == "get":
        if rng.random() < 0.7:
            pr["path"] = rule_shapes(rng, paths)
    elif method == "config":
        if rng.random() < 0.8:
            pr["name"] = rng.choice(STRINGS + [1, None, {}, []])
        if rng.random() < 0.2:
            pr["debug"] = True
    elif method in ("authenticate", "passwd"):
        if rng.random() < 0.85:
            pr["user"] = rng.choice(["john", "admin", "", "x" * 300, 1, None, {}])
        if rng.random() < 0.85:
            pr["password"] = rng.choice(["doe", "", "p" * 300, 1, None, []])
    if rng.random() < 0.1:
        pr[rng.choice(STRINGS)] = rnd_json(rng)
    return pr


def ser_dup(rng, obj, p_dup=0.5):
    """serialise a dict by hand, duplicating / case-varying a member (only for no-ledger use)"""
    if not isinstance(obj, dict) or not obj:
        return json.dumps(obj)
    items = list(obj.items())
    k, v = rng.choice(items)
    r = rng.random()
    if r < p_dup:
        items.insert(rng.randrange(len(items) + 1), (k, rng.choice([v, rnd_json(rng)])))
    else:
        items.append((k.swapcase() if k.swapcase() != k else k + k, rnd_json(rng)))
    return "{" + ",".join(json.dumps(a) + ":" + (ser_dup(rng, b, 0.3) if isinstance(b, dict) and rng.random() < 0.3 else json.dumps(b)) for a, b in items) + "}"


RAW_TEXTS = [
    b"", b" ", b"{", b"}", b"[", b"]", b"[]", b"{}", b"null", b"true", b"1", b"\"s\"", b"[[]]", b"[1]", b"[null]", b"[{}]", b"[{},1]",
    b"{\"id\":1}", b"{\"id\":1,\"method\":null}", b"{\"method\":1}", b"{\"method\":\"\"}", b"{\"id\":{},\"method\":\"info\"}",
    b"{\"id\":1,\"result\":1}", b"{\"id\":\"x\",\"result\":1}", b"{\"id\":\"x\",\"error\":{}}", b"{\"result\":1}", b"{\"error\":1}",
    b"{\"id\":null,\"result\":true}", b"{\"id\":1,\"method\":\"info\",\"result\":1}", b"{\"id\":1,\"ID\":2,\"method\":\"info\"}",
    b"{\"id\":1,\"id\":2,\"method\":\"info\"}", b"{\"id\":1,\"method\":\"info\"}garbage", b"{\"id\":1,\"method\":\"info\"}\x00{\"id\":2",
    b"{\"id\":1,\"method\":\"add\",\"params\":{\"path\":\"\\u0000x\",\"value\":1}}", b"{\"id\":1,\"method\":\"add\",\"params\":{\"path\":\"\\ud800\",\"value\":1}}",
    b"{\"id\":1,\"method\":\"add\",\"params\":{\"path\":\"\xff\xfe\",\"value\":1}}", b"{\"id\":1e999,\"method\":\"info\"}", b"{\"id\":-,\"method\":\"info\"}",
    b"{\"id\":1,\"method\":\"info\"", b"\xef\xbb\xbf{\"id\":1,\"method\":\"info\"}", b"{'id':1}", b"{\"id\":01,\"method\":\"info\"}",
    b"{\"id\":1,\"method\":\"fetch\",\"params\":{\"id\":1,\"path\":{\"caseInsensitive\":true,\"caseInsensitive\":true,\"equals\":\"a\"}}}",
    b"{\"id\":1,\"method\":\"fetch\",\"params\":{\"id\":2,\"path\":{\"caseInsensitive\":true,\"caseInsensitive\":false}}}",
    b"{\"id\":1,\"method\":\"get\",\"params\":{\"path\":{\"caseInsensitive\":true,\"equals\":\"a\",\"caseInsensitive\":true}}}",
    b"{\"id\":1,\"method\":\"get\",\"params\":{\"path\":{\"CASEINSENSITIVE\":true,\"equals\":\"a\"}}}",
    b"{\"id\":1,\"method\":\"get\",\"params\":{\"path\":{\"caseInsensitive\":true,\"startsWith\":\"\",\"caseInsensitive\":true}}}",
    b"{\"id\":1,\"method\":\"fetch\",\"params\":{\"id\":\"dupopt\",\"path\":{\"caseInsensitive\":false,\"caseInsensitive\":true,\"contains\":\"\"}}}",
    b"{\"id\":1,\"method\":\"fetch\",\"params\":{\"id\":\"dupopt2\",\"path\":{\"startsWith\":\"\",\"caseInsensitive\":true,\"caseInsensitive\":true,\"caseInsensitive\":true}}}",
    b"{\"id\":1,\"method\":\"get\",\"params\":{\"path\":{\"startsWith\":\"\",\"startsWith\":\"w\"}}}",
    b"{\"id\":1,\"method\":\"get\",\"params\":{\"path\":{\"containsAllOf\":[\"\"],\"containsAllOf\":[]}}}",
]


def hostile_payload(rng, paths, fids):
    """-> (bytes, may_close) a payload for one frame: near-valid JSON-RPC with hostile shapes"""
    r = rng.random()
    if r < 0.12:
        return rng.choice(RAW_TEXTS), True
    if r < 0.18:
        n = rng.choice([10, 100, 240])
        return deep(n, rng.choice("[{")).encode()[:500], True
    m = rng.choice(METHODS + METHODS + ["", "nosuch", "ADD", "fetch "])
    msg = {}
    r = rng.random()
    if r < 0.75:
        msg["id"] = rng.choice(ID_GRID)
    elif r < 0.85:
        msg["id"] = rng.choice(NON_IDS)
    if rng.random() < 0.95:
        msg["method"] = m if rng.random() < 0.93 else rng.choice([1, None, {}, [], True])
    if rng.random() < 0.92:
        msg["params"] = params_for(rng, m, paths, fids)
    r = rng.random()
    if r < 0.15:
        txt = ser_dup(rng, msg)
    elif r < 0.2:
        txt = "[" + ",".join(json.dumps(msg) for _ in range(rng.randrange(0, 4))) + "]"
    elif r < 0.25:
        txt = json.dumps([msg, rng.choice([1, None, "s", [], msg])])
    else:
        txt = json.dumps(msg, ensure_ascii=rng.random() < 0.5)
    return txt.encode(), True


def raw_length_games(rng, max_msg):
    """byte strings for the raw endpoint playing with the length prefix"""
    body = b'{"id":1,"method":"info"}'
    n = rng.choice([0, 1, max_msg - 1, max_msg, max_msg + 1, 2 * max_msg, 65535, 65536, 2 ** 31 - 1, 2 ** 31, 2 ** 32 - 1, len(body), len(body) - 1, len(body) + 1])
    out = struct.pack(">I", n)
    r = rng.random()
    if r < 0.4:
        out += body
    elif r < 0.7:
        out += (body * (1 + max_msg // len(body)))[:min(n, 4 * max_msg)]
    elif r < 0.85:
        out += bytes(rng.randrange(256) for _ in range(min(n, 700)))
    return out


def http_requests(rng, path="/api/jet/"):
    key = b"dGhlIHNhbXBsZSBub25jZQ=="
    good = wire.ws_handshake(key=key, path=path)
    variants = [
        good.replace(b"GET", b"POST"), good.replace(b"HTTP/1.1", b"HTTP/1.0"), good.replace(b"HTTP/1.1", b"HTTP/2.0"),
        good.replace(path.encode(), b"/other"), good.replace(path.encode(), b"/api/jet"), good.replace(path.encode(), b"*"),
        good.replace(path.encode(), path.encode() + b"x?y=1#f"), good.replace(b"Upgrade: websocket\r\n", b""),
        good.replace(b"Connection: Upgrade\r\n", b""), good.replace(b"Sec-WebSocket-Key: " + key + b"\r\n", b""),
        good.replace(key, b"short"), good.replace(key, key + key), good.replace(b"Version: 13", b"Version: 12"),
        good.replace(b"Version: 13", b"Version: 130"), good.replace(b"Sec-WebSocket-Version: 13\r\n", b""),
        good.replace(b"Protocol: jet", b"Protocol: chat"), good.replace(b"Protocol: jet", b"Protocol: chat, jet ,x"),
        good.replace(b"Protocol: jet", b"Protocol: ,,jet"), good.replace(b"Protocol: jet", b"Protocol: jetx"),
        good.replace(b"\r\n", b"\n"), good[:-2], good[:-4] + b"\r\nX: " + b"y" * 600 + b"\r\n\r\n",
        b"GET " + b"/api/jet/" + b"a" * 600 + b" HTTP/1.1\r\n\r\n", b"GET /api/jet/ HTTP/1.1\r\n" + b"A" * 520 + b"\r\n\r\n",
        b"\r\n\r\n" + good, b"GET\r\n\r\n", b"GET  HTTP/1.1\r\n\r\n", b"CONNECT host:80 HTTP/1.1\r\n\r\n", b"CONNECT /api/jet/ HTTP/1.1\r\n\r\n",
        b"GET /api/jet/ HTTP/1.1\r\nContent-Length: 5\r\n\r\nhello", b"GET /api/jet/ HTTP/1.1\r\nTransfer-Encoding: chunked\r\n\r\n5\r\nhello\r\n0\r\n\r\n",
        b"\x00\x00\x00\x18{\"id\":1,\"method\":\"info\"}", b"\x16\x03\x01\x02\x00\x01\x00\x01\xfc\x03\x03", good + good,
        good.replace(b"Sec-WebSocket-Key", b"sec-websocket-KEY"), good.replace(b": ", b":"), good.replace(b"Host: localhost\r\n", b"Host: localhost\r\n" * 30),
        b"GET /api/jet/ HTTP/1.1\r\nUpgrade: websocket\r\nConnection: keep-alive, Upgrade\r\nSec-WebSocket-Version: 13\r\nSec-WebSocket-Key: " + key + b"\r\n\r\n",
        b"GET http://h/api/jet/ HTTP/1.1\r\n\r\n", b"GET /api/jet/%zz HTTP/1.1\r\n\r\n", b"GET /api/jet/ HTTP/1.1\r\n: novalue\r\n\r\n",
    ]
    return variants


def ws_frame_grid(rng, max_msg):
    """one client frame from the opcode/flag/length grid -> bytes"""
    op = rng.randrange(16)
    fin = rng.choice([1, 1, 1, 0])
    rsv = rng.choice([0, 0, 0, 0, 1, 2, 4, 7])
    n = rng.choice([0, 1, 2, 3, 7, 8, 9, 15, 16, 17, 124, 125, 126, 127, 128, max_msg - 15, max_msg - 14, max_msg - 8, max_msg - 1, max_msg])
    lenenc = rng.choice([None, None, None, 7, 16, 64]) if n < 126 else rng.choice([None, None, 16, 64])
    if lenenc == 7 and n >= 126:
        lenenc = None
    mask = rng.choice([None, b"\x00\x00\x00\x00", b"\xff\xff\xff\xff"] + [bytes(rng.randrange(256) for _ in range(4))] * 5)
    kind = rng.random()
    if op == 8 and n >= 2 and kind < 0.7:
        code = rng.choice([0, 999, 1000, 1001, 1002, 1003, 1004, 1005, 1006, 1007, 1008, 1009, 1010, 1011, 1012, 1015, 1016, 2999, 3000, 4999, 5000, 65535])
        payload = struct.pack(">H", code) + rng.choice([b"", b"bye", b"\xff\xfe", b"\xc0\x80", b"x" * 123])[:n - 2]
    elif kind < 0.5:
        payload = (b'{"id":%d,"method":"info"}' % rng.randrange(1000)).ljust(n, b" ")[:n]
    else:
        payload = bytes(rng.randrange(256) for _ in range(n))
    return wire.ws_frame(op, payload, fin=fin, rsv=rsv, mask=mask, lenenc=lenenc)


def ws_huge_length_frames():
    m = b"\x01\x02\x03\x04"
    return [bytes([0x81, 0xff]) + struct.pack(">Q", 2 ** 63) + m, bytes([0x81, 0xff]) + struct.pack(">Q", 2 ** 64 - 1) + m,
            bytes([0x81, 0xfe]) + struct.pack(">H", 65535) + m, bytes([0x89, 0xfe]) + struct.pack(">H", 126) + m + b"x" * 126,
            bytes([0x88, 0xfe]) + struct.pack(">H", 600) + m + b"x" * 600, bytes([0x8a, 0xff]) + struct.pack(">Q", 70000) + m,
            bytes([0x82, 0xff]) + struct.pack(">Q", 65536) + m + b"y" * 700]


def mutate(rng, data):
    """byte-level mutation of a recorded valid session"""
    data = bytearray(data)
    for _ in range(rng.choice([1, 1, 2, 3, 6])):
        if not data:
            break
        r = rng.random()
        i = rng.randrange(len(data))
        if r < 0.35:
            data[i] ^= 1 << rng.randrange(8)
        elif r < 0.5:
            data[i] = rng.choice([0, 0xff, 0x7f, 0x80, ord('"'), ord("{"), ord("}"), ord("["), ord(","), ord(":"), ord("\\")])
        elif r < 0.65:
            data[i:i] = bytes(rng.randrange(256) for _ in range(rng.randrange(1, 6)))
        elif r < 0.8:
            del data[i:i + rng.randrange(1, 6)]
        elif r < 0.9:
            del data[i:]
        else:
            j = rng.randrange(len(data))
            data[i:i] = data[j:j + rng.randrange(1, 40)]
    return bytes(data)
