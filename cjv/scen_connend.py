"""C05: a connection's end, in every phase / role / way, removes every trace and disturbs nobody."""
import itertools, json, struct

from . import wire
from .engine import AUTO
from .runner import scenario, sim_case
from .workloads import batch_policy, pick_chunks

ROLES = ["idle", "owner", "subscriber", "caller", "routed-owner", "both", "unsent-output", "everything", "refused", "routed-owner-choked"]
PHASES_RAW = ["between", "mid-prefix", "mid-message", "after-zero-length"]
PHASES_WS = ["mid-request-line", "mid-headers", "after-101", "mid-ws-header", "mid-ws-payload", "mid-fragmented", "between"]
ENDINGS_RAW = ["fin", "rst", "oversize", "bad-json", "non-object", "stray-response", "response-send-fails", "response-send-fails-buffer-full"]
ENDINGS_WS = ["fin", "rst", "bad-json", "close-1000", "close-1001", "close-999", "close-1byte", "close-badutf8", "unmasked", "unmasked-empty", "unmasked-empty-control", "rsv", "bad-opcode", "oversize",
              "response-send-fails", "pong-send-fails", "pong-send-fails-buffer-full"]


def cells():
    out = []
    for t in ("raw", "uds", "ws"):
        ph = PHASES_WS if t == "ws" else PHASES_RAW
        en = ENDINGS_WS if t == "ws" else ENDINGS_RAW
        for r, p, e in itertools.product(ROLES, ph, en):
            if p in ("mid-request-line", "mid-headers") and (r != "idle" or e not in ("fin", "rst", "bad-json")):
                continue        # before the upgrade the connection cannot have a role or speak WebSocket
            out.append((t, r, p, e))
    return out


CELLS = cells()


@scenario("connend")
def connend(case, res):
    prm = case["params"]
    t, role, phase, ending = CELLS[prm["cell"] % len(CELLS)]

    def body(S, rng):
        S.ops.append(["cell", t, role, phase, ending])
        S.sig("cell", t, role, phase, ending)
        obs = S.connect("obs", "raw")
        S.request(obs, "fetch", {"id": "obs"})
        O = S.connect("O", rng.choice(["raw", "uds", "ws"]))
        C = S.connect("C", rng.choice(["raw", "uds", "ws"]))
        for c in (O, C):
            if c.transport == "ws":
                S.handshake(c)
        S.request(O, "add", {"path": "o/s", "value": 1})
        S.request(O, "add", {"path": "o/m"})
        S.request(C, "fetch", {"id": "cf", "path": {"startsWith": "v/"}})
        S.settle()
        V = S.connect("V", t)
        pre_upgrade = phase in ("mid-request-line", "mid-headers")
        hs = wire.ws_handshake(key=b"dGhlIHNhbXBsZSBub25jZQ==")
        if t == "ws":
            if phase == "mid-request-line":
                S.send_bytes(V, hs[:rng.choice([1, 5, 14, 20])], pick_chunks(rng))
                V.ledger, V.track_input = False, False
            elif phase == "mid-headers":
                S.send_bytes(V, hs[:rng.choice([30, 60, len(hs) - 30, len(hs) - 3, len(hs) - 1])], pick_chunks(rng))
                V.ledger, V.track_input = False, False
            else:
                S.handshake(V, chunks=pick_chunks(rng))
        S.settle()
        inflight_other = None
        if not pre_upgrade:
            if role in ("owner", "both", "everything"):
                S.request(V, "add", {"path": "v/s", "value": S.next_val(V)})
                S.request(V, "add", {"path": "v/m", "timeout": 2})
                S.request(V, "add", {"path": "v/x", "value": 0, "fetchOnly": True})
            if role == "refused":
                # V has been told "no" in every way the daemon knows, including the path index running out of room for it
                from .model import colliding_paths
                eo = int(S.cfg.get("CONFIG_ELEMENT_TABLE_ORDER", 13))
                for pth in colliding_paths(eo, min(33, (1 << eo)), prefix="v/k"):
                    S.request(V, "add", {"path": pth, "value": 1})
                S.request(V, "add", {"path": "o/s", "value": 1})
                S.request(V, "change", {"path": "o/s", "value": 2})
                S.request(V, "remove", {"path": "o/m"})
                S.request(V, "fetch", {"id": "vf", "path": {"startsWith": "v/"}})
                S.request(V, "fetch", {"id": "vf", "path": {"startsWith": "o/"}})
                S.request(V, "unfetch", {"id": "nope"})
                S.request(V, "set", {"path": "nope", "value": 1})
            if role in ("subscriber", "both", "everything", "unsent-output"):
                S.request(V, "fetch", {"id": "vf"})
                S.request(V, "fetch", {"id": 17, "path": {"startsWith": "o/"}})
            S.settle()
            if role in ("caller", "both", "everything"):
                S.request(V, "set", {"path": "o/s", "value": S.next_val(V)})
                S.request(V, "call", {"path": "o/m", "args": [1]}, idv=None)
            if role in ("routed-owner", "everything"):
                if "v/s" not in S.elements:
                    S.request(V, "add", {"path": "v/s", "value": S.next_val(V)})
                    S.settle()
                S.request(C, "set", {"path": "v/s", "value": S.next_val(C)})
                S.request(C, "set", {"path": "v/s", "value": S.next_val(C), "timeout": 30})
                S.request(O, "set", {"path": "v/s", "value": S.next_val(O)}, idv=None)
            if role == "routed-owner-choked":
                # V owes answers, stops reading, and is asked more until a request cannot be handed to it any more (its
                # buffers are full: that request is refused at once); every request that WAS handed over is still owed an
                # answer when V's connection ends
                S.request(V, "add", {"path": "v/s", "value": S.next_val(V)})
                S.settle()
                S.request(C, "set", {"path": "v/s", "value": S.next_val(C)})
                S.request(O, "set", {"path": "v/s", "value": S.next_val(O), "timeout": 60})
                S.settle()
                S.sim.wpol(V.fd, budget=0)
                V.healthy = False
                S.faults_active = True
                pad = "v" * max(8, min(300, S.max_msg - 120))
                refused = 0
                for i in range(60):
                    p = S.request(rng.choice([C, O]), "set", {"path": "v/s", "value": pad + str(i), "timeout": 60})
                    S.settle()
                    if p.state == "final":
                        refused += 1
                        if refused >= rng.choice([1, 1, 2, 3]):
                            break
                S.sig("choked-owner", refused > 0)
                S.stats["choked_owner_refusals"] += refused
            # a request of a third party to another owner must survive V's end
            inflight_other = S.request(C, "call", {"path": "o/m", "args": ["survivor"]})
            S.settle()
            if role in ("unsent-output", "everything"):
                S.sim.wpol(V.fd, budget=0)
                V.healthy = False
                S.request(O, "change", {"path": "o/s", "value": S.next_val(O)})   # notification gets stuck in V's buffer
                S.settle()
        # phase: leave V in the middle of something
        body_ = json.dumps({"id": 999, "method": "info"}).encode()
        if not pre_upgrade:
            if t != "ws":
                if phase == "mid-prefix":
                    S.send_bytes(V, struct.pack(">I", len(body_))[:rng.choice([1, 2, 3])])
                elif phase == "mid-message":
                    S.send_bytes(V, struct.pack(">I", len(body_)) + body_[:rng.randrange(0, len(body_))])
                elif phase == "after-zero-length":
                    S.send_bytes(V, b"\x00\x00\x00\x00")
            else:
                fr = wire.ws_frame(1, body_, mask=b"\x01\x02\x03\x04")
                if phase == "mid-ws-header":
                    S.send_bytes(V, fr[:rng.choice([1, 2, 4, 5])])
                elif phase == "mid-ws-payload":
                    S.send_bytes(V, fr[:rng.randrange(7, len(fr))])
                elif phase == "mid-fragmented":
                    S.send_bytes(V, wire.ws_frame(1, body_[:5], fin=0))
                    V.may_close = True
            if phase not in ("between", "after-101"):
                V.track_input = False
            S.settle()
        # the end
        V.may_close = True
        V.track_input = False
        if phase.startswith("mid-"):
            V.ledger = False      # the ending's bytes complete the unfinished unit: whatever that yields is V's own business
        if ending == "fin":
            S.end(V, "eof")
        elif ending == "rst":
            S.settle()
            S.end(V, "rst")
        elif ending == "oversize":
            if t == "ws":
                S.send_bytes(V, bytes([0x81, 0xfe]) + struct.pack(">H", S.max_msg + 50) + b"\x00\x00\x00\x00" + b"x" * 20)
            else:
                S.send_bytes(V, struct.pack(">I", S.max_msg + 1) + b"xx")
        elif ending in ("bad-json", "non-object", "stray-response"):
            pl = {"bad-json": b'{"id":1,"method":', "non-object": b"[1,2]", "stray-response": b'{"id":5,"result":1}'}[ending]
            if pre_upgrade:
                S.send_bytes(V, b"\x00garbage\r\n\r\n")
            else:
                S.send_bytes(V, S.frame_for(V, pl), pick_chunks(rng))
        elif ending.startswith("close-"):
            pl = {"close-1000": struct.pack(">H", 1000), "close-1001": struct.pack(">H", 1001) + b"bye", "close-999": struct.pack(">H", 999),
                  "close-1byte": b"\x03", "close-badutf8": struct.pack(">H", 1000) + b"\xff\xfe"}[ending]
            S.send_bytes(V, wire.ws_frame(8, pl))
        elif ending in ("response-send-fails", "pong-send-fails", "response-send-fails-buffer-full", "pong-send-fails-buffer-full"):
            # the daemon's own send to V fails while V's request / ping is being answered: daemon-side close after a send error
            import errno as E
            V.healthy = False
            if ending.endswith("buffer-full"):
                S.sim.wpol(V.fd, budget=0)
                wbuf = int(S.cfg.get("CONFIG_MAX_WRITE_BUFFER_SIZE", 5120))
                n = wbuf // 100 + 8
            else:
                S.sim.wpol(V.fd, err=rng.choice([E.EPIPE, E.ECONNRESET]), after=0)
                n = 1
            for i in range(n):
                if ending.startswith("pong"):
                    S.send_bytes(V, wire.ws_frame(9, b"p" * 120, mask=b"\x01\x02\x03\x04"))
                else:
                    S.send_bytes(V, S.frame_for(V, json.dumps({"id": 7000 + i, "method": "info"}).encode()))   # ~150 bytes of response each
            V.ledger = False
        elif ending == "unmasked":
            S.send_bytes(V, wire.ws_frame(1, body_, mask=None))
        elif ending == "unmasked-empty":
            S.send_bytes(V, wire.ws_frame(rng.choice([1, 2]), b"", mask=None, lenenc=rng.choice([7, 16])))
        elif ending == "unmasked-empty-control":
            S.send_bytes(V, wire.ws_frame(rng.choice([8, 9, 10]), b"", mask=None))
        elif ending == "rsv":
            S.send_bytes(V, wire.ws_frame(1, body_, rsv=4))
        elif ending == "bad-opcode":
            S.send_bytes(V, wire.ws_frame(5, body_))
        S.settle(**batch_policy(rng))
        if phase in ("mid-prefix", "mid-message", "mid-ws-header", "mid-ws-payload") and ending not in ("fin", "rst"):
            # the protocol violation is still behind unfinished input: finish with FIN
            S.end(V, "eof")
            S.settle()
        if not V.closed:
            S.v("conn/ended-connection-not-released", "V (%s) after %s in phase %s" % (t, ending, phase))
        # nobody else is disturbed: the survivor is answered, new traffic works, replicas are exact (checked by settle)
        if inflight_other is not None and inflight_other.state == "forwarded":
            S.reply(O, inflight_other, "result")
        S.request(O, "change", {"path": "o/s", "value": S.next_val(O)})
        S.request(C, "get", {})
        S.settle()
        if inflight_other is not None and inflight_other.state != "final":
            S.v("conn/third-party-request-lost", "state %s" % inflight_other.state)
        # routed requests towards V have been answered with an error (route/no-final-answer otherwise); late traffic for V is impossible
        S.advance(40 * 10**9)
        S.settle()
        st = S.close_all()
        S.check_idle_baseline(st)
        S.shutdown()
        return S.ops[:10]
    sim_case(case, res, body)
