"""Driver side of simd: process control and the command protocol."""
import json, os, re, subprocess, tempfile, signal

AF_INET, AF_INET6, AF_UNIX = 2, 10, 1


class DaemonDied(Exception):
    """simd vanished (sanitizer abort, signal, ...) while a command was outstanding."""


class DaemonExited(Exception):
    """cjet_main returned although the scenario expected a running daemon."""
    def __init__(self, status):
        Exception.__init__(self, "cjet_main returned %r" % (status,))
        self.status = status


class Hang(Exception):
    pass


def default_env(fill_byte=None, reuse=False):
    env = dict(os.environ)
    asan = ("abort_on_error=0:exitcode=97:detect_leaks=1:detect_stack_use_after_return=1:"
            "allocator_may_return_null=1:handle_abort=1:print_summary=1:symbolize=1")
    if reuse:
        # no quarantine: released memory is handed out again at once, as a production allocator does. What is lost is the
        # detection of late accesses to released memory; what is gained is that behaviour which depends on an address (or a
        # descriptor-like handle derived from one) coming back shows as wrong behaviour
        asan += ":quarantine_size_mb=0:thread_local_quarantine_size_kb=0"
    if fill_byte is not None:
        asan += ":max_malloc_fill_size=1048576:malloc_fill_byte=%d" % fill_byte
    env["ASAN_OPTIONS"] = asan
    env["UBSAN_OPTIONS"] = "print_stacktrace=1:halt_on_error=1:exitcode=98"
    env["LSAN_OPTIONS"] = "exitcode=96:print_suppressions=0"
    env["MSAN_OPTIONS"] = "halt_on_error=1:exitcode=95"
    return env


class Sim:
    def __init__(self, binary, args=("-f",), fill_byte=None, timeout=60, startup_inject=None, reuse=False):
        self.binary = binary
        self.errfile = tempfile.TemporaryFile()
        env = default_env(fill_byte, reuse)
        if startup_inject:
            env["SIMK_STARTUP_INJECT"] = startup_inject
        self.p = subprocess.Popen([binary] + list(args), stdin=subprocess.PIPE, stdout=subprocess.PIPE,
                                  stderr=self.errfile, env=env)
        self.timeout = timeout
        self.exited = None
        self.ncmd = 0
        self.delivered_batches = []
        first = self._read()
        if "exit" in first:
            self.exited = first["exit"]
            if startup_inject:
                return          # the caller inspects the post-mortem state (stat / taps still answer)
            raise DaemonExited(first["exit"])
        self.pending = first.get("pending", [])
        ls = self.cmd("listeners")["listeners"]
        self.listeners = {}
        for l in ls:
            if l["family"] == AF_UNIX:
                self.listeners["uds"] = l["fd"]
            elif l["port"] == 11122:
                self.listeners.setdefault("jet", l["fd"])
            elif l["port"] == 11123:
                self.listeners.setdefault("ws", l["fd"])
        self.all_listeners = ls

    # -- low level ---------------------------------------------------
    def _alarm(self, signum, frame):
        raise Hang("simd did not answer within %ds" % self.timeout)

    def _read(self):
        old = signal.signal(signal.SIGALRM, self._alarm)
        signal.alarm(self.timeout)
        try:
            line = self.p.stdout.readline()
        finally:
            signal.alarm(0)
            signal.signal(signal.SIGALRM, old)
        if not line:
            raise DaemonDied()
        return json.loads(line)

    def cmd(self, s):
        self.ncmd += 1
        try:
            self.p.stdin.write((s + "\n").encode())
            self.p.stdin.flush()
        except (BrokenPipeError, OSError):
            raise DaemonDied()
        return self._read()

    # -- commands ----------------------------------------------------
    def poll(self, **kw):
        """one epoll_wait batch; returns the idle record of the *next* epoll_wait"""
        args = " ".join("%s=%s" % (k, ",".join(map(str, v)) if isinstance(v, (list, tuple)) else v)
                        for k, v in kw.items() if v is not None)
        r = self.cmd("poll " + args)
        if "exit" in r:
            self.exited = r["exit"]
            raise DaemonExited(r["exit"])
        self.pending = r["pending"]
        self.delivered_batches.append(r["delivered"])
        return r

    def settle(self, maxpolls=400, **kw):
        """poll until no registration has a pending edge"""
        n = 0
        r = self.poll(**kw)
        while r["pending"]:
            n += 1
            if n > maxpolls:
                raise Hang("daemon never became quiescent")
            r = self.poll(**kw)
        return r

    def connect(self, ep="jet", addr=("4", "127.0.0.1", 40000)):
        lfd = self.listeners[ep] if isinstance(ep, str) else ep
        if addr[0] == "u":
            r = self.cmd("connect %d u - 0" % lfd)
        else:
            r = self.cmd("connect %d %s %s %d" % (lfd, addr[0], addr[1], addr[2]))
        if "c" not in r:
            raise RuntimeError("connect failed: %r" % r)
        return r["c"]

    def send(self, fd, data):
        if not data:
            return {"queued": 0}
        return self.cmd("send %d %s" % (fd, data.hex()))

    def eof(self, fd):
        return self.cmd("eof %d" % fd)

    def rst(self, fd):
        return self.cmd("rst %d" % fd)

    def wpol(self, fd, budget=None, cap=None, err=None, after=0, once=False):
        s = "wpol %d" % fd
        if budget is not None:
            s += " budget=%s" % ("inf" if budget < 0 else budget)
        if cap is not None:
            s += " cap=%s" % ("inf" if cap < 0 else cap)
        if err is not None:
            s += " err=%d after=%d" % (err, after)
            if once:
                s += " once=1"
        return self.cmd(s)

    def drain(self, fd):
        r = self.cmd("drain %d" % fd)
        r["data"] = bytes.fromhex(r["hex"])
        return r

    def advance(self, ns):
        r = self.cmd("advance %d" % ns)
        self.pending = r["pending"]
        return r

    def inject(self, call, nth, err):
        return self.cmd("inject %s %d %d" % (call, nth, err))

    def failalloc(self, nth, count=1, site=0):
        """site 0: the accounting allocator refuses; site 1: the C library returns NULL inside it"""
        return self.cmd("failalloc %d %d %d" % (nth, count, site))

    def scribble(self, mode):
        return self.cmd("scribble %d" % mode)

    def compression(self, level):
        return self.cmd("compression %d" % level)

    def stat(self):
        return self.cmd("stat")

    def taps(self):
        return self.cmd("taps")

    def sigterm(self):
        r = self.cmd("sigterm")
        if "exit" in r:
            self.exited = r["exit"]
        return r

    def eintr(self):
        """the blocked epoll_wait returns -1 / EINTR (no signal handler of the daemon ran); -> idle record of the next epoll_wait"""
        r = self.cmd("eintr")
        if "exit" in r:
            self.exited = r["exit"]
            raise DaemonExited(r["exit"])
        self.pending = r.get("pending", self.pending)
        return r

    def abortloop(self):
        r = self.cmd("abortloop")
        if "exit" in r:
            self.exited = r["exit"]
        return r

    # -- end of life ---------------------------------------------------
    def finish(self, kill=False):
        """close the control pipe, wait, return (returncode, stderr text)"""
        try:
            if kill:
                self.p.kill()
            else:
                try:
                    self.p.stdin.write(b"quit\n")
                    self.p.stdin.flush()
                except (BrokenPipeError, OSError):
                    pass
            try:
                self.p.stdin.close()
            except (BrokenPipeError, OSError):
                pass
            try:
                rc = self.p.wait(timeout=self.timeout)
            except subprocess.TimeoutExpired:
                self.p.kill()
                rc = self.p.wait()
                rc = "hang"
        finally:
            try:
                self.p.stdout.close()
            except Exception:
                pass
        self.errfile.seek(0)
        err = self.errfile.read().decode("utf-8", "replace")
        self.errfile.close()
        return rc, err


# ----------------------------------------------------------------------
# sanitizer report -> violation key

_FRAME = re.compile(r"^\s*#\d+\s+0x[0-9a-f]+\s+in\s+(\S+)\s+(\S+)?", re.M)
_SKIP = re.compile(r"^(__interceptor_|__asan|__ubsan|__sanitizer|__lsan|__msan|__wrap_|__real_|_start|__libc_|main$|"
                   r"malloc$|calloc$|realloc$|free$|memcpy$|memmove$|strlen$|printf_common|vsnprintf$|snprintf$|__GI_)")


def crash_key(rc, err):
    """Normalise a sanitizer report / abnormal exit into a key: kind@top-cjet-frames"""
    kind = None
    m = re.search(r"(?:ERROR|WARNING): (AddressSanitizer|LeakSanitizer|MemorySanitizer): ([\w-]+)", err)
    if m:
        kind = m.group(2) if m.group(1) != "LeakSanitizer" else "leak"
        if m.group(1) == "MemorySanitizer":
            kind = "msan-" + kind
    else:
        m = re.search(r"runtime error: (.*)", err)
        if m:
            msg = m.group(1)
            msg = re.sub(r"0x[0-9a-f]+", "ADDR", msg)
            msg = re.sub(r"-?\d[\d.e+]*", "N", msg)
            kind = "ubsan:" + re.sub(r"[^A-Za-z]+", "-", msg)[:60].strip("-")
    if kind is None:
        if rc == 0:
            return None
        kind = "exit-%s" % rc
    frames = []
    # first stack in the report
    start = m.end() if m else 0
    for fm in _FRAME.finditer(err, start):
        fn = fm.group(1)
        loc = fm.group(2) or ""
        if _SKIP.match(fn) or "simk.c" in loc:
            continue
        frames.append(fn)
        if len(frames) == 3:
            break
    return kind + "@" + "<-".join(frames)
