"""C13: the HTTP front door: non-upgrades get an error or a close and leave nothing behind."""
import random

from . import hostile, wire
from .runner import scenario, sim_case
from .workloads import pick_chunks

KEY = b"dGhlIHNhbXBsZSBub25jZQ=="


def templates():
    g = wire.ws_handshake(key=KEY)
    return {
        "canonical": g,
        "extra-headers": wire.ws_handshake(key=KEY, extra=[b"Origin: http://x", b"User-Agent: t", b"X-Long: " + b"v" * 200]),
        "multi-protocol": wire.ws_handshake(key=KEY, protocol="chat, jet, other"),
        "lowercase": g.replace(b"Upgrade: websocket", b"upgrade: WebSocket").replace(b"Connection: Upgrade", b"connection: upgrade").replace(b"Sec-WebSocket-Key", b"sec-websocket-key"),
        "target-suffix": wire.ws_handshake(key=KEY, path="/api/jet/sub?x=1"),
    }


def invalid_by_construction():
    g = wire.ws_handshake(key=KEY)
    p = b"/api/jet/"
    return {
        # a peer that talks HTTP in the wrong direction: the first line is a status line
        "response-status-line": b"HTTP/1.1 200 OK\r\nContent-Length: 0\r\n\r\n", "response-then-upgrade": b"HTTP/1.1 200 OK\r\n\r\n" + g,
        "response-101-then-upgrade": b"HTTP/1.1 101 Switching Protocols\r\nUpgrade: websocket\r\nConnection: Upgrade\r\n\r\n" + g,
        # paths are case sensitive
        "path-in-upper-case": g.replace(p, b"/API/JET/"), "path-one-letter-other-case": g.replace(p, b"/api/jeT/"), "path-mixed-case-with-suffix": g.replace(p, b"/aPi/jet/x"),
        "wrong-path": g.replace(p, b"/other/"), "path-prefix-only": g.replace(p, b"/api/je"), "wrong-method": g.replace(b"GET", b"POST"),
        "http-1.0": g.replace(b"HTTP/1.1", b"HTTP/1.0"), "http-0.9": g.replace(b" HTTP/1.1", b""), "no-upgrade-header": g.replace(b"Upgrade: websocket\r\n", b""),
        "no-connection-header": g.replace(b"Connection: Upgrade\r\n", b""), "version-12": g.replace(b"Version: 13", b"Version: 12"),
        "wrong-protocol": g.replace(b"Protocol: jet", b"Protocol: soap"), "short-key": g.replace(KEY, b"abcd"),
        "no-key": g.replace(b"Sec-WebSocket-Key: " + KEY + b"\r\n", b""), "no-version": g.replace(b"Sec-WebSocket-Version: 13\r\n", b""),
        "folded-key": g.replace(b"\r\nSec-WebSocket-Key", b"\r\n Sec-WebSocket-Key"), "long-key": g.replace(KEY, KEY + b"AAAA"),
        "malformed-request-line": g.replace(b"GET /api/jet/ HTTP/1.1", b"GET/api/jet/HTTP/1.1"), "garbage-line": b"\x01\x02\x03 garbage\r\n\r\n",
        "long-request-line": b"GET /api/jet/" + b"a" * 700 + b" HTTP/1.1\r\n\r\n", "long-header-line": g[:-2] + b"X-A: " + b"b" * 700 + b"\r\n\r\n",
        "bad-version-token": g.replace(b"HTTP/1.1", b"HTTX/1.1"), "asterisk-target": g.replace(p, b"*"),
        "plain-get": b"GET /api/jet/ HTTP/1.1\r\nHost: x\r\n\r\n", "connect-method": g.replace(b"GET", b"CONNECT"),
        "space-in-target": g.replace(p, b"/api/jet/ x"), "raw-jet-on-http-port": b"\x00\x00\x00\x18{\"id\":1,\"method\":\"info\"}",
        # a carriage return directly in front of a line end (the delimiter's own first byte once more): request line, a header line,
        # the empty line - each of these requests is complete and is no valid upgrade
        "cr-cr-lf-after-request-line": g.replace(b"HTTP/1.1\r\n", b"HTTP/1.1\r\r\n", 1), "cr-cr-lf-after-wrong-path": b"GET /nope HTTP/1.1\r\r\nHost: x\r\n\r\n",
        # version values that only READ as thirteen
        **{"version-%s" % n: g.replace(b"Version: 13", b"Version: " + v) for n, v in
           (("013", b"013"), ("plus13", b"+13"), ("0013", b"0013"), ("13.0", b"13.0"), ("13x", b"13x"), ("1-3", b"1 3"), ("x13", b"x13"), ("0x0d", b"0x0d"), ("13e0", b"13e0"), ("vt13", b"\x0b13"))},
        "garbage-first-line-only": b"\x01\x02\x03 garbage\r\n",
        "cr-cr-lf-only-line": b"GET /api/jet/ HTTP/1.1\r\r\n", "cr-cr-lf-bare": b"\r\r\n", "cr-cr-lf-after-garbage": b"garbage\r\r\n",
        "cr-cr-lf-after-a-header": g.replace(b"Host: x\r\n", b"Host: x\r\r\n", 1) if b"Host: x\r\n" in g else g[:-2] + b"X-A: b\r\r\n\r\n",
        "cr-cr-lf-as-empty-line": g[:-2] + b"\r\r\n",
        # over-long request lines in which the target shows up again right where a reader with a 512 / 128 byte buffer starts its
        # next piece (whatever is done with such a line, it is one request line with one target)
        **{"long-request-line-target-again-%d" % n: b"GET /api/jet/" + b"a" * n + b"/api/jet/x HTTP/1.1\r\n" + g.split(b"\r\n", 1)[1]
           for n in (96, 110, 113, 114, 115, 116, 127, 128, 480, 494, 497, 498, 499, 500, 511, 512, 1010)},
    }


# requests whose FIRST line is complete (it ends with CRLF) and can not be the start of anything acceptable, whatever might follow:
# nothing is gained by waiting for more
HOPELESS_FIRST_LINE = {"cr-cr-lf-after-garbage", "garbage-first-line-only"}


def class_of(name, d, max_msg):
    """requests of invalid_by_construction() are invalid - except that an 'over-long' line is over-long only if it does not fit
    into the reader's buffer of the configuration at hand"""
    if name.startswith("long-request-line-target-again"):
        n = d.index(b"\r\n") + 2
        return "valid" if n < max_msg - 4 else "invalid" if n > max_msg + 4 else "unclear"
    return "invalid"


@scenario("http")
def http(case, res):
    prm = case["params"]
    mode = prm["mode"]

    def body(S, rng):
        obs = S.connect("obs", "raw")
        S.request(obs, "fetch", {"id": "obs"})
        S.request(obs, "add", {"path": "obs/1", "value": 1})
        S.settle()
        n = 0

        def exchange(data, cls, how="eof", label=""):
            nonlocal n
            n += 1
            c = S.connect("x%d" % n, "ws")
            c.ledger, c.track_input, c.may_close = False, False, True
            c.hs_key = None
            if cls == "valid":
                c.hs_key = KEY
            else:
                import re
                m = re.search(rb"(?im)^sec-websocket-key:[ \t]*([^\r\n]*?)[ \t]*\r?$", data)
                if m and len(m.group(1)) == 24 and data.lower().count(b"sec-websocket-key") == 1:
                    c.hs_key = m.group(1)
            S.send_bytes(c, data, pick_chunks(rng))
            S.settle()
            status = c.dec.status
            closed_early = c.closed
            S.stats["exchanges"] += 1
            S.sig("exchange", cls, label[:24], status, closed_early)
            if cls == "valid":
                if status != 101:
                    S.v("http/valid-upgrade-not-answered-101:" + label, "status %r closed %r" % (status, closed_early))
                else:
                    if c.dec.headers.get("sec-websocket-protocol") != b"jet":
                        S.v("http/101-without-jet-subprotocol", repr(c.dec.head_raw[:200]))
                    # and it is a working peer
                    c.ledger, c.track_input, c.may_close = True, True, False
                    S.request(c, "info")
                    S.settle()
                    c.may_close = True
            elif cls == "invalid":
                if status == 101:
                    S.v("http/non-upgrade-answered-101:" + label, repr(data[:120]))
                elif status is None and not closed_early and (b"\r\n\r\n" in data or label in HOPELESS_FIRST_LINE) and label != "truncated":
                    # the request is complete (its header block ended) and it is not a valid upgrade: waiting for more is no answer
                    S.v("http/complete-non-upgrade-left-pending:" + label, repr(data[:120]))
            # end of the exchange from the client side
            if not c.closed:
                if how == "rst":
                    S.end(c, "rst")
                else:
                    S.end(c, "eof")
                S.settle()
            if cls == "invalid" and status is None and not c.closed:
                S.v("http/neither-error-nor-close:" + label, repr(data[:120]))
            if not c.closed:
                S.v("conn/ended-connection-not-released", "%s %s" % (cls, label))
            if status is not None and status != 101 and not (400 <= status < 600):
                S.v("http/unexpected-status", "%r" % status)
            return status

        if mode == "templates":
            for name, d in templates().items():
                exchange(d, "valid", label=name)
            for name, d in invalid_by_construction().items():
                exchange(d, class_of(name, d, S.max_msg), how=rng.choice(["eof", "rst"]), label=name)
        elif mode == "truncate":
            tn = prm.get("template", "canonical")
            d = templates()[tn]
            part, nparts = prm.get("part", 0), prm.get("nparts", 1)
            for k in range(len(d)):
                if k % nparts != part:
                    continue
                exchange(d[:k], "invalid", how="eof" if (k + part) % 2 else "rst", label="truncated")
            S.stats["truncation_points"] += len(range(part, len(d), nparts))
        elif mode == "corrupt":
            tn = prm.get("template", "canonical")
            d = templates()[tn]
            part, nparts = prm.get("part", 0), prm.get("nparts", 1)
            for i in range(len(d)):
                if i % nparts != part:
                    continue
                b = bytearray(d)
                b[i] = rng.choice([0, 0x20, 0x0a, 0x0d, 0x3a, 0x7f, 0xff, b[i] ^ 0x20, b[i] ^ 1, ord("\t")])
                exchange(bytes(b), "unclear", label="corrupt")
            S.stats["corruption_points"] += len(range(part, len(d), nparts))
        elif mode == "shutdown-midway":
            # SIGTERM finds connections in every stage of an exchange: nothing sent, inside the request line, request line
            # accepted, inside the header block, upgraded; the shutdown sequence must release each of them exactly once
            tn = prm.get("template", "canonical")
            d = templates()[tn]
            eol = d.index(b"\r\n") + 2
            cuts = sorted(set([0, 1, eol - 3, eol - 1, eol, eol + 1, eol + 20, len(d) - 5, len(d) - 2, len(d) - 1, len(d)] + [rng.randrange(len(d)) for _ in range(4)]))
            rng.shuffle(cuts)
            for k in cuts[:prm.get("conns", 9)]:
                c = S.connect("m%d" % k, "ws")
                c.ledger, c.track_input, c.may_close = False, False, True
                if k:
                    S.send_bytes(c, d[:k], pick_chunks(rng))
                S.settle()
                S.sig("open-at-sigterm", "nothing" if k == 0 else "in-request-line" if k < eol else "request-line-done" if k == eol else "in-headers" if k < len(d) else "upgraded")
            S.stats["exchanges"] += len(cuts)
            S.shutdown()
            return [mode, tn, len(cuts)]
        elif mode == "burst":
            # many connections become pending on the listener between two wake-ups of the daemon (a burst while it was busy): the
            # listener is edge triggered, whatever is queued has to be taken now - each exchange is judged like a single one
            inv = invalid_by_construction()
            tmpl = templates()
            for rnd in range(prm.get("rounds", 2)):
                k = rng.choice([9, 10, 11, 12, 20, 33, 64])
                conns = []
                for i in range(k):
                    n += 1
                    c = S.connect("x%d" % n, "ws")
                    c.ledger, c.track_input, c.may_close = False, False, True
                    if rng.random() < 0.25:
                        name, cls = rng.choice(sorted(tmpl)), "valid"
                        data = tmpl[name]
                        c.hs_key = KEY
                    else:
                        name = rng.choice(sorted(inv))
                        data = inv[name]
                        cls = class_of(name, data, S.max_msg)
                        c.hs_key = KEY if cls != "invalid" else None
                    if rng.random() < 0.8:
                        S.send_bytes(c, data, pick_chunks(rng))
                        sent = True
                    else:
                        sent = False
                    conns.append((c, name, cls, data, sent))
                fault = rng.random() < 0.45
                if fault:
                    # the set-up of one of the accepted sockets fails: that exchange ends without an answer (closed), the others are
                    # judged as usual, nothing of the failed one stays behind
                    import errno as E
                    S.sim.inject(rng.choice(["fcntl", "setsockopt", "getsockname", "epoll_ctl", "setsockopt"]), rng.randrange(1, 2 * k), rng.choice([E.ENOBUFS, E.ENOMEM, E.EINVAL]))
                    S.inject_active = True
                    S.stats["burst_setup_faults"] += 1
                S.settle()
                if fault:
                    for call in ("fcntl", "setsockopt", "getsockname", "epoll_ctl"):
                        S.sim.inject(call, 0, 0)
                unanswered_ok = 1 if fault else 0
                S.sig("burst", min(k, 12), rnd, fault)
                S.stats["burst_connections"] += k
                for c, name, cls, data, sent in conns:
                    if not sent:
                        S.send_bytes(c, data, pick_chunks(rng))
                S.settle()
                for c, name, cls, data, sent in conns:
                    S.stats["exchanges"] += 1
                    status = c.dec.status
                    if not c.accepted:
                        S.v("conn/pending-connection-not-accepted", "%s (%s) of a burst of %d" % (c.name, name, k))
                        break
                    if cls == "valid" and status is None and c.closed and unanswered_ok:
                        unanswered_ok -= 1          # the one whose set-up failed
                        continue
                    if cls == "valid" and status != 101:
                        S.v("http/valid-upgrade-not-answered-101:" + name, "in a burst of %d: status %r closed %r" % (k, status, c.closed))
                    if cls == "invalid" and status == 101:
                        S.v("http/non-upgrade-answered-101:" + name, "in a burst of %d" % k)
                    if cls == "invalid" and status is None and not c.closed and b"\r\n\r\n" in data:
                        S.v("http/complete-non-upgrade-left-pending:" + name, "in a burst of %d" % k)
                for c, name, cls, data, sent in conns:
                    if not c.closed:
                        S.end(c, rng.choice(["eof", "rst"]))
                S.settle()
                for c, name, cls, data, sent in conns:
                    if not c.closed and c.accepted:
                        S.v("conn/ended-connection-not-released", "%s %s (burst)" % (cls, name))
                        break
        else:   # random mutations of all templates and invalid variants
            pool = list(templates().values()) + list(invalid_by_construction().values()) + hostile.http_requests(rng)
            for _ in range(prm.get("count", 60)):
                exchange(hostile.mutate(rng, rng.choice(pool)), "unclear", how=rng.choice(["eof", "rst"]), label="mutated")
        # nothing is left behind, nobody else was disturbed
        S.request(obs, "change", {"path": "obs/1", "value": 2})
        S.settle()
        st = S.sim.stat()
        if st["peers"] != 1:
            S.v("http/peer-left-behind", "peers=%d with only the observer connected" % st["peers"])
        st = S.close_all()
        S.check_idle_baseline(st)
        S.shutdown()
        return [mode, prm.get("template"), n]
    sim_case(case, res, body)
