"""Reference model of the jet bus, written from the property statements (not from cjet's code):
path rules, JSON equality, id keys, group access, the hash used to build colliding paths."""
import json, math

MISSING = ("<no value>",)   # replica entry of a method (notifications carry no value)


def jeq(a, b):
    """JSON equality: numbers numerically (ints and floats mix), everything else structurally"""
    if isinstance(a, bool) or isinstance(b, bool):
        return isinstance(a, bool) and isinstance(b, bool) and a == b
    if isinstance(a, (int, float)) and isinstance(b, (int, float)):
        try:
            return float(a) == float(b)
        except OverflowError:
            return a == b
    if type(a) != type(b):
        return False
    if isinstance(a, dict):
        return a.keys() == b.keys() and all(jeq(a[k], b[k]) for k in a)
    if isinstance(a, list):
        return len(a) == len(b) and all(jeq(x, y) for x, y in zip(a, b))
    return a == b


def id_key(v):
    """key of a JSON-RPC id for matching responses; None when the id is not string/number"""
    if isinstance(v, bool):
        return None
    if isinstance(v, str):
        return ("s", v)
    if isinstance(v, (int, float)):
        try:
            f = float(v)
        except OverflowError:
            return ("n", v)
        if math.isnan(f):
            return None
        return ("n", f)
    return None


def _fold(b):
    """ASCII-only case folding on bytes"""
    return bytes(c + 32 if 65 <= c <= 90 else c for c in b)


MATCHERS = ("equals", "equalsNot", "startsWith", "endsWith", "contains", "containsAllOf")


class Rule:
    """a well-formed path rule: dict of matcher -> operand (str, or list of str for containsAllOf),
    optional caseInsensitive: bool.  None = select everything."""

    def __init__(self, d):
        self.d = d
        self.ci = d.get("caseInsensitive") is True
        self.ms = [(k, v) for k, v in d.items() if k != "caseInsensitive"]

    @staticmethod
    def well_formed(d, max_matchers=12):
        if not isinstance(d, dict):
            return False
        n = 0
        for k, v in d.items():
            if k == "caseInsensitive":
                if not isinstance(v, bool):
                    return False
                continue
            if k not in MATCHERS:
                return False
            if k == "containsAllOf":
                if not isinstance(v, list) or not v or not all(isinstance(x, str) for x in v):
                    return False
            elif not isinstance(v, str):
                return False
            n += 1
        return 1 <= n <= max_matchers

    def matches(self, path):
        p = path.encode("utf-8", "surrogateescape")
        if self.ci:
            p = _fold(p)
        for k, v in self.ms:
            if k == "containsAllOf":
                ops = [x.encode("utf-8", "surrogateescape") for x in v]
            else:
                ops = [v.encode("utf-8", "surrogateescape")]
            if self.ci:
                ops = [_fold(o) for o in ops]
            o = ops[0]
            if k == "equals":
                ok = p == o
            elif k == "equalsNot":
                ok = p != o
            elif k == "startsWith":
                ok = p.startswith(o)
            elif k == "endsWith":
                ok = p.endswith(o)
            elif k == "contains":
                ok = o in p
            else:
                ok = all(x in p for x in ops)
            if not ok:
                return False
        return True


def rule_matches(rule, path):
    return True if rule is None else rule.matches(path)


# ----------------------------------------------------------------------
# the table hash (only used to *generate* colliding keys; never part of an oracle)

def _hs_hash32(key, order):
    key &= 0xffffffff
    key = ((key ^ 61) ^ (key >> 16)) & 0xffffffff
    key = (key + (key << 3)) & 0xffffffff
    key = key ^ (key >> 4)
    key = (key * 0x27d4eb2d) & 0xffffffff
    key = key ^ (key >> 15)
    return key >> (32 - order)


def string_hash(s, order):
    h = 0
    for c in s.encode("utf-8", "surrogateescape"):
        if c >= 128:
            c = (c - 256) & 0xffffffff   # plain char is signed on x86
        h = (((c + (h << 6)) + (h << 16)) - h) & 0xffffffff
    return _hs_hash32(h, order)


def colliding_paths(order, n, prefix="c", bucket=None, start=0):
    """n distinct short paths whose home bucket in a table of 2^order is the same"""
    out = []
    i = start
    while len(out) < n:
        s = "%s%d" % (prefix, i)
        h = string_hash(s, order)
        if bucket is None:
            bucket = h
        if h == bucket:
            out.append(s)
        i += 1
    return out


_CLUSTER = {}


def cluster_paths(order, first, nbuckets, per, prefix="q"):
    """`per` paths for each of `nbuckets` consecutive home buckets starting at `first` (modulo the table size): a dense run
    of occupied slots in which insertions have to displace entries (hopscotch find-closer-entry)"""
    k = (order, first, nbuckets, per, prefix)
    if k not in _CLUSTER:
        size = 1 << order
        want = {(first + i) % size: [] for i in range(nbuckets)}
        missing = nbuckets
        i = 0
        while missing:
            s = "%s%d" % (prefix, i)
            i += 1
            l = want.get(string_hash(s, order))
            if l is not None and len(l) < per:
                l.append(s)
                if len(l) == per:
                    missing -= 1
        _CLUSTER[k] = [x for b in sorted(want) for x in want[b]]
    return _CLUSTER[k]


# ----------------------------------------------------------------------
class Elem:
    __slots__ = ("path", "owner", "is_state", "value", "fetch_only", "timeout", "groups")

    def __init__(self, path, owner, is_state, value, fetch_only, timeout, groups):
        self.path, self.owner, self.is_state, self.value = path, owner, is_state, value
        self.fetch_only, self.timeout, self.groups = fetch_only, timeout, groups


class Creds:
    """what a credential file grants; users: name -> dict(password, fetchGroups, setGroups, callGroups, admin, readonly)"""

    def __init__(self, users):
        self.users = users
        known = []
        for u in users.values():
            for k in ("fetchGroups", "setGroups", "callGroups"):
                for g in u.get(k, []):
                    if g not in known:
                        known.append(g)
        self.known = known

    def filt(self, groups):
        return set(g for g in (groups or []) if isinstance(g, str) and g in self.known)

    def file_json(self, crypt_fn):
        d = {"users": {}}
        for name, u in self.users.items():
            e = {"password": u["hash"] if u.get("hash") is not None else crypt_fn(u["password"]),
                 "auth": {k: u[k] for k in ("fetchGroups", "setGroups", "callGroups") if k in u}}
            if u.get("admin"):
                e["admin"] = True
            if u.get("readonly"):
                e["readonly"] = True
            d["users"][name] = e
        return json.dumps(d, indent=1)
