"""Seeded workload generators on top of the Session engine."""
import json

from .engine import AUTO
from .model import colliding_paths, cluster_paths

CHUNKS = ["whole", "whole", "whole", "bytes", 1, 2, 3, 5, 7, "rand", "rand"]

OPERANDS = ["", "a", "A", "ab", "aB", "a/b", "a/b/c", "b", "b/a", "/", "a/", "/a", "B/A", "x", "ü", "Ü", "ü/a", "aa", "AA",
            "a/b/c/d/e/f/g/h/i/j/k/l/m/n/o/p/q/r/s/t/u/v/w/x/y/z", "z", "é", "a b", "a\tb", "c0", "€"]


def pick_chunks(rng):
    return rng.choice(CHUNKS)


def batch_policy(rng):
    """kernel choice for one settle: how readiness events are batched and ordered"""
    r = rng.random()
    if r < 0.4:
        return {}
    if r < 0.6:
        return {"shuffle": rng.randrange(1, 1 << 30)}
    if r < 0.8:
        return {"max": rng.choice([1, 1, 2, 3])}
    return {"shuffle": rng.randrange(1, 1 << 30), "max": rng.choice([1, 2, 3, 5])}


def random_rule(rng, paths, allow_none=True):
    if allow_none and rng.random() < 0.25:
        return None
    d = {}
    pool = list(paths) + OPERANDS[:14]
    for _ in range(rng.choice([1, 1, 1, 2, 2, 3])):
        m = rng.choice(["equals", "equalsNot", "startsWith", "endsWith", "contains", "containsAllOf"])
        if m == "containsAllOf":
            d[m] = [_sub(rng, rng.choice(pool)) for _ in range(rng.choice([1, 2, 3]))]
        elif m in ("equals", "equalsNot"):
            d[m] = rng.choice(pool)
        else:
            d[m] = _sub(rng, rng.choice(pool))
    if rng.random() < 0.3:
        d["caseInsensitive"] = rng.random() < 0.8
        if rng.random() < 0.5:
            d = {k: (v.swapcase() if isinstance(v, str) else [x.swapcase() for x in v] if isinstance(v, list) else v) for k, v in d.items()}
    return d


def _sub(rng, s):
    if not s:
        return s
    i = rng.randrange(len(s))
    j = rng.randrange(i, len(s)) + 1
    return s[i:j]


class Bus:
    """random traffic on the bus: the common workload of the behavioural checks"""

    def __init__(self, S, rng, opts=None):
        self.S, self.rng = S, rng
        o = dict(transports=["raw", "raw", "uds", "ws"], n_peers=(2, 5), paths=None, weights=None, observer=True,
                 p_settle=0.6, churn=True, timeouts=True, colliding=0, max_elems=None, id_less=0.15, hostile_owner=0.1)
        o.update(opts or {})
        self.o = o
        eo = int(S.cfg.get("CONFIG_ELEMENT_TABLE_ORDER", 13))
        base = ["a", "a/b", "a/b/c", "A/b", "ab", "b", "b/a", "ü/x", "x", "B", "a/B/c", "abc", "c/a", "z/Zone", "Z/zONE"]      # (the last two: the letters at the end of the alphabet, in both cases)
        if o["colliding"]:
            base = base[:5] + colliding_paths(eo, o["colliding"], prefix="k")
        if o.get("cluster"):
            nb, per, where = o["cluster"]
            first = {"low": 100, "wrap": (1 << eo) - nb // 2}[where]
            base = base[:3] + cluster_paths(eo, first, nb, per)
        if o.get("rich"):
            base = base + ["", " ", "p" * 150, "\u00e4\u00f6\u00fc\u20ac\U0001F600", "a\tb\"c\\d", "\u0001", "q/" * 40, "A/B", "a/b/",
                           # a character outside ASCII directly followed by a letter or digit that is also a hexadecimal digit (sent escaped as
                           # \uXXXX in half of the requests: where does the escape end?)
                           "temp/\u00e91", "\u00dfe", "\u00b0C", "\u00e9a", "\u00e9",
                           # paths that are not UTF-8 (escaped surrogates stand for the raw bytes): truncated at the end, stray continuation
                           "caf\udcc3", "eur\udce2\udc82", "\udc80x", "t/\udcf0\udc9f\udc98"]
        self.paths = o["paths"] or base
        self.npeer = 0
        self.peers = []
        self.log = S.ops

    # -- helpers -----------------------------------------------------
    def note(self, *a):
        self.log.append(list(a))

    # (no string with an embedded NUL: the vendored JSON library documents that it cannot hold one - "\u0000" is cut off there - so
    # such values stay out of the behavioural oracles and are only used where "no crash" is the question)
    SPECIAL_VALUES = [None, False, True, 0, -1, 0.5, "", " ", "null", "true", {}, [], [None], {"": None}, {"value": None}, [[]], "\u00fc", "a\"b\\c/d", "\u00e9a1", "\u00b0C",
                      2147483648, 4294967296, 1e15, "x" * 200]

    def val(self, c, bare_ok=False):
        if bare_ok and (self.S.seed + self.S.valc) % 5 == 0:
            # a bare special value (not wrapped, not unique): whoever tests a value for truth, emptiness or type instead of copying it shows
            self.S.valc += 1
            return self.SPECIAL_VALUES[(self.S.seed // 5 + self.S.valc) % len(self.SPECIAL_VALUES)]
        v = self.S.next_val(c)
        if self.o.get("rich") and self.rng.random() < 0.6:
            from .hostile import rnd_json
            x = rnd_json(self.rng)
            if len(json.dumps(x)) < 160:
                r = self.rng.random()
                if r < 0.3:
                    return [v, x]
                if r < 0.5:
                    return [x, v, None]
                v["x"] = x
        return v

    def near_same(self, v):
        """a value that differs from v as little as JSON allows (or not at all): whoever compares instead of copying shows"""
        import copy
        rng = self.rng
        v = copy.deepcopy(v)
        r = rng.random()
        if r < 0.2:
            return v                                    # the same value again
        def flip(k):
            return k.swapcase() if k.swapcase() != k else k + "_"
        if isinstance(v, dict) and v:
            k = rng.choice(sorted(v))
            if r < 0.6:
                v[flip(k)] = v.pop(k)                   # member name in the other letter case
            elif r < 0.8:
                x = v[k]
                v[k] = str(x) if isinstance(x, (int, float)) and not isinstance(x, bool) else [x]
            else:
                v[k + " "] = v.pop(k)
            return v
        if isinstance(v, list) and v:
            if r < 0.6 and isinstance(v[-1], dict) and v[-1]:
                k = sorted(v[-1])[0]
                v[-1][flip(k)] = v[-1].pop(k)
                return v
            return v[:-1] if r < 0.8 else v + [None]
        if isinstance(v, bool):
            return int(v)
        if isinstance(v, (int, float)):
            return rng.choice([str(v), v + 1, float(v), [v]])
        if isinstance(v, str):
            return rng.choice([v.swapcase(), v + " ", v[:-1]])
        return [v]

    def alive(self):
        return [c for c in self.peers if c.alive()]

    def new_peer(self, transport=None):
        S, rng = self.S, self.rng
        t = transport or rng.choice(self.o["transports"])
        name = "p%d" % self.npeer
        self.npeer += 1
        addr = None
        if t != "uds":
            addr = rng.choice([("4", "127.0.0.1", 40000 + self.npeer), ("6", "::1", 41000 + self.npeer),
                               ("6", "::ffff:127.0.0.1", 42000 + self.npeer), ("4", "10.1.2.3", 43000 + self.npeer),
                               ("6", "2001:db8::7", 44000 + self.npeer)])
        c = S.connect(name, t, addr)
        self.note("connect", name, t, addr)
        if t == "ws":
            S.handshake(c, chunks=pick_chunks(rng))
        self.peers.append(c)
        return c

    def settle(self):
        pol = batch_policy(self.rng)
        self.note("settle", pol)
        if (self.S.seed + self.S.stats["quiescent_points"]) % 23 == 0:
            # the wait for events is interrupted (process stopped and continued): no reason to leave the loop or to lose an event
            self.S.sim.eintr()
            self.S.stats["interrupted_waits"] += 1
        return self.S.settle(**pol)

    def start(self):
        S = self.S
        S.per_conn_ids = self.o.get("per_conn_ids", True) and (S.seed // 3) % 2 == 1       # (derived from the case seed, not drawn: the generator's random stream is unchanged)
        if self.o["observer"]:
            self.obs = S.connect("obs", "raw")
            S.request(self.obs, "fetch", {"id": "obs"})
            self.note("observer fetch-all")
        lo, hi = self.o["n_peers"]
        for _ in range(self.rng.randint(lo, hi)):
            self.new_peer()
        self.settle()

    def own_elems(self, c, state=None):
        return [e for e in self.S.elements.values() if e.owner is c and (state is None or e.is_state == state)]

    def forwarded(self):
        out = []
        for c in list(self.S.conns.values()):
            for p in c.pending.values():
                if p.state == "forwarded" and p.owner is not None and p.owner.alive():
                    out.append(p)
        for p in self.S.idless:
            if p.state == "forwarded" and p.owner is not None and p.owner.alive() and p.reply is None:
                out.append(p)
        return out

    # -- operations --------------------------------------------------
    def op_add(self):
        S, rng = self.S, self.rng
        al = self.alive()
        if not al:
            return
        c = rng.choice(al)
        path = rng.choice(self.paths)
        pr = {"path": path}
        if rng.random() < 0.75:
            pr["value"] = self.val(c, bare_ok=True)
            if rng.random() < 0.15:
                pr["fetchOnly"] = True
        if self.o["timeouts"] and rng.random() < 0.3:
            pr["timeout"] = rng.choice([0.5, 1, 2.5, 10, 10, 4294967296.5])       # (the last: whole seconds above 32 bits)
        if "value" in pr:
            self.maybe_fill_message(c, "add", pr)
        self.note("add", c.name, pr)
        S.request(c, "add", pr, chunks=pick_chunks(rng))

    def maybe_fill_message(self, c, method, pr):
        """now and then the value is a string that makes the request (almost) as long as a message may be: what the daemon sends on
        because of it (notifications with a fetch id and an event name, forwarded requests with a longer id) is longer than that"""
        S = self.S
        if (S.seed + S.valc + S.idc) % 17:
            return
        limit = S.max_msg if c.transport != "ws" else S.max_msg - 14
        room = limit - len(json.dumps({"id": 99999999, "method": method, "params": dict(pr, value="")}))
        if room > 10:
            S.valc += 1
            pr["value"] = "f%d" % S.valc + "i" * (room - len("f%d" % S.valc) - (S.valc % 4) * 5)
            S.sig("message-filled-to-the-limit", method, (S.valc % 4) * 5)

    def op_remove(self):
        S, rng = self.S, self.rng
        al = self.alive()
        if not al:
            return
        c = rng.choice(al)
        own = self.own_elems(c)
        r = rng.random()
        if own and r < 0.7:
            path = rng.choice(own).path
        elif S.elements and r < 0.85:
            path = rng.choice(sorted(S.elements))
        else:
            path = rng.choice(self.paths)
        self.note("remove", c.name, path)
        S.request(c, "remove", {"path": path}, chunks=pick_chunks(rng))

    def op_change(self):
        S, rng = self.S, self.rng
        al = self.alive()
        if not al:
            return
        c = rng.choice(al)
        own = self.own_elems(c, True)
        r = rng.random()
        if own and r < 0.75:
            path = rng.choice(own).path
        elif S.elements and r < 0.9:
            path = rng.choice(sorted(S.elements))
        else:
            path = rng.choice(self.paths)
        pr = {"path": path, "value": self.val(c, bare_ok=True)}
        e = S.elements.get(path)
        if e is not None and e.is_state and rng.random() < 0.25:
            pr["value"] = self.near_same(e.value)
            S.sig("change-to-near-same-value", type(e.value).__name__)
        self.maybe_fill_message(c, "change", pr)
        self.note("change", c.name, pr)
        S.request(c, "change", pr, chunks=pick_chunks(rng))

    def op_fetch(self):
        S, rng = self.S, self.rng
        al = self.alive()
        if not al:
            return
        c = rng.choice(al)
        active = [f for f in c.fetches.values() if f.state == "active"]
        unf_pending = any(p.method == "unfetch" for p in c.pending.values())
        if active and not unf_pending and rng.random() < 0.1:
            fid = rng.choice(active).fid
        else:
            self.fidc = getattr(self, "fidc", 0) + 1
            n = self.fidc
            if S.per_conn_ids:
                c.fidc += 1         # fetches numbered per connection: the same fetch ids on different connections
                n = c.fidc
            fid = rng.choice(["f%d" % n, n + 1000])
        pr = {"id": fid}
        rule = random_rule(rng, self.paths)
        if rule is not None:
            pr["path"] = rule
        self.note("fetch", c.name, pr)
        S.request(c, "fetch", pr, chunks=pick_chunks(rng))

    def op_unfetch(self):
        S, rng = self.S, self.rng
        al = self.alive()
        if not al:
            return
        c = rng.choice(al)
        active = [f for f in c.fetches.values() if f.state == "active"]
        if active and rng.random() < 0.85 and not any(p.method in ("fetch", "unfetch") for p in c.pending.values()):
            fid = rng.choice(active).fid
        else:
            fid = "nofetch%d" % rng.randrange(100)
        self.note("unfetch", c.name, fid)
        S.request(c, "unfetch", {"id": fid}, chunks=pick_chunks(rng))

    def op_get(self):
        S, rng = self.S, self.rng
        al = self.alive()
        if not al:
            return
        c = rng.choice(al)
        pr = {}
        rule = random_rule(rng, self.paths)
        if rule is not None:
            pr["path"] = rule
        self.note("get", c.name, pr)
        S.request(c, "get", pr, chunks=pick_chunks(rng))

    def op_route(self):
        S, rng = self.S, self.rng
        al = self.alive()
        if not al:
            return
        c = rng.choice(al)
        elems = sorted(S.elements)
        r = rng.random()
        if elems and r < 0.9:
            path = rng.choice(elems)
        else:
            path = rng.choice(self.paths)
        e = S.elements.get(path)
        m = "set" if (e is None or e.is_state) else "call"
        if rng.random() < 0.1:
            m = "call" if m == "set" else "set"
        pr = {"path": path}
        if m == "set":
            pr["value"] = self.val(c)
        else:
            pr["args"] = rng.choice([[S.next_val(c)], {"k": S.next_val(c)}])
        if self.o["timeouts"] and rng.random() < 0.3:
            pr["timeout"] = rng.choice([0.25, 1.5, 3, 7, 7, 4294967296.25, 4294967297])
        idv = AUTO
        r = rng.random()
        if r < self.o["id_less"]:
            idv = None
        elif r < self.o["id_less"] + 0.2:
            S.idc += 1
            idv = "s%d" % S.idc
            if r < self.o["id_less"] + 0.06:
                # an id nearly as long as a message may be: the answers that carry it back (owner's payload, timeout, owner gone) are
                # longer than anything the caller itself may send
                room = (S.max_msg if c.transport != "ws" else S.max_msg - 14) - len(json.dumps({"id": idv, "method": m, "params": pr})) - 2
                if room > 20:
                    pad = ("L" * rng.choice([room, room - 1, room // 2, max(1, room - 90), 61, 70]))[:room]
                    # the part that tells two long ids apart at the front or at the very end (a copy that is cut off somewhere keeps
                    # only one of the two kinds apart)
                    idv = idv + pad if (S.seed + S.idc) % 2 else pad + idv
            elif r < self.o["id_less"] + 0.09 and self.o.get("odd_ids", True):
                # ids that are as short or as odd as JSON-RPC allows: "", " ", "0", 0, -1, 1.5 (one of a kind per connection at a time)
                for cand in ("", " ", "0", 0, -1, 1.5, "null"):
                    from .model import id_key
                    if id_key(cand) not in c.pending and id_key(cand) not in c.done and (S.seed + S.idc + len(str(cand))) % 3 != 0:
                        idv = cand
                        S.sig("odd-id-routed", repr(cand))
                        break
        self.note(m, c.name, pr, "no-id" if idv is None else "")
        S.request(c, m, pr, idv=idv, chunks=pick_chunks(rng))

    def op_reply(self):
        S, rng = self.S, self.rng
        fw = self.forwarded()
        if not fw:
            return
        p = rng.choice(fw)
        kind = rng.choice(["result", "result", "error"])
        r = rng.random()
        mode = "right"
        if r < self.o["hostile_owner"]:
            mode = "forged"
        self.note("reply", p.owner.name, p.fwd_id, kind, mode)
        if mode == "right" and 0.80 < r <= 0.95 and (S.seed + S.valc) % 2 == 0:
            # the owner's result / error is a bare special value (null, false, 0, "", {}, [], ...): handed through as it is
            S.valc += 1
            S.reply(p.owner, p, kind, payload=self.SPECIAL_VALUES[(S.seed + S.valc) % len(self.SPECIAL_VALUES)], idmode=mode, chunks=pick_chunks(rng))
            return
        if mode == "right" and r > 0.95:
            # a payload that is longer when the daemon prints it than it was on the wire (raw control characters inside a string,
            # which the JSON library accepts and prints escaped), up to what fits into one message
            room = (S.max_msg if p.owner.transport != "ws" else S.max_msg - 14) - len(json.dumps({"id": p.fwd_id, "result": ""})) - 2
            if room > 8:
                S.reply(p.owner, p, "result", payload="\x01" * rng.choice([room, room // 2, 7]), idmode=mode, chunks=pick_chunks(rng), raw_ctrl=True)
                return
        S.reply(p.owner, p, kind, idmode=mode, chunks=pick_chunks(rng))
        if mode == "right" and rng.random() < 0.08:
            # duplicated reply: the second one must be ignored
            self.note("reply-dup", p.owner.name, p.fwd_id)
            S.send_payload(p.owner, json.dumps({"id": p.fwd_id, "result": "dup"}).encode())

    def op_advance(self):
        S, rng = self.S, self.rng
        dl = [p.deadline for c in S.conns.values() for p in c.pending.values() if p.state == "forwarded" and p.deadline]
        r = rng.random()
        if dl and r < 0.5:
            ns = max(1, min(dl) - S.now + rng.choice([-1, 0, 0, 1]))
        else:
            ns = rng.choice([1000, 10**6, 10**8, 3 * 10**8])
        if S.now + ns > (1 << 62):
            # the simulated clock counts nanoseconds in 64 bits: jumps to deadlines that lie 136 years ahead are taken only while
            # the uptime stays far away from that limit
            ns = rng.choice([1000, 10**6])
        # never leave the daemon non-quiescent across a clock step: a deadline is judged at quiescent points
        self.settle()
        self.note("advance", ns)
        S.advance(ns)
        self.settle()

    def op_connect(self):
        if len(self.alive()) < 7:
            self.new_peer()

    def op_disconnect(self):
        S, rng = self.S, self.rng
        al = self.alive()
        if len(al) <= 1:
            return
        c = rng.choice(al)
        how = rng.choice(["eof", "eof", "rst"])
        if how == "rst":
            # a reset socket fails writes at once: keep that out of the fault-free workloads (C11 explores it)
            self.settle()
        if how == "eof" and c.healthy and (S.seed + S.stats["end_eof"]) % 3 == 0 and not c.pending:
            # last words: a request directly followed by the end of the stream, both waiting when the daemon looks (one readiness
            # event may carry both): the request is still carried out and answered - the client only stopped SENDING
            self.settle()
            if not c.alive() or c.pending:
                return
            own = [e for e in self.own_elems(c) if e.is_state]
            if own and (S.seed + S.stats["end_eof"]) % 2:
                lw = S.request(c, "change", {"path": own[0].path, "value": S.next_val(c)})
            else:
                lw = S.request(c, "info")
            self.note("last-words-then-eof", c.name, lw.method)
            S.end(c, "eof")
            self.settle()
            S.stats["last_words"] += 1
            S.sig("last-words", lw.method, c.transport)
            if lw.state == "sent" and not (S.alloc_faults or S.sys_faults or S.inject_active):
                S.v("rpc/request-directly-in-front-of-the-end-of-stream-not-answered", "%s on %s (%s)" % (lw.method, c.name, c.transport))
            return
        self.note("end", c.name, how)
        S.end(c, how)
        if how == "rst":
            self.settle()

    def op_misc(self):
        S, rng = self.S, self.rng
        al = self.alive()
        if not al:
            return
        c = rng.choice(al)
        if rng.random() < 0.5:
            self.note("config", c.name)
            S.request(c, "config", {"name": "peer-%s" % c.name}, chunks=pick_chunks(rng))
        else:
            self.note("info", c.name)
            S.request(c, "info", chunks=pick_chunks(rng))

    def op_readfault(self):
        """a read() on one connection is interrupted (EINTR) or fails for a moment (ENOBUFS / ENOMEM) while a complete request is
        waiting in its queue: the daemon may give that connection up or try again - but the request is not left lying around on an
        open connection (the descriptor is edge triggered: nothing will announce those bytes a second time)"""
        import errno as E
        S, rng = self.S, self.rng
        al = [c for c in self.alive() if c.healthy and not c.pending]
        if not al:
            return
        c = rng.choice(al)
        self.settle()
        e = rng.choice([E.EINTR, E.EINTR, E.ENOBUFS, E.ENOMEM])
        S.sim.inject("read", 1, e)
        c.may_close = True
        self.note("read-fault", c.name, E.errorcode[e])
        S.sig("read-fault", E.errorcode[e], c.transport)
        S.stats["read_faults"] += 1
        S.request(c, "info")
        self.settle()
        S.sim.inject("read", 0, 0)
        if c.closed:
            S.stats["read_fault_closed_connection"] += 1
            return
        S.request(c, "info")
        self.settle()

    DEFAULT_WEIGHTS = dict(add=14, remove=6, change=12, fetch=8, unfetch=4, get=4, route=12, reply=12, advance=3,
                           connect=2, disconnect=3, misc=2)

    def run(self, n_ops):
        rng = self.rng
        w = dict(self.DEFAULT_WEIGHTS)
        w.update(self.o["weights"] or {})
        names = sorted(w)
        weights = [w[k] for k in names]
        for _ in range(n_ops):
            op = rng.choices(names, weights)[0]
            getattr(self, "op_" + op)()
            if rng.random() < self.o["p_settle"]:
                self.settle()
        self.settle()

    def finale(self, shutdown=True):
        """close everything, compare with the idle baseline, then SIGTERM"""
        S = self.S
        # answer nothing more; close all
        self.note("close-all")
        st = S.close_all(self.rng.choice(["eof", "eof", "rst"]))
        S.check_idle_baseline(st)
        if shutdown:
            self.note("sigterm")
            S.shutdown()
