"""C11: a slow, failing or hostile peer harms only itself."""
import errno, json

from .runner import scenario, sim_case
from .workloads import Bus, batch_policy, pick_chunks

ACCEPT_ERRNOS = [errno.ECONNABORTED, errno.EMFILE, errno.ENFILE, errno.ENOBUFS, errno.ENOMEM, errno.EINTR, errno.EPROTO]


class FaultyBus(Bus):
    def alive(self):
        return [c for c in self.peers if c.alive() and c.healthy]

    def victims(self):
        return [c for c in self.peers if c.alive() and c.healthy]

    def op_fault(self):
        S, rng = self.S, self.rng
        v = self.victims()
        if len(v) < 3:
            self.new_peer()
            return
        c = rng.choice(v)
        kind = rng.choice(["stall", "stall", "stall", "werr", "rst", "garbage", "cap"])
        self.note("fault", c.name, kind)
        S.sig("fault", kind, c.transport, len(c.fetches) > 0, any(e.owner is c for e in S.elements.values()))
        S.faults_active = True
        c.healthy = False
        c.may_close = True
        c.track_input = False
        self.faulty.append(c)
        if kind == "stall":
            S.sim.wpol(c.fd, budget=rng.choice([0, 0, 1, 5, 70]))
        elif kind == "cap":
            S.sim.wpol(c.fd, budget=rng.choice([0, 40]), cap=1)
        elif kind == "werr":
            S.sim.wpol(c.fd, err=rng.choice([errno.EPIPE, errno.ECONNRESET, errno.ENOBUFS]), after=rng.randrange(0, 3))
        elif kind == "rst":
            S.end(c, "rst")
        else:
            S.send_bytes(c, bytes(rng.randrange(256) for _ in range(rng.randrange(1, 40))), pick_chunks(rng))
        S.stats["faults"] += 1

    def op_faultytraffic(self):
        """a faulty peer keeps talking: requests and (WebSocket) pings whose answers cannot be delivered"""
        S, rng = self.S, self.rng
        live = [c for c in self.faulty if c.alive()]
        if not live:
            return
        c = rng.choice(live)
        for _ in range(rng.choice([1, 3, 12, 40])):
            if c.transport == "ws" and c.upgraded and rng.random() < 0.5:
                from . import wire
                S.send_bytes(c, wire.ws_frame(9, b"q" * rng.choice([0, 10, 125]), mask=b"\x05\x06\x07\x08"))
            else:
                S.request(c, rng.choice(["info", "get", "nosuch"]), {})
        self.note("faulty-traffic", c.name)
        S.stats["faulty_traffic_bursts"] += 1

    def op_unstall(self):
        for c in self.faulty:
            if c.alive() and self.rng.random() < 0.3:
                self.S.sim.wpol(c.fd, budget=-1, cap=-1)
                self.note("unstall", c.name)

    def op_acceptfail(self):
        S, rng = self.S, self.rng
        e = rng.choice(ACCEPT_ERRNOS)
        self.settle()
        t = rng.choice(["raw", "uds", "ws"])
        if e in (errno.EMFILE, errno.ENFILE, errno.ENOBUFS, errno.ENOMEM) and rng.random() < 0.4:
            # the shortage shows in the accept() call AFTER the one that took the connection (nothing is pending then: the
            # kernel looks for a free descriptor first)
            S.sim.inject("accept", 2, e)
            c = self.new_peer(t)
            self.note("accept-fails-behind-a-successful-one", errno.errorcode[e], t)
            S.sig("accept-fault", errno.errorcode[e], t, "nothing-pending")
            S.faults_active = True
            S.stats["accept_faults"] += 1
            self.settle()
            S.request(c, "info")
            self.settle()
            if not c.accepted or c.closed:
                S.v("conn/no-service-after-failed-accept", "%s after %s with nothing pending" % (t, errno.errorcode[e]))
            return
        S.sim.inject("accept", 1, e)
        lost = S.connect("lost%d" % len(S.conns), t)
        lost.may_close = True
        if e == errno.ECONNABORTED:
            lost.healthy, lost.ledger, lost.track_input = False, False, False
            lost.ended = "aborted-before-accept"
            lost.wire_done = True
        elif t == "ws":
            S.handshake(lost)       # stays in the listen queue; it is accepted together with the next connection
        self.note("accept-fails", errno.errorcode[e], t)
        S.sig("accept-fault", errno.errorcode[e], t)
        S.faults_active = True
        S.stats["accept_faults"] += 1
        self.settle()
        # the daemon keeps accepting and serving
        c = self.new_peer(t)
        self.settle()
        S.request(c, "info")
        self.settle()
        if not c.accepted or c.closed:
            S.v("conn/no-service-after-failed-accept", "%s after %s" % (t, errno.errorcode[e]))

    def settle(self):
        st = super().settle()
        if self.S.uncertain:
            self.S.resolve_uncertain(self.obs)
            st = super().settle()
        return st


@scenario("faulty")
def faulty(case, res):
    prm = case.get("params", {})

    def body(S, rng):
        b = FaultyBus(S, rng, dict(prm.get("opts") or {}, n_peers=(4, 6)))
        b.faulty = []
        b.start()
        w = dict(b.DEFAULT_WEIGHTS, fault=7, faultytraffic=5, unstall=2, acceptfail=2, connect=4, change=20, add=14, fetch=10)
        w.update(prm.get("weights") or {})
        names = sorted(w)
        for _ in range(prm.get("n_ops", 70)):
            op = rng.choices(names, [w[k] for k in names])[0]
            getattr(b, "op_" + op)()
            if rng.random() < 0.6:
                b.settle()
        b.settle()
        # healthy peers are still served: one more round of traffic that must be answered and replicated exactly
        for _ in range(6):
            b.op_change()
            b.op_get()
        b.settle()
        for c in b.faulty:
            if c.alive():
                S.sim.wpol(c.fd, budget=-1, cap=-1)
        st = S.close_all()
        S.check_idle_baseline(st)
        S.shutdown()
        return S.ops[:30]
    sim_case(case, res, body)


@scenario("bystander")
def bystander(case, res):
    """a healthy subscriber (and a healthy owner) whose output is parked for a moment, while ANOTHER connection ends inside its own
    readiness event (garbage, end of stream, reset) or a routed request of another peer runs into its deadline; directly afterwards
    the healthy one reads again - nothing else becomes readable in between. Once it has caught up its byte stream and replica must
    be complete, exactly as in the same history without the other connection's end."""
    prm = case.get("params", {})

    def body(S, rng):
        wbuf = int(S.cfg.get("CONFIG_MAX_WRITE_BUFFER_SIZE", 5120))
        sub = S.connect("sub", rng.choice(["raw", "uds", "ws"]))
        if sub.transport == "ws":
            S.handshake(sub)
        S.request(sub, "fetch", {"id": "f", "path": {"startsWith": "s/"}})
        own = S.connect("own", rng.choice(["raw", "uds"]))
        for i in range(3):
            S.request(own, "add", {"path": "s/%d" % i, "value": 0})
        mown = S.connect("mown", "raw")
        S.request(mown, "add", {"path": "m/never"})
        S.settle()
        for rnd in range(prm.get("rounds", 5)):
            how = rng.choice(["garbage", "eof", "rst", "oversize", "deadline", "none"])
            x = S.connect("x%d" % rnd, rng.choice(["raw", "uds", "ws"]))
            if x.transport == "ws":
                S.handshake(x)
            S.request(x, "info")
            if how == "deadline":
                # a routed request of x that its owner never answers: the timer ends itself inside its own readiness event
                S.request(x, "call", {"path": "m/never", "timeout": 2})
            S.settle()
            sub.slow = True
            S.sim.wpol(sub.fd, budget=rng.choice([0, 0, 3, 40]))
            total = 0
            while total < wbuf // 4:
                n = rng.choice([0, 5, 30])
                S.request(own, "change", {"path": "s/%d" % rng.randrange(3), "value": "w" * n})
                total += n + 100
                if rng.random() < 0.5:
                    S.settle()
            S.settle()
            # the other connection ends in its own event ...
            x.may_close, x.track_input = True, False
            if how == "garbage":
                x.healthy = False
                S.send_bytes(x, bytes(rng.randrange(256) for _ in range(rng.randrange(4, 30))), None)
                S.end(x, "eof")
            elif how == "oversize":
                x.healthy = False
                S.send_bytes(x, b"\x7f\xff\xff\xff" + b"z" * 8, None)
                S.end(x, "eof")
            elif how in ("eof", "rst"):
                S.end(x, how)
            elif how == "deadline":
                S.advance(3 * 10**9)
            S.settle()
            # ... and the only thing that happens next is that the subscriber reads again
            S.sim.wpol(sub.fd, budget=-1, cap=-1)
            S.settle()
            S.settle()
            sub.slow = False
            S.sig("bystander-round", how, sub.transport, x.transport)
            S.stats["bystander_rounds"] += 1
            if sub.closed:
                S.v("conn/slow-subscriber-dropped-below-the-buffer-limit", "%s after about %d bytes" % (sub.name, total))
                break
            S.settle()          # caught up: byte stream equal to what was generated
            if how in ("none", "deadline"):
                S.end(x, "eof")
                S.settle()
        st = S.close_all()
        S.check_idle_baseline(st)
        S.shutdown()
        return S.ops[:10]
    sim_case(case, res, body)


@scenario("slowreq")
def slowreq(case, res):
    """a REQUESTER that does not read for a while: its own responses (single requests and batches) pile up inside the daemon.
    Below the write buffer's capacity nothing may be lost and the connection stays; beyond it the daemon may refuse a response - but
    then the connection has to end: a connection that is still open and in step after the reader has caught up (a fence request is
    answered) owes a response to every request with an id that was sent on it ("answered by exactly one response")."""
    prm = case.get("params", {})

    def body(S, rng):
        wbuf = int(S.cfg.get("CONFIG_MAX_WRITE_BUFFER_SIZE", 5120))
        own = S.connect("own", "raw")
        for i in range(rng.choice([1, 3, 6])):
            S.request(own, "add", {"path": "q/%d" % i, "value": "x" * rng.choice([0, 20, 60])})
        wit = S.connect("wit", rng.choice(["raw", "uds"]))
        S.request(wit, "fetch", {"id": "w"})
        S.settle()
        for rnd in range(prm.get("rounds", 3)):
            r = S.connect("r%d" % rnd, rng.choice(["raw", "uds", "ws"]))
            if r.transport == "ws":
                S.handshake(r)
            S.request(r, "info")
            S.settle()
            overflow = rng.random() < prm.get("p_overflow", 0.6)
            limit = 3 * wbuf if overflow else rng.choice([wbuf // 8, wbuf // 3, wbuf // 2])
            r.healthy, r.may_close, r.slow = False, True, True
            ff0 = r.failed_frames
            S.sim.wpol(r.fd, budget=rng.choice([0, 0, 0, 5, 60]), cap=rng.choice([-1, -1, 7]))
            per = max(1, (S.max_msg - 20) // 40)
            nsent = 0
            while not r.closed and len(r.expected_wire) - len(r.wire) < limit and r.failed_frames == ff0 and nsent < 4000:
                kind = rng.choice(["info", "get", "nosuch", "batch", "batch", "batch"])
                if not overflow and len(r.expected_wire) - len(r.wire) + (700 if kind != "get" else 200 + 120 * len(S.elements)) * (per if kind == "batch" else 1) > limit:
                    break
                if kind == "batch":
                    msgs = []
                    for _ in range(rng.randrange(2, per + 1)):
                        m = rng.choice(["info", "nosuch", "get"])
                        msgs.append({"id": S.next_id(r), "method": m} if m != "get" else {"id": S.next_id(r), "method": "get", "params": {}})
                    nsent += len(msgs)
                    S.batch(r, msgs, chunks=pick_chunks(rng))
                elif kind == "get":
                    S.request(r, "get", {})
                    nsent += 1
                else:
                    S.request(r, kind)
                    nsent += 1
                if rng.random() < 0.7:
                    S.settle()
            S.settle()
            refused = r.failed_frames - ff0
            for b in [rng.choice([1, 9, 200]) for _ in range(rng.randrange(0, 3))]:
                S.sim.wpol(r.fd, budget=b)
                S.settle()
            S.sim.wpol(r.fd, budget=-1, cap=-1)
            S.settle()
            S.settle()
            refused = r.failed_frames - ff0
            S.sig("slowreq", r.transport, "overflow" if overflow else "below-capacity", "closed" if r.closed else "open", refused > 0)
            S.stats["slowreq_rounds"] += 1
            if r.closed:
                S.stats["slowreq_closed_by_daemon"] += 1
                if not overflow and refused == 0:
                    S.v("conn/slow-requester-dropped-below-the-buffer-limit", "%s with about %d bytes of responses outstanding" % (r.name, limit))
                    break
                continue
            # still open: the reader has caught up, a fence shows the connection is in step
            r.slow = False
            fence = S.request(r, "info")
            S.settle()
            if r.closed:
                continue
            if fence.state != "sent" and refused > 0:
                S.stats["slowreq_open_after_refusal"] += 1
                S.v("rpc/response-refused-but-connection-stays-open", "%s (%s): %d response frame(s) were refused while the reader was slow, the connection is still open and answers (%d requests sent)"
                    % (r.name, r.transport, refused, nsent))
                break
            if refused == 0:
                r.healthy = True        # nothing was lost: from here on the byte stream has to be exact again
                S.stats["slowreq_caught_up"] += 1
                S.settle()
                S.request(r, "get", {})
                S.settle()
            S.end(r, "eof")
            S.settle()
        st = S.close_all()
        S.check_idle_baseline(st)
        S.shutdown()
        return S.ops[:10]
    sim_case(case, res, body)


@scenario("acceptburst")
def acceptburst(case, res):
    """'the daemon keeps accepting and serving connections': many connections become pending on one (edge-triggered) listener
    between two wake-ups - some of them already reset or closed again by their client, some with a first request queued - while
    established peers go on working; every connection that is still there is accepted and served"""
    prm = case.get("params", {})

    def body(S, rng):
        own = S.connect("own", "raw")
        S.request(own, "add", {"path": "b/s", "value": 0})
        sub = S.connect("sub", rng.choice(["raw", "uds", "ws"]))
        if sub.transport == "ws":
            S.handshake(sub)
        S.request(sub, "fetch", {"id": 1})
        S.settle()
        n = 0
        for rnd in range(prm.get("rounds", 3)):
            t = rng.choice(["raw", "uds", "ws"])
            k = rng.choice([9, 10, 11, 12, 21, 40])
            conns = []
            for i in range(k):
                n += 1
                c = S.connect("b%d" % n, t)
                if t == "ws":
                    S.handshake(c)
                r = rng.random()
                if r < 0.1:
                    c.may_close = True
                    S.end(c, "rst")                 # gone again before the daemon looked
                elif r < 0.2:
                    S.request(c, "info")
                    S.end(c, "eof")
                elif r < 0.8:
                    S.request(c, "info")
                conns.append(c)
            S.request(own, "change", {"path": "b/s", "value": rnd + 1})
            fault = rng.random() < 0.45 or bool(prm.get("alloc"))
            if fault:
                # the set-up of ONE of these connections fails (a system call on the freshly accepted socket, its registration):
                # that one is lost, the others - still waiting in the queue at that moment - are served as usual
                import errno as E
                was_alloc = bool(prm.get("alloc")) or rng.random() < 0.3
                if was_alloc:
                    # ... or an allocation of its set-up (peer, socket object, routing table) fails
                    S.sim.failalloc(rng.randrange(1, 6 * k), 1, rng.randrange(2))
                    S.alloc_faults = True
                    S.sig("burst-alloc-fault", t)
                else:
                    call = rng.choice(["fcntl", "setsockopt", "getsockname", "epoll_ctl", "setsockopt"])
                    S.sim.inject(call, rng.randrange(1, 2 * k), rng.choice([E.ENOBUFS, E.ENOMEM, E.EINVAL]))
                S.inject_active = True
                for c in conns:
                    c.healthy, c.may_close = False, True
            S.settle()
            S.sig("accept-burst", t, min(k, 12), fault)
            S.stats["burst_connections"] += k
            if fault:
                for call in ("fcntl", "setsockopt", "getsockname", "epoll_ctl"):
                    S.sim.inject(call, 0, 0)
                S.sim.failalloc(-1, 0)
                S.alloc_faults = False
                S.stats["burst_setup_faults"] += 1
                lost = [c for c in conns if c.closed and not c.ended]
                if len(lost) > 1:
                    S.v("conn/one-failed-set-up-cost-several-connections", "%d of %d (%s)" % (len(lost), k, t))
                    break
                budget = 1 - len(lost) if was_alloc else 0      # (a failed allocation may as well have hit the answer to one request)
                for c in conns:
                    if c.closed:
                        continue
                    c.healthy = True
                    if any(p.state == "sent" and p.key is not None for p in c.pending.values()) and c.accepted and not c.ended:
                        if budget > 0:
                            budget -= 1
                            for p in c.pending.values():
                                p.hold = True
                            continue
                        S.v("rpc/request-not-answered", "on %s of a burst in which another connection's set-up failed" % c.name)
                        break
            for c in conns:
                if not c.accepted and not c.ended and not c.closed:
                    S.v("conn/pending-connection-not-accepted", "%s (%s) of a burst of %d%s" % (c.name, t, k, " in which one set-up failed" if fault else ""))
                    break
            for c in conns:
                if not c.closed and not c.ended:
                    S.request(c, "get", {})
            S.settle()
            for c in conns:
                S.end(c, "eof")
            S.settle()
        st = S.close_all()
        S.check_idle_baseline(st)
        S.shutdown()
        return S.ops[:10]
    sim_case(case, res, body)
