"""Client-side wire formats: raw (len32be + JSON) and HTTP upgrade + RFC 6455 frames.
Decoders are strict: anything a correct server must not send is recorded in .errors."""
import base64, hashlib, json, os, struct

WS_GUID = b"258EAFA5-E914-47DA-95CA-C5AB0DC85B11"


def raw_frame(payload):
    return struct.pack(">I", len(payload)) + payload


def ws_accept(key):
    return base64.b64encode(hashlib.sha1(key + WS_GUID).digest())


def ws_handshake(key=b"dGhlIHNhbXBsZSBub25jZQ==", path="/api/jet/", protocol="jet", version="13",
                 extra=(), host="localhost", extensions=None):
    lines = [b"GET " + path.encode() + b" HTTP/1.1", b"Host: " + host.encode(),
             b"Upgrade: websocket", b"Connection: Upgrade",
             b"Sec-WebSocket-Key: " + key, b"Sec-WebSocket-Version: " + version.encode()]
    if protocol is not None:
        lines.append(b"Sec-WebSocket-Protocol: " + protocol.encode())
    if extensions is not None:
        lines.append(b"Sec-WebSocket-Extensions: " + extensions.encode())
    lines += [e if isinstance(e, bytes) else e.encode() for e in extra]
    return b"\r\n".join(lines) + b"\r\n\r\n"


def ws_frame(opcode, payload=b"", fin=1, rsv=0, mask=b"\x11\x22\x33\x44", lenenc=None):
    """client frame; mask=None sends it unmasked; lenenc forces 7/16/64-bit length encoding"""
    b0 = (fin << 7) | (rsv << 4) | opcode
    n = len(payload)
    if lenenc is None:
        lenenc = 7 if n < 126 else 16 if n < 65536 else 64
    mbit = 0x80 if mask is not None else 0
    if lenenc == 7:
        hdr = bytes([b0, mbit | n])
    elif lenenc == 16:
        hdr = bytes([b0, mbit | 126]) + struct.pack(">H", n)
    else:
        hdr = bytes([b0, mbit | 127]) + struct.pack(">Q", n)
    if mask is not None:
        body = bytes(c ^ mask[i % 4] for i, c in enumerate(payload))
        return hdr + mask + body
    return hdr + payload


class RawDecoder:
    kind = "raw"

    def __init__(self):
        self.buf = b""
        self.errors = []
        self.frames = 0

    def feed(self, data):
        """returns list of (kind, payload-bytes, json-or-None, wire-bytes)"""
        self.buf += data
        out = []
        while len(self.buf) >= 4:
            (n,) = struct.unpack(">I", self.buf[:4])
            if n == 0:
                self.errors.append("zero-length frame from server")
            if len(self.buf) < 4 + n:
                break
            wire = self.buf[:4 + n]
            payload = self.buf[4:4 + n]
            self.buf = self.buf[4 + n:]
            self.frames += 1
            try:
                obj = json.loads(payload.decode("utf-8", "surrogateescape"))
            except (ValueError, UnicodeDecodeError):
                obj = None
                self.errors.append("payload is not JSON: %r" % payload[:80])
            out.append(("msg", payload, obj, wire))
        return out

    def partial(self):
        return len(self.buf)


class WsDecoder:
    kind = "ws"

    def __init__(self):
        self.buf = b""
        self.errors = []
        self.state = "http"
        self.status = None
        self.headers = {}
        self.head_raw = b""
        self.frames = 0
        self.close_code = None
        self.pongs = []

    def feed(self, data):
        self.buf += data
        out = []
        while True:
            if self.state == "http":
                i = self.buf.find(b"\r\n\r\n")
                if i < 0:
                    break
                head = self.buf[:i + 4]
                self.buf = self.buf[i + 4:]
                self.head_raw = head
                lines = head[:-4].split(b"\r\n")
                parts = lines[0].split(b" ", 2)
                try:
                    self.status = int(parts[1])
                except (IndexError, ValueError):
                    self.errors.append("bad status line %r" % lines[0][:60])
                    self.status = -1
                if not parts[0].startswith(b"HTTP/1."):
                    self.errors.append("bad status line %r" % lines[0][:60])
                for l in lines[1:]:
                    if b":" in l:
                        k, v = l.split(b":", 1)
                        k = k.strip().lower().decode("latin1")
                        if k in self.headers:
                            self.errors.append("duplicate response header %s" % k)
                        self.headers[k] = v.strip()
                    else:
                        self.errors.append("bad header line %r" % l[:60])
                out.append(("http", head, self.status, head))
                self.state = "ws" if self.status == 101 else "httpdone"
                continue
            if self.state == "httpdone":
                if self.buf:
                    self.errors.append("bytes after a non-101 HTTP response: %r" % self.buf[:40])
                    self.buf = b""
                break
            # frames
            if len(self.buf) < 2:
                break
            b0, b1 = self.buf[0], self.buf[1]
            n = b1 & 0x7f
            off = 2
            if n == 126:
                if len(self.buf) < 4:
                    break
                (n,) = struct.unpack(">H", self.buf[2:4])
                off = 4
                if n < 126:
                    self.errors.append("non-minimal 16-bit length %d" % n)
            elif n == 127:
                if len(self.buf) < 10:
                    break
                (n,) = struct.unpack(">Q", self.buf[2:10])
                off = 10
                if n < 65536:
                    self.errors.append("non-minimal 64-bit length %d" % n)
            if b1 & 0x80:
                self.errors.append("server frame is masked")
                off += 4
            if len(self.buf) < off + n:
                break
            wire = self.buf[:off + n]
            payload = self.buf[off:off + n]
            self.buf = self.buf[off + n:]
            self.frames += 1
            fin, rsv, op = b0 >> 7, (b0 >> 4) & 7, b0 & 15
            if not fin:
                self.errors.append("server frame without FIN")
            if rsv & 3 or (rsv and op >= 8):
                self.errors.append("server frame with reserved bits %d" % rsv)
            if self.close_code is not None:
                self.errors.append("frame after close frame")
            if op == 1:
                obj = None
                if rsv == 0:
                    try:
                        obj = json.loads(payload.decode("utf-8", "surrogateescape"))
                    except (ValueError, UnicodeDecodeError):
                        self.errors.append("text payload is not JSON: %r" % payload[:80])
                out.append(("msg" if rsv == 0 else "cmsg", payload, obj, wire))
            elif op == 8:
                if n == 1 or n > 125:
                    self.errors.append("bad close frame length %d" % n)
                self.close_code = struct.unpack(">H", payload[:2])[0] if n >= 2 else 1005
                out.append(("close", payload, self.close_code, wire))
            elif op == 9:
                out.append(("ping", payload, None, wire))
            elif op == 10:
                self.pongs.append(payload)
                out.append(("pong", payload, None, wire))
                if n > 125:
                    self.errors.append("oversized pong")
            else:
                self.errors.append("server frame with opcode %d" % op)
                out.append(("other", payload, op, wire))
        return out

    def partial(self):
        return len(self.buf)


def chunkings(data, policy, rng=None):
    """split data into chunks; policy: 'whole' | int k | 'bytes' | list of cut points | 'rand'"""
    if policy is None or policy == "whole" or len(data) <= 1:
        return [data]
    if policy == "bytes":
        return [data[i:i + 1] for i in range(len(data))]
    if isinstance(policy, int):
        return [data[i:i + policy] for i in range(0, len(data), policy)]
    if policy == "rand":
        cuts = sorted(set(rng.randrange(1, len(data)) for _ in range(rng.randrange(1, 6))))
    else:
        cuts = sorted(set(c for c in policy if 0 < c < len(data)))
    out, last = [], 0
    for c in cuts:
        out.append(data[last:c])
        last = c
    out.append(data[last:])
    return [c for c in out if c]
