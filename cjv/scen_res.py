"""C07: reclamation of memory / descriptors / timers, descriptor hygiene, clean termination."""
import errno, json

from . import hostile, wire
from .runner import scenario, sim_case
from .workloads import Bus, batch_policy, pick_chunks

INJECTABLE = [("timerfd_create", [errno.EMFILE, errno.ENOMEM]), ("timerfd_settime", [errno.EINVAL]), ("epoll_ctl", [errno.ENOMEM, errno.ENOSPC]),
              ("fcntl", [errno.EBADF]), ("setsockopt", [errno.ENOPROTOOPT, errno.ENOBUFS]), ("getsockname", [errno.ENOBUFS])]


def half_open_http(S, rng):
    """HTTP connections in every stage of an unfinished upgrade"""
    good = wire.ws_handshake()
    for i in range(rng.randint(1, 4)):
        c = S.connect("half%d" % len(S.conns), "ws")
        c.ledger, c.track_input, c.may_close = False, False, True
        cut = rng.choice([3, 10, len(b"GET /api/jet/ HTTP/1.1"), len(b"GET /api/jet/ HTTP/1.1\r\n"), 40, 80, len(good) - 2, len(good) - 1])
        S.send_bytes(c, good[:cut], pick_chunks(rng))
        S.sig("half-open-http", cut)


@scenario("reclaim")
def reclaim(case, res):
    prm = case.get("params", {})
    mode = prm.get("mode", "bus")

    def body(S, rng):
        opts = dict(prm.get("opts") or {})
        if mode == "hostile":
            opts["per_conn_ids"] = False      # (the hostile generator numbers its ids itself)
            opts["odd_ids"] = False
        b = Bus(S, rng, opts)
        b.start()
        n = prm.get("n_ops", 60)
        if mode == "inject":
            S.inject_active = True
            S.strict_close = False
        if mode == "hostile":
            S.desync = True              # hostile peers share the namespace: model-based verdicts are not the point here
        if mode == "lowheap":
            S.alloc_faults = True        # refusals with internal errors are legitimate once the cap is near
            S.key_prefix = "capfault:"   # what goes wrong when allocations fail is C15's subject; keys are kept apart
            S.desync = True              # which requests take effect near the cap is not modelled: resources are the subject here
            S.strict_close = False
        for step in range(n):
            if mode == "inject" and rng.random() < 0.25:
                call, errs = rng.choice(INJECTABLE)
                nth = rng.choice([1, 1, 2, 3])
                e = rng.choice(errs)
                S.sim.inject(call, nth, e)
                b.note("inject", call, nth, e)
                S.sig("inject", call, e)
                # set-up failures concern new connections and new routed requests: provoke both
                if call in ("fcntl", "setsockopt", "getsockname", "epoll_ctl"):
                    c = b.new_peer()
                    c.may_close = True
                else:
                    b.op_route()
                    b.op_route()
                b.settle()
                continue
            if mode == "hostile" and rng.random() < 0.3:
                half_open_http(S, rng)
                c = S.connect("hx%d" % len(S.conns), rng.choice(["raw", "uds", "ws"]))
                c.ledger, c.track_input, c.may_close = False, False, True
                if c.transport == "ws" and rng.random() < 0.7:
                    S.handshake(c)
                for _ in range(rng.randint(1, 4)):
                    pl, _x = hostile.hostile_payload(rng, ["a", "a/b", "hx"], ["f1"])
                    S.send_bytes(c, S.frame_for(c, pl), pick_chunks(rng))
                if rng.random() < 0.5:
                    S.end(c, "eof")
                S.tolerate_unknown_forwards = True
                continue
            if mode == "lowheap" and rng.random() < 0.5:
                al = b.alive()
                if al:
                    c = rng.choice(al)
                    big = "v" * rng.choice([100, 200, 300])
                    S.request(c, "add", {"path": "big/%d" % step, "value": [big, big[:50], S.next_val(c)]})
                    S.sig("lowheap-add", S.last_heap // 8192)
                continue
            w = b.DEFAULT_WEIGHTS
            names = sorted(w)
            op = rng.choices(names, [w[k] for k in names])[0]
            getattr(b, "op_" + op)()
            if rng.random() < 0.6:
                b.settle()
            if prm.get("sigterm_mid") and step == prm["sigterm_mid"]:
                break
        if prm.get("sigterm_mid") is not None:
            # termination with connections in every state: half-open HTTP, unsent output, requests in flight
            half_open_http(S, rng)
            if rng.random() < 0.5:
                b.settle()
            else:
                S.step()
            S.sig("sigterm-mid", len(b.alive()), sum(1 for c in S.conns.values() for p in c.pending.values() if p.state == "forwarded") > 0)
            b.note("sigterm")
            S.shutdown()
            return S.ops[:25]
        b.settle()
        if mode == "hostile":
            # model-based verdicts are not the point here; resources are
            pass
        b.finale(shutdown=True)
        return S.ops[:25]
    sim_case(case, res, body)


STARTUP_CALLS = [("socket", 5), ("setsockopt", 8), ("fcntl", 10), ("bind", 5), ("listen", 5), ("epoll_create", 1), ("epoll_ctl", 5)]


@scenario("startup")
def startup(case, res):
    """a start-up call fails: the daemon must give up cleanly (or carry on) without leaking or misusing a descriptor"""
    import errno as E
    from . import build
    from .sim import Sim, DaemonDied, DaemonExited, Hang, crash_key
    prm = case["params"]
    call, nth, local = prm["call"], prm["nth"], prm["local"]
    err = {"socket": E.EMFILE, "setsockopt": E.ENOPROTOOPT, "fcntl": E.EBADF, "bind": E.EADDRINUSE, "listen": E.EADDRINUSE, "epoll_create": E.EMFILE, "epoll_ctl": E.ENOMEM}[call]
    binary = build.build(config=case.get("config", "default"), lane="asan")
    res.sample = dict(prm)
    try:
        sim = Sim(binary, args=("-f", "-l") if local else ("-f",), startup_inject="%s:%d:%d" % (call, nth, err), timeout=30)
    except (DaemonDied, Hang) as e:
        res.viol.append(("crash/daemon-vanished-at-startup:%s" % call, str(e)))
        return
    fired = False
    try:
        st = sim.stat()
        fired = st["injects"][call][1] > 0
        t = sim.taps()
        for h in t["hygiene"]:
            res.viol.append(("res/fd-hygiene:%s-%s-%s" % (h["op"], h["kind"], h["state"]), json.dumps(h)[:300]))
        if sim.exited is None:
            # the failure did not stop the start-up: it must be a working daemon; then stop it
            sim.settle()
            r = sim.sigterm()
            t = sim.taps()
            for h in t["hygiene"]:
                res.viol.append(("res/fd-hygiene:%s-%s-%s" % (h["op"], h["kind"], h["state"]), json.dumps(h)[:300]))
            st = sim.stat()
        left = {k: v for k, v in st["fds"].items() if v}
        if left:
            res.viol.append(("res/descriptors-open-after-failed-startup:" + "+".join(sorted(left)), "%s #%d%s: %r" % (call, nth, " -l" if local else "", left)))
        if st["heap"] != 0:
            res.viol.append(("res/heap-accounted-after-failed-startup", "%s #%d: %d bytes" % (call, nth, st["heap"])))
        res.stats["startup_faults_fired" if fired else "startup_faults_not_reached"] += 1
        res.sigs.add(("startup", call, nth if fired else -1, local, sim.exited is not None))
    except DaemonDied:
        pass
    rc, errtxt = sim.finish()
    k = crash_key(rc if not (fired and rc in (0, 1)) else 0, errtxt)
    if k:
        res.viol.append(("crash/" + k, errtxt[:2500]))
