"""C17: the hopscotch hash tables of src/hashtable.h behave as exact finite maps.

Runtime monitoring of the REAL macros (harness/ht): one translation unit per (key type, order)
instantiates DECLARE_HASHTABLE_STRING/_UINT32/_UINT64 for orders 2..13; a driver executes
operation sequences through HASHTABLE_PUT/GET/REMOVE and after EVERY operation
  * compares get(k) with a reference map for every key of the (colliding) key universe,
  * dumps the slot array read-only and checks the hopscotch invariants, the legitimacy of every
    HASHTABLE_FULL and infers displacements / wrap-arounds from slot movement.
Workloads: exhaustive enumeration of all put/get/remove sequences over 5 colliding keys for
orders 2..4, seeded random + adversarial histories for orders 2..13.

    python3 -m cjv.chk_c17 quick|thorough
    python3 -m cjv.chk_c17 replay /verif/replays/<file>.json
"""
import collections, json, multiprocessing, os, random, re, subprocess, sys, time

from . import build, runner
from .sim import crash_key, default_env

TYPES = ("string", "uint32", "uint64")
ORDERS = tuple(range(2, 14))
EXH_ORDERS = (2, 3, 4)
EXH_UNIVERSES = (0, 1, 2)
EXH_OPS = 15            # put/get/remove x 5 keys
RAND_UNIVERSES = (0, 1, 2, 3)

RULE = ("one signature = (key type, table order, structural event class actually observed in the "
        "real table: displacement, displacement chain >= 2, wrap-around of a put / a displaced key / "
        "a get, each kind of HASHTABLE_FULL, overwrite, remove of an absent key, KEYINVAL, hop "
        "distance at its maximum, saturated bucket); an evaluation = one harness process, i.e. one "
        "subtree of the exhaustive enumeration or one random history, every operation of which is "
        "followed by a whole-universe comparison with the reference map and a structural check")

ASSUMPTIONS = [
    "single-threaded use only: the header's claim that GET may interrupt PUT/REMOVE is not explored",
    "value_entries is 1 (as in table.c/router.c) except for orders 2,5,8,11 which use 2",
    "HASHTABLE_FULL is judged by a deliberately conservative criterion: it is a violation only if a "
    "slot holding no live key lies within min(add_range, hop_range) positions of the home bucket "
    "(placeable without any displacement); refusals because the greedy displacement search gives up "
    "are accepted as legal",
    "the exhaustive enumeration restores earlier table states by copying back the raw bytes of the "
    "slot array the real code had produced (no state outside the array exists)",
    "the table is created by cjet_malloc of the real alloc.c with the default heap limit; allocation "
    "failure of HASHTABLE_CREATE is not explored here",
    "key universes are deterministic (candidate keys bucketed by the real hash function); VERIF_SEED "
    "drives the random histories only",
]

_BINARY = None


def build_harness():
    sys.path.insert(0, os.path.join(build.VERIF, "harness", "ht"))
    try:
        import gen
    finally:
        sys.path.pop(0)
    srcs, hh = gen.ensure()
    return build.build(kind="ht_harness", cjet_units=["alloc.c"], extra_sources=srcs, wraps=[],
                       main_rename=False, name="ht_harness", lane="asan",
                       extra_flags=['-DHT_SRC_HASH="%s"' % hh])


def _exec(args, stdin=None, timeout=1500, oplog=None):
    env = dict(os.environ)
    env.pop("HT_OPLOG", None)
    if oplog:
        env["HT_OPLOG"] = oplog
    env["ASAN_OPTIONS"] = "detect_leaks=1:abort_on_error=0:allocator_may_return_null=1"
    env["UBSAN_OPTIONS"] = "print_stacktrace=1"
    try:
        p = subprocess.run([_BINARY] + [str(a) for a in args], input=stdin, stdout=subprocess.PIPE,
                           stderr=subprocess.PIPE, text=True, timeout=timeout, env=env, errors="replace")
    except subprocess.TimeoutExpired:
        return None, "", "timeout"
    return p.returncode, p.stdout, p.stderr


def _parse(out):
    info, stats, sigs, viols, done, oplines = "", collections.Counter(), [], [], False, []
    lines = out.split("\n")
    i = 0
    while i < len(lines):
        ln = lines[i]
        i += 1
        if ln.startswith("stat "):
            _, name, n = ln.split(" ")
            stats[name] += int(n)
        elif ln.startswith("sig "):
            sigs.append(ln[4:])
        elif ln.startswith("viol "):
            head, _, detail = ln.partition("\t")
            _, at, key = head.split(" ", 2)
            trace = []
            if i < len(lines) and lines[i].startswith("trace"):
                trace = lines[i].split(" ")[1:]
                i += 1
            viols.append((int(at), key, detail, trace))
        elif ln.startswith("info "):
            info = ln[5:]
        elif ln.startswith("op "):
            oplines.append(ln)
        elif ln == "done":
            done = True
    return info, stats, sigs, viols, done, oplines


def _args_of(case):
    if case["kind"] == "exh":
        return [case["type"], case["order"], "exh", case["universe"], case["maxlen"], case["first"]]
    return [case["type"], case["order"], "rand", case["universe"], case["seed"], case["nops"]]


def _script_universe(case):
    return case["universe"] + (100 if case["kind"] == "exh" else 0)


def run_job(case):
    res = runner.Result(case)
    t0 = time.time()
    try:
        rc, out, err = _exec(_args_of(case))
        info, stats, sigs, viols, done, _ = _parse(out)
        res.stats = stats
        res.sigs = set((case["type"], case["order"], s) for s in sigs)
        res.case = dict(case, harness=info)
        if rc is None:
            res.inconclusive = "harness process timed out"
        elif not done or rc != 0:
            ck = crash_key(rc, err)
            if ck is None:
                res.inconclusive = "harness ended without 'done' (rc=%r): %s" % (rc, err[-600:])
            elif rc == 3:
                res.inconclusive = "harness refused to run: %s" % err[-600:]
            else:
                key = "ht/crash-%s:%s" % (ck, case["type"])
                res.viol.append((key, "order %d: the harness process running the real table code died\n%s"
                                 % (case["order"], err[:3000])))
                crash_trace = _crash_trace(case)
                if crash_trace:
                    viols.insert(0, (len(crash_trace), None, None, crash_trace))
                    res.traces = {key: crash_trace}
        res.traces = getattr(res, "traces", {})
        for at, key, detail, trace in viols:
            if key is not None:
                res.viol.append((key, detail))
                res.traces[key] = trace
        if viols:
            res.ops = viols[0][3]
            res.sample = viols[0][3][:30]
        else:
            res.sample = {"args": " ".join(str(a) for a in _args_of(case)), "harness": info,
                          "events": dict(stats.most_common(8))}
    except Exception as e:   # harness bug: never a verdict
        import traceback
        res.inconclusive = "harness exception: %s\n%s" % (e, traceback.format_exc()[-1200:])
    res.wall = time.time() - t0
    return res


def _crash_trace(case):
    """the process died: run the same (deterministic) job again with HT_OPLOG to learn the sequence"""
    import tempfile
    fd, path = tempfile.mkstemp(prefix="c17oplog")
    os.close(fd)
    try:
        _exec(_args_of(case), oplog=path)
        with open(path) as fh:
            lines = fh.read().split("\n")
        return [t for t in lines[-1].split(" ") if t]
    except OSError:
        return []
    finally:
        try:
            os.unlink(path)
        except OSError:
            pass


# ---------- reproducer minimisation (delta debugging through the harness' script mode) ----------

def _replay(case, tokens, verbose=False):
    args = [case["type"], case["order"], "script", _script_universe(case)] + (["-v"] if verbose else [])
    rc, out, err = _exec(args, stdin=" ".join(tokens) + "\n", timeout=120)
    info, stats, sigs, viols, done, oplines = _parse(out)
    keys = {}
    for at, key, detail, trace in viols:
        keys.setdefault(key, (at, detail))
    if rc not in (0, None) or (rc == 0 and not done):
        ck = crash_key(rc, err)
        if ck is not None:
            keys.setdefault("ht/crash-%s:%s" % (ck, case["type"]), (len(tokens), err[:1500]))
    return keys, oplines


def shrink_job(job):
    """job = (case, key, tokens, budget_s) -> (case, key, tokens, detail, oplines)"""
    case, key, tokens, budget = job
    t_end = time.time() + budget
    keys, _ = _replay(case, tokens)
    if key not in keys:
        return case, key, tokens, None, []
    tokens = tokens[:keys[key][0]]
    chunk = max(1, len(tokens) // 2)
    while time.time() < t_end:
        changed = False
        i = 0
        while i < len(tokens) and time.time() < t_end:
            cand = tokens[:i] + tokens[i + chunk:]
            keys = _replay(case, cand)[0] if cand else {}
            if key in keys:
                tokens = cand[:keys[key][0]]
                changed = True
            else:
                i += chunk
        if chunk > 1:
            chunk //= 2
        elif not changed:
            break
    keys, oplines = _replay(case, tokens, verbose=True)
    detail = keys[key][1] if key in keys else None
    return case, key, tokens, detail, oplines


def _reproducers(results, pool, budget):
    """one synthetic Result per distinct violation key, carrying a minimised op sequence; they are
    put in front so that report() prints them"""
    best = {}
    for r in results:
        for key, detail in r.viol:
            trace = getattr(r, "traces", {}).get(key)
            if not trace:
                continue
            rank = (r.case["order"], len(trace))
            if key not in best or rank < best[key][0]:
                best[key] = (rank, r.case, trace)
    jobs = [(dict((k, v) for k, v in case.items() if k != "harness"), key, trace, budget)
            for key, (rank, case, trace) in sorted(best.items())]
    out = []
    for case, key, tokens, detail, oplines in pool.imap_unordered(shrink_job, jobs):
        if detail is None:
            continue
        rr = runner.Result(dict(case, reproducer_for=key))
        cmd = "ht_harness %s %d script %d -v   (op tokens on stdin)" % (case["type"], case["order"], _script_universe(case))
        text = ("%s\nminimised reproducer: key type %s, table order %d, %d operations; replay: %s\n"
                "tokens: %s\n%s" % (detail, case["type"], case["order"], len(tokens), cmd, " ".join(tokens),
                                    "\n".join(oplines[-70:])))
        rr.viol = [(key, text)]
        rr.ops = tokens
        rr.sample = tokens[:30]
        out.append(rr)
    return out


# ---------- workloads ----------

def make_cases(tier):
    rng = random.Random("C17/%d" % runner.seed())
    cases = []
    maxlen = 6 if tier == "quick" else 7
    for t in TYPES:
        for o in EXH_ORDERS:
            for u in EXH_UNIVERSES:
                for first in range(EXH_OPS):
                    cases.append(dict(kind="exh", type=t, order=o, universe=u, maxlen=maxlen, first=first,
                                      cost=0.7 * EXH_OPS ** (maxlen - 1) / 1e6))
    if tier == "quick":
        plan = [10000]
    else:
        plan = [100000, 50000, 25000, 25000]
    for t in TYPES:
        for o in ORDERS:
            for u in RAND_UNIVERSES:
                for nops in plan:
                    cases.append(dict(kind="rand", type=t, order=o, universe=u, nops=nops,
                                      seed=rng.getrandbits(62), cost=nops * (1 << o) / 3.2e7 + nops / 1e5))
    cases.sort(key=lambda c: -c["cost"])
    for c in cases:
        del c["cost"]
    return cases


def expectations(sigs):
    """what a run must have OBSERVED in the real table to count as a run at all"""
    missing = []
    have = collections.defaultdict(set)
    for t, o, s in sigs:
        have[(t, o)].add(s)
    for t in TYPES:
        for o in ORDERS:
            h = have[(t, o)]
            need = ["wraparound-put", "wraparound-get", "overwrite", "remove-absent", "KEYINVAL", "bucket-saturated"]
            if o >= 7:
                # add_range > hop_range: only here the table ever displaces
                need += ["displacement", "displacement-chain>=2", "wraparound-displacement", "FULL-displacement-failed"]
            for s in need:
                if s not in h:
                    missing.append("%s/%d:%s" % (t, o, s))
            if not any(s.startswith("FULL-") for s in h):
                missing.append("%s/%d:FULL" % (t, o))
    return missing


def routing_index_results(tier):
    """the third user of hashtable.h: the per-owner routing index as src/router.c drives it (insert on forward, remove on answer /
    deadline, scans over all slots when a peer leaves), in the real daemon with a 4-slot and a 16-slot index, so that ids collide
    and entries get displaced; oracle: the routing ledger (exactly one final answer per routed request)"""
    from . import scen_bus  # noqa: F401 (scenario registration)
    q = tier == "quick"
    w = dict(add=8, remove=2, change=1, fetch=1, unfetch=0, get=1, route=40, reply=18, advance=6, connect=3, disconnect=8, misc=0)
    s = runner.seed()
    cases = []
    for i in range(60 if q else 2500):
        cases.append(dict(kind="bus", seed=(s + 61) * 1000003 + i, config="tiny" if i % 2 else "odd", lane="asan",
                          params=dict(n_ops=90, opts=dict(weights=w, hostile_owner=0.1, n_peers=(3, 5)))))
    out = runner.run_cases(cases)
    for r in out:
        r.case.setdefault("type", "routing-index")
        r.case.setdefault("order", 2 if r.case.get("config") == "tiny" else 4)
    return out


def table_wrapper_results(tier):
    """the path-index wrappers of src/table.c (what the daemon actually calls) against a linear reference map: keys incl. the
    empty string, prefixes of each other, case variants, long keys and groups that share a home bucket"""
    import random
    from . import model
    out = []
    for cfgname in ("default", "odd"):
        cfg = build.cfg_of(cfgname)
        order = int(cfg["CONFIG_ELEMENT_TABLE_ORDER"])
        try:
            binary = build.build(kind="tablew", config=cfgname, cjet_units=["table.c", "alloc.c"], wraps=[], main_rename=False,
                                 extra_sources=[os.path.join(build.VERIF, "harness", "tablew", "tablew.c")])
        except build.BuildError as e:
            r = runner.Result(dict(kind="tablew", config=cfgname))
            r.viol.append(("ht/table-wrapper-harness-does-not-build", str(e)[:1500]))
            out.append(r)
            continue
        keys = ["", "a", "a/b", "a/b/c", "A", "a/", "/", " ", "p" * 255, "p" * 254, "\u00e4", "x\ty"]
        keys += model.colliding_paths(order, 6, prefix="k") + model.colliding_paths(order, 6, prefix="w", bucket=(1 << order) - 1)
        # prefix pairs that share a bucket
        base = "z"
        found = 0
        i = 0
        while found < 3 and i < 400000:
            s = "%s/%d" % (base, i)
            if model.string_hash(s, order) == model.string_hash(base, order):
                keys.append(s)
                found += 1
            i += 1
        keys.append(base)
        for rep in range(3 if tier == "quick" else 40):
            seed_ = runner.seed() * 101 + rep if hasattr(runner, "seed") else rep
            args = [binary, str(seed_ % (1 << 31)), str(4000 if tier == "quick" else 20000)] + [k.encode("utf-8").hex() or "-" for k in keys]
            p = subprocess.run(args, stdout=subprocess.PIPE, stderr=subprocess.PIPE, env=default_env(), timeout=300)
            txt = p.stdout.decode("utf-8", "replace")
            r = runner.Result(dict(kind="tablew", config=cfgname, seed=seed_, type="string", order=order))
            r.stats["ops"] += 0
            m = re.search(r"done ops=(\d+) puts=(\d+) gets=(\d+) removes=(\d+) full=(\d+)", txt)
            if m:
                r.stats["table-wrapper-ops"] += int(m.group(1))
                r.sigs.add(("tablew", cfgname, int(m.group(5)) > 0))
            for line in txt.splitlines():
                if line.startswith("VIOL "):
                    kind_ = line.split()[1]
                    r.viol.append(("ht/table-wrapper:" + kind_, line[:300] + " (keys: %r...)" % keys[:6]))
            ck = crash_key(p.returncode if not r.viol else 0, p.stderr.decode("utf-8", "replace"))
            if ck:
                r.viol.append(("ht/table-wrapper-crash:" + ck, p.stderr.decode("utf-8", "replace")[:1500]))
            elif not m and not r.viol:
                r.inconclusive = "table wrapper harness printed no summary (rc %r)" % p.returncode
            r.sample = {"keys": keys[:8], "summary": txt.splitlines()[-1:] }
            out.append(r)
    return out


def main(tier):
    global _BINARY
    t0 = time.time()
    tier = tier if tier in ("quick", "thorough") else "quick"
    try:
        _BINARY = build_harness()
    except build.BuildError as e:
        print("HARNESS-FAILURE: C17 harness does not build against %s: %s" % (build.REPO, str(e)[:1500]))
        return 2
    cases = make_cases(tier)
    workers = min(16, os.cpu_count() or 4)
    with multiprocessing.Pool(workers) as pool:
        results = list(pool.imap_unordered(run_job, cases, chunksize=1))
        results.sort(key=lambda r: json.dumps(r.case, sort_keys=True, default=str))
        repro = []
        if any(r.viol for r in results):
            repro = _reproducers(results, pool, 25 if tier == "quick" else 90)
    allsigs = set()
    for r in results:
        allsigs |= r.sigs
    per = collections.Counter()
    for r in results:
        per["%s/%d" % (r.case["type"], r.case["order"])] += r.stats["ops"]
    missing = expectations(allsigs)
    extra = {
        "harness_binary": _BINARY,
        "repo": build.REPO,
        "exhaustive": False,        # only the small-order sub-space below is enumerated completely
        "exhaustive_subspace": {"orders": list(EXH_ORDERS), "keys": 5, "max_sequence_length": 6 if tier == "quick" else 7,
                       "universes_per_type_and_order": len(EXH_UNIVERSES),
                       "complete_sequences": sum(r.stats["exh-sequences"] for r in results)},
        "operations_per_type_and_order": dict(sorted(per.items())),
        "signatures": sorted("%s/%d:%s" % s for s in allsigs),
        "expected_but_unobserved": missing,
    }
    results += table_wrapper_results(tier)
    results += routing_index_results(tier)
    code = runner.report(prop="C17", level="exploration", results=repro + results, rule=RULE, t0=t0, tier_name=tier,
                         assumptions=ASSUMPTIONS, extra_cov=extra,
                         min_events={"put-with-displacement": 1, "displaced-wrapped": 1, "put-wrapped": 1, "put-full": 1,
                                     "put-overwrite": 1, "full-displacement-failed": 1, "exh-sequences": 1})
    if code == 0 and missing:
        print("HARNESS-FAILURE: C17 workloads never observed: %s" % ", ".join(missing[:20]))
        return 2
    return code


def replay(path):
    global _BINARY
    _BINARY = build_harness()
    with open(path) as fh:
        rp = json.load(fh)
    case = rp["case"]
    keys, oplines = _replay(case, rp["ops"], verbose=True)
    print("\n".join(oplines))
    for k, (at, detail) in keys.items():
        print("VIOLATION after op %d: %s\n  %s" % (at, k, detail))
    return 1 if keys else 0


if __name__ == "__main__":
    if len(sys.argv) >= 3 and sys.argv[1] == "replay":
        sys.exit(replay(sys.argv[2]))
    sys.exit(main(sys.argv[1] if len(sys.argv) > 1 else (runner.tier() or "quick")))
