"""C16: fetch/get path rules against the reference matcher."""
import itertools, json

from .model import MATCHERS
from .runner import scenario, sim_case
from .workloads import pick_chunks

ALPHA = ["", "a", "A", "b", "ab", "AB", "aB", "abc", "ABC", "abcd", "bc", "BC", "c", "a/b", "A/B", "a/b/c", "/", "a/", "/a", "//",
         "ä", "Ä", "äb", "aä", "é", "€", "a€b", "z", "Z", "zz", "aa", "aA", "Aa", "aab", "baa", "aba", "a b", " ", "0", "abcdefghij",
         # the bytes next to the letter blocks, in pairs that differ by 0x20 exactly like a letter and its other case do:
         # only A-Z / a-z may be folded
         "@", "`", "[", "{", "a[b", "a{b", "]", "}", "^", "~", "_", "\x7f"]
LONGER = "abcdefghijklmnopqrstuvwxyz/abcdefghijklmnopqrstuvwxyz"
# strings around 256 bytes (a copy routine with a fixed-size idea of "string" shows here): a path of 255, operands of 255 / 256 / 300
PATH255 = "l/" + "q" * 253
OPS_LONG = [PATH255, PATH255 + "x", "Q" * 256, PATH255[1:] + "qq", "l/" + "q" * 298]


def chunks(l, n):
    for i in range(0, len(l), n):
        yield l[i:i + n]


@scenario("rules")
def rules(case, res):
    prm = case.get("params", {})
    mode = prm.get("mode", "single")

    def body(S, rng):
        own = S.connect("own", rng.choice(["raw", "uds"]))
        q = S.connect("q", rng.choice(["raw", "ws", "uds"]))
        if q.transport == "ws":
            S.handshake(q)
        paths = list(ALPHA)
        if S.max_msg >= 512:
            paths.append(PATH255)
        if mode != "single":
            rng.shuffle(paths)
            paths = paths[:rng.randrange(8, len(paths))]
        for i, p in enumerate(paths):
            pr = {"path": p}
            if i % 5 != 4:
                pr["value"] = i
            S.request(own, "add", pr)
        S.settle()
        ops = ALPHA + [LONGER] + (OPS_LONG if S.max_msg >= 512 else [])
        rules_ = []
        if mode == "single":
            part, nparts = prm.get("part", 0), prm.get("nparts", 1)
            allr = [(m, o, ci) for m in MATCHERS for o in ops for ci in (None, True, False)]
            for k, (m, o, ci) in enumerate(allr):
                if k % nparts != part:
                    continue
                r = {m: [o] if m == "containsAllOf" else o}
                if ci is not None:
                    if rng.random() < 0.5:
                        r["caseInsensitive"] = ci
                    else:
                        r = {"caseInsensitive": ci, **r}
                rules_.append(r)
        elif mode == "pairs":
            for _ in range(prm.get("nrules", 150)):
                ms = rng.sample(MATCHERS, rng.choice([2, 2, 3, 4, 5, 6]))
                r = {}
                for m in ms:
                    if m == "containsAllOf":
                        r[m] = [rng.choice(ops) for _ in range(rng.choice([1, 2, 3, 4]))]
                    else:
                        r[m] = rng.choice(ops)
                if rng.random() < 0.5:
                    r["caseInsensitive"] = rng.random() < 0.7
                items = list(r.items())
                rng.shuffle(items)
                rules_.append(dict(items))
        nget = 0
        if mode in ("single", "pairs"):
            for grp in chunks(rules_, 12):
                for r in grp:
                    if len(json.dumps(r)) > 380:
                        continue
                    if rng.random() < 0.85:
                        S.request(q, "get", {"path": r}, chunks=pick_chunks(rng) if rng.random() < 0.2 else None)
                    else:
                        S.fidc = getattr(S, "fidc", 0) + 1
                        fid = "r%d" % S.fidc
                        S.request(q, "fetch", {"id": fid, "path": r})
                        S.request(q, "unfetch", {"id": fid})
                    nget += 1
                    S.sig("rule", tuple(sorted(k for k in r)), r.get("caseInsensitive"))
                S.settle()
            S.stats["rule_path_evaluations"] += nget * len(paths)
            if mode == "pairs":
                # the set the rules select from changes: paths that are proper prefixes of other paths (of the same owner, added in
                # random order) are removed, one subscriber watching; afterwards rules are evaluated again
                S.request(q, "fetch", {"id": "watch", "path": {"startsWith": ""}})
                S.settle()
                live = sorted(S.elements)
                victims = [p_ for p_ in live if any(o != p_ and o.startswith(p_) for o in live)]
                rng.shuffle(victims)
                for p_ in victims[:6]:
                    S.request(own, "remove", {"path": p_})
                    S.settle()
                for r in rules_[:20]:
                    if len(json.dumps(r)) <= 380:
                        S.request(q, "get", {"path": r})
                S.request(q, "get", {})
                S.settle()
                S.sig("rules-after-removals", len(victims[:6]))
                # elements come and go while case-insensitive subscriptions are active: a removed element's successor has another
                # path of the SAME length (its strings are likely to land where the old ones were); every evaluation is fresh
                cirules = [dict(r, caseInsensitive=True) for r in rules_[:40] if len(json.dumps(r)) <= 300][:3]
                cirules.append({"contains": "urn", "caseInsensitive": True})
                for k, r in enumerate(cirules):
                    S.request(q, "fetch", {"id": "ci%d" % k, "path": r})
                S.settle()
                for rnd in range(prm.get("churn", 10)):
                    n = rng.choice([5, 8, 16, 24, 31, 32, 40, 48, 64, 100])
                    fam = []
                    for v in range(3):
                        body_ = "".join(rng.choice("abABzZ/urnURN") for _ in range(n))
                        fam.append(body_)
                    for x in fam:
                        if x in S.elements:
                            continue
                        S.request(own, "add", {"path": x, "value": rnd})
                        if rng.random() < 0.5:
                            S.settle()
                        if rng.random() < 0.3:
                            S.request(q, "get", {"path": rng.choice(cirules)})
                        S.request(own, "remove", {"path": x})
                        if rng.random() < 0.5:
                            S.settle()
                    S.settle()
                    S.stats["churn_rounds"] += 1
                S.sig("churn-under-case-insensitive-fetches", len(cirules))
        else:   # ill-formed rules and repeated option keys
            bad = []
            for m in MATCHERS:
                bad += [{m: 1}, {m: None}, {m: {"a": 1}}, {m: True}]
                bad.append({m: ["a"]} if m != "containsAllOf" else {m: "a"})
            bad += [{"containsAllOf": ["a", 1]}, {"containsAllOf": [["a"]]}, {"unknown": "a"}, {"Equals": "a"}, {"equals ": "a"},
                    {"equals": "a", "nope": "b"}, [], "a", 5, {}, {"caseInsensitive": True}]
            # names that are NOT matcher names but look like one (or like the option): longer, shorter, other case, padded
            for kw in list(MATCHERS) + ["caseInsensitive"]:
                for name in (kw + "X", kw + " ", " " + kw, kw[:-1], kw.upper(), kw.lower(), "x" + kw, kw + kw):
                    if name in MATCHERS or name == "caseInsensitive":
                        continue
                    for v in ("a", True, ["a"]):
                        bad.append({name: v})
                        bad.append({"startsWith": "", name: v})
                        bad.append({name: v, "contains": "a"})
            rng.shuffle(bad)
            bad = bad[:prm.get("nbad", 160)]
            for r in bad:
                S.fidc = getattr(S, "fidc", 0) + 1
                which = rng.choice(["get", "fetch"])
                if which == "get":
                    S.request(q, "get", {"path": r})
                else:
                    S.request(q, "fetch", {"id": "b%d" % S.fidc, "path": r})
                S.sig("bad-rule", json.dumps(r)[:24], which)
                if S.fidc % 16 == 0:
                    S.settle()
            S.settle()
            # more matchers than the configured maximum
            for n in (S.max_matchers, S.max_matchers + 1, S.max_matchers + 3):
                txt = ",".join('"containsAllOf":["a"]' if i == 0 else '"startsWith":""' for i in range(1))
                names = (MATCHERS * 4)[:n]
                # duplicate matcher names are needed to exceed 6: they are "more matchers than the maximum" only in count
                body_ = "{" + ",".join('"%s":%s' % (m, '["a"]' if m == "containsAllOf" else '"a"') for m in names) + "}"
                msg = '{"id":%d,"method":"get","params":{"path":%s}}' % (900 + n, body_)
                S.idc = max(S.idc, 1000)
                p = S._register(q, {"id": 900 + n, "method": "get", "params": {"path": {m: (["a"] if m == "containsAllOf" else "a") for m in names}}})
                if n > S.max_matchers:
                    p.expect_override = "err"
                else:
                    p.expect_override = "any"
                S.send_payload(q, msg.encode())
                S.sig("many-matchers", n)
            S.settle()
            # every number of matchers from 2 up to the configured maximum (names repeat: there are only six), the one matcher that
            # decides in first, middle and last position: the selection is that of the conjunction, whatever the count
            for n in range(2, S.max_matchers + 1):
                for pos in (0, n // 2, n - 1):
                    S.idc += 1
                    i = S.idc + 40000
                    fill = [("startsWith", "a"), ("contains", "b"), ("endsWith", "c")]
                    items = [fill[k % 3] for k in range(n)]
                    items[pos] = ("equals", "abc")
                    body_ = "{" + ",".join('"%s":"%s"' % kv for kv in items) + "}"
                    msg = '{"id":%d,"method":"get","params":{"path":%s}}' % (i, body_)
                    if len(msg) > S.max_msg - 20:
                        continue
                    p = S._register(q, {"id": i, "method": "get", "params": {"path": dict(items)}})
                    p.may_refuse = True
                    S.send_payload(q, msg.encode())
                    S.sig("matcher-count", n, pos == 0, pos == n - 1)
                    S.stats["matcher_count_rules"] += 1
                S.settle()
            # repeated option key with identical values: refused or treated as given once
            for ci in (True, False):
                for m, o in (("startsWith", "a"), ("contains", "B"), ("equals", "AB")):
                    S.idc += 1
                    i = S.idc
                    v = "true" if ci else "false"
                    msg = '{"id":%d,"method":"get","params":{"path":{"caseInsensitive":%s,"%s":"%s","caseInsensitive":%s}}}' % (i, v, m, o, v)
                    p = S._register(q, {"id": i, "method": "get", "params": {"path": {"caseInsensitive": ci, m: o}}})
                    p.may_refuse = True
                    S.send_payload(q, msg.encode())
                    S.sig("repeated-option", ci, m)
            S.settle()
            # nothing may be left registered by refused fetches: a new element must not produce notifications for them
            S.request(own, "add", {"path": "late/element", "value": 1})
            S.request(own, "change", {"path": "late/element", "value": 2})
            S.settle()
        st = S.close_all()
        S.check_idle_baseline(st)
        return [{"mode": mode, "paths": len(paths), "rules": rules_[:4]}]
    sim_case(case, res, body)
