"""C18: the UTF-8 validator accepts exactly well-formed UTF-8, however the text is presented.

The real src/utf8_checker.c is linked into harness/utf8/utf8_harness.c, which carries an
independent RFC 3629 reference automaton.  Every verdict of every entry point (byte, text,
32-bit words, 64-bit words, auto-aligned; is_complete true and false) must equal the reference
verdict on the same bytes, and after an accepted incomplete call the validator's state paired
with the reference state must be a pair whose continuations were all checked (a state of the
exhaustively explored product).  Many harness processes run in parallel; each prints one JSON
line of counts and first mismatches."""
import collections, json, os, re, shutil, subprocess, tempfile, time
from concurrent.futures import ThreadPoolExecutor

from . import build, runner
from .sim import crash_key

HARNESS_SRC = os.path.join(build.VERIF, "harness", "utf8", "utf8_harness.c")

# a fast lane for the big sweeps; registered at run time only (build.py stays untouched)
build.LANES.setdefault("o2", dict(cc="gcc", flags="-O2 -g -fno-omit-frame-pointer -fno-common".split(), ld=[]))

RULE = ("for every presentation: verdict of the cjet entry point == verdict of an independent RFC 3629 "
        "automaton on the same bytes (incomplete: valid iff the bytes are a prefix of well-formed text; "
        "complete: valid iff well-formed), and the validator state after an accepted incomplete call, paired "
        "with the reference state, is a state of the exhaustively explored byte-wise product (so every "
        "continuation gets reference-equal verdicts); no sanitizer report; product identical at -O1/ASan and -O2")

ASSUMPTIONS = [
    "little-endian host: a 32/64-bit word is 4/8 consecutive text bytes as they lie in memory (what the "
    "auto-aligned entry point hands to the word entry points); built by memcpy",
    "sizeof(uint_fast16_t) == 8 on this platform, so the auto-aligned entry point uses the 64-bit path for "
    "texts of >= 8 bytes and the byte path below; its 32-bit branch is unreachable here and is covered only "
    "through direct calls of the 32-bit entry point",
    "callers stop presenting text after the first 'invalid' verdict (the validator re-arms itself then); "
    "continuations after a rejection are not compared",
    "word entry points are called with naturally aligned pointers only (as the auto-aligned entry point does)",
    "quick tier: 32-bit words = 24-value class alphabet from every product state + seeded random words; "
    "64-bit words = 6-value alphabet + all 32^4 lead combinations of four 2-byte lanes + seeded random; "
    "4-unit chunked strings sampled 1/16.  thorough tier: all 2^32 words, 12-value alphabet (12^8), all "
    "strings of <= 4 units",
]


def _binary(lane):
    return build.build(kind="utf8_harness", cjet_units=["utf8_checker.c"], extra_sources=[HARNESS_SRC],
                       wraps=[], main_rename=False, name="utf8_harness", lane=lane)


def _jobs(tier, sd):
    """(lane, mode, nparts, extra args, weight) -> expanded to one job per part, heavy ones first"""
    plan = []
    both = ("asan", "o2")
    for lane in both:
        plan.append((lane, "product", 1, [], 0))
        plan.append((lane, "w64lanes", 2, [], 2))
    if tier == "quick":
        plan += [
            ("asan", "w32alpha", 4, [], 2),
            ("o2", "w32alpha", 2, [], 1),
            ("o2", "w32rand", 4, [2500000], 1),
            ("asan", "w32rand", 2, [500000], 1),
            ("asan", "w64alpha", 4, [6, 1], 1),
            ("o2", "w64alpha", 2, [6, 1], 1),
            ("o2", "w64rand", 4, [2500000], 2),
            ("asan", "w64rand", 2, [500000], 1),
            ("asan", "chunk", 12, [4, 16], 3),
            ("o2", "chunk", 4, [4, 16], 2),
            ("asan", "chunkrand", 2, [20000], 1),
            ("o2", "chunkrand", 2, [50000], 1),
        ]
    else:
        plan += [
            ("asan", "w32all", 256, [], 9),
            ("o2", "w32all", 128, [], 8),
            ("asan", "w32alpha", 8, [], 2),
            ("o2", "w32alpha", 4, [], 1),
            ("o2", "w32rand", 4, [2500000], 1),
            ("asan", "w64alpha", 64, [12, 0], 6),
            ("o2", "w64alpha", 32, [12, 0], 5),
            ("asan", "w64alpha", 4, [6, 1], 1),
            ("o2", "w64alpha", 2, [6, 1], 1),
            ("o2", "w64rand", 8, [2500000], 2),
            ("asan", "w64rand", 8, [1250000], 2),
            ("asan", "chunk", 48, [4, 1], 7),
            ("o2", "chunk", 32, [4, 1], 6),
            ("asan", "chunkrand", 8, [100000], 3),
            ("o2", "chunkrand", 8, [200000], 3),
        ]
    plan.sort(key=lambda p: -p[4])
    jobs = []
    for lane, mode, nparts, extra, _w in plan:
        for part in range(nparts):
            hs = sd * 2 + (1 if lane == "asan" else 0)   # distinct random streams per lane
            jobs.append(dict(lane=lane, mode=mode, part=part, nparts=nparts, seed=sd,
                             args=[mode, str(part), str(nparts), str(hs)] + [str(x) for x in extra]))
    return jobs


def _run_job(job):
    t = time.time()
    env = dict(os.environ)
    env.setdefault("ASAN_OPTIONS", "detect_leaks=1:abort_on_error=0")
    env.setdefault("UBSAN_OPTIONS", "print_stacktrace=1")
    try:
        p = subprocess.run([job["binary"]] + job["args"], stdout=subprocess.PIPE, stderr=subprocess.PIPE,
                           text=True, timeout=3000, env=env)
        rc, out, err = p.returncode, p.stdout, p.stderr
    except subprocess.TimeoutExpired:
        rc, out, err = -999, "", "timeout"
    except OSError as e:
        rc, out, err = -999, "", "could not run the harness: %s" % e
    return job, rc, out, err, time.time() - t


def _hexlen(w):
    m = re.match(r"bytes=([0-9a-f|]*)", w)
    h = m.group(1).replace("|", "") if m else "f" * 999
    return (len(h), h, w)


def replay(lane, args):
    """re-run one harness job: python3 -c "from cjv import chk_c18; chk_c18.replay('asan', ['w32alpha','0','4','3'])" """
    p = subprocess.run([_binary(lane)] + [str(a) for a in args])
    return p.returncode


def main(tier):
    # the build cache is shared and pruned by other builds: run from private copies
    tmpdir = tempfile.mkdtemp(prefix="c18-")
    try:
        return _main(tier, tmpdir)
    finally:
        shutil.rmtree(tmpdir, ignore_errors=True)


def _main(tier, tmpdir):
    t0 = time.time()
    tier = tier if tier in ("quick", "thorough") else "quick"
    sd = runner.seed()
    results = []
    binaries = {}
    try:
        for lane in ("asan", "o2"):
            binaries[lane] = os.path.join(tmpdir, "utf8_harness-" + lane)
            shutil.copy2(_binary(lane), binaries[lane])
    except build.BuildError as e:
        r = runner.Result(dict(kind="c18-build"))
        r.inconclusive = "build failed: %s" % str(e)[:1500]
        return runner.report("C18", "exploration", [r], RULE, t0, tier, ASSUMPTIONS, {"exhaustive": False})

    jobs = _jobs(tier, sd)
    for j in jobs:
        j["binary"] = binaries[j["lane"]]
    with ThreadPoolExecutor(max_workers=min(16, os.cpu_count() or 4)) as ex:
        done = list(ex.map(_run_job, jobs))

    product = {}      # lane -> (states, transitions)
    best = {}         # key -> smallest witness tuple
    total = collections.Counter()
    cov = collections.Counter()
    for job, rc, out, err, wall in done:
        case = dict(kind="utf8_harness", lane=job["lane"], mode=job["mode"], part=job["part"],
                    nparts=job["nparts"], seed=sd, argv=["utf8_harness[%s]" % job["lane"]] + job["args"],
                    replay="cd %s && python3 -c \"from cjv import chk_c18; chk_c18.replay(%r, %r)\"" % (build.VERIF, job["lane"], job["args"]))
        r = runner.Result(case)
        r.wall = wall
        results.append(r)
        d = None
        lines = [l for l in out.splitlines() if l.startswith("{")]
        if lines:
            try:
                d = json.loads(lines[-1])
            except ValueError:
                d = None
        if rc != 0 or d is None:
            key = crash_key(rc, err) if rc not in (64, 3, -999) else None
            if key is not None and not key.startswith("exit-"):
                r.viol.append(("sanitizer/%s-lane/%s" % (job["lane"], key),
                               "mode %s: %s\nreplay: %s" % (job["mode"], err[:3000], case["replay"])))
                r.sigs.add(("sanitizer", key))
            else:
                r.inconclusive = "harness rc=%s mode=%s: %s" % (rc, job["mode"], (err or out)[-800:])
            continue
        if d.get("state_overflow"):
            r.inconclusive = "product state table overflow in mode %s" % job["mode"]
            continue
        mode = job["mode"]
        r.stats["calls"] += d["calls"]
        r.stats["harness_processes"] += 1
        if mode == "product":
            product[job["lane"]] = (d["product_states"], d["product_transitions"])
            r.stats["product_transitions_all_lanes"] += d["product_transitions"]
        elif mode.startswith("w32"):
            r.stats["word32_words"] += d["inputs"]
            if mode == "w32all":
                cov["word32_exhaustive_words_" + job["lane"]] += d["inputs"]
        elif mode.startswith("w64"):
            r.stats["word64_words"] += d["inputs"]
            if mode == "w64alpha":
                cov["word64_alphabet_words_" + job["lane"]] += d["inputs"]
        else:
            r.stats["chunk_texts"] += d["inputs"]
            r.stats["chunk_presentations"] += d["presentations"]
        r.stats["states_first_reached_by_word_or_auto_entry"] += d["states_first_reached_by_other_entry"]
        for e, k, comp, v, n in d["counts"]:
            r.sigs.add((e, k, "complete" if comp else "incomplete", "valid" if v else "invalid"))
            r.stats["verdicts_%s" % e] += n
        for m in d["mismatches"]:
            key = "utf8/" + m["key"]
            total[key] += m["count"]
            for w in m["witnesses"]:
                cand = _hexlen(w)
                if key not in best or cand < best[key]:
                    best[key] = cand
            r.viol.append((key, "replay: %s\n%d mismatching calls in this job (mode %s, lane %s); first: %s"
                           % (case["replay"], m["count"], mode, job["lane"], " ;; ".join(m["witnesses"]))))
        r.sample = dict(inputs=d["inputs"], calls=d["calls"], presentations=d["presentations"],
                        product_states=d["product_states"], mismatch_keys=[m["key"] for m in d["mismatches"]])
    # the same key from every job carries the globally smallest witness first
    for r in results:
        r.viol = [(k, ("minimal witness: %s\ntotal mismatching calls over all jobs: %d\n%s"
                       % (best[k][2], total[k], det)) if k in best else det) for k, det in r.viol]
    if len(set(product.values())) > 1:
        r = runner.Result(dict(kind="utf8_harness", mode="product-lanes"))
        r.viol.append(("utf8/product-differs-between-compiler-lanes",
                       "reachable (validator state, reference state) product differs: %r" % (product,)))
        results.append(r)
    ps = product.get("asan") or product.get("o2") or (0, 0)
    extra = {
        "exhaustive": tier == "thorough",
        "exhaustive_parts": (["byte-wise product (all byte strings of all lengths)", "all 32^4 lead combinations of 2-byte lanes (64-bit)",
                              "24^4 words from every product state"]
                             + (["all 2^32 32-bit words", "12^8 64-bit words", "all strings <= 4 units x 8 alignments x all cuts into <= 3 calls"]
                                if tier == "thorough" else [])),
        "product_states": ps[0],
        "product_transitions": ps[1],
        "product_by_lane": {k: list(v) for k, v in product.items()},
        "lanes": ["asan (gcc -O1 ASan+UBSan)", "o2 (gcc -O2)"],
        "harness_jobs": len(jobs),
    }
    extra.update(cov)
    min_events = {"product_transitions_all_lanes": 5000, "word32_words": 10 ** 6, "word64_words": 10 ** 6,
                  "chunk_presentations": 10 ** 6}
    return runner.report("C18", "exploration", results, RULE, t0, tier, ASSUMPTIONS, extra, min_events=min_events)


if __name__ == "__main__":
    import sys
    sys.exit(main(sys.argv[1] if len(sys.argv) > 1 else (runner.tier() or "quick")))
