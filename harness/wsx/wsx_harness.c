/*
 * wsx_harness: the REAL cjet websocket.c / compression.c / http_connection.c (+ vendored zlib)
 * as a server-side WebSocket endpoint on top of an in-memory buffered_reader.
 *
 * Commands on stdin (one per line), events on stdout (one JSON object per line, flushed
 * immediately so that a sanitizer abort never swallows events).  Every command is answered by
 * zero or more events and exactly one {"ev":"done",...} line.
 *
 *   conn <level> <cbmask> <misalign> <limit>
 *        new connection: alloc_http_connection + init_http_connection2(.., level).
 *        cbmask bit0: text/binary *message* callbacks, bit1: text/binary *frame* callbacks.
 *        misalign 0..15: offset of the buffers handed to the read handlers (exact-size heap copies,
 *        so ASan sees every access outside the bytes cjet asked for).
 *        limit: largest read the reader grants (the real buffered_socket: CONFIG_MAX_MESSAGE_SIZE).
 *   feed <hex>             bytes from the peer, delivered as far as the pending reads allow
 *   feedc <chunk> <hex>    the same, but made available <chunk> bytes at a time
 *   eof                    the peer closed its side
 *   send t|b <hex>         websocket_send_text_frame / websocket_send_binary_frame
 *   ping <hex>             websocket_send_ping_frame
 *   state                  negotiated extension state as cjet stores it
 *   shutdown               server side closes (websocket_close GOING_AWAY), as the daemon at exit
 *   quit                   shutdown + exit(0) (LeakSanitizer runs)
 *
 * The reader mimics buffered_socket.c: a read request stays armed until replaced; handlers run
 * while the request can be satisfied; len==0 means end of stream; BS_CLOSED stops the pump.
 */
#include <ctype.h>
#include <stdarg.h>
#include <stdbool.h>
#include <stdint.h>
#include <stdio.h>
#include <stdlib.h>
#include <string.h>

#include "buffered_reader.h"
#include "http_connection.h"
#include "http_server.h"
#include "jet_random.h"
#include "log.h"
#include "url_handler.h"
#include "alloc.h"
#include "websocket.h"

/* ------------------------------------------------------------------ output */

static void put_hex(const uint8_t *p, size_t n)
{
	static const char d[] = "0123456789abcdef";
	char buf[4096];
	size_t k = 0;
	for (size_t i = 0; i < n; i++) {
		buf[k++] = d[p[i] >> 4];
		buf[k++] = d[p[i] & 15];
		if (k >= sizeof(buf) - 2) {
			fwrite(buf, 1, k, stdout);
			k = 0;
		}
	}
	fwrite(buf, 1, k, stdout);
}

static void ev_bytes(const char *name, const uint8_t *p, size_t n, const char *extra)
{
	printf("{\"ev\":\"%s\",\"len\":%zu,\"hex\":\"", name, n);
	put_hex(p, n);
	printf("\"%s}\n", extra ? extra : "");
	fflush(stdout);
}

static void ev_simple(const char *name, const char *extra)
{
	printf("{\"ev\":\"%s\"%s}\n", name, extra ? extra : "");
	fflush(stdout);
}

static void ev_log(const char *lvl, const char *format, va_list ap)
{
	char msg[300];
	vsnprintf(msg, sizeof(msg), format, ap);
	printf("{\"ev\":\"log\",\"lvl\":\"%s\",\"msg\":\"", lvl);
	for (char *c = msg; *c; c++) {
		if (*c == '"' || *c == '\\' || (unsigned char)*c < 0x20 || (unsigned char)*c > 0x7e) {
			putchar('.');
		} else {
			putchar(*c);
		}
	}
	printf("\"}\n");
	fflush(stdout);
}

/* posix/log.c replaced: the messages become events */
void log_err(const char *format, ...)
{
	va_list ap;
	va_start(ap, format);
	ev_log("err", format, ap);
	va_end(ap);
}

void log_warn(const char *format, ...)
{
	va_list ap;
	va_start(ap, format);
	ev_log("warn", format, ap);
	va_end(ap);
}

void log_info(const char *format, ...)
{
	va_list ap;
	va_start(ap, format);
	ev_log("info", format, ap);
	va_end(ap);
}

/* ------------------------------------------------------------------ in-memory reader */

enum { RD_NONE, RD_EXACTLY, RD_UNTIL };

struct mem_reader {
	uint8_t *in;
	size_t in_len, in_cap, in_off;
	size_t visible;            /* bytes of in[] the "kernel" has delivered so far */
	int kind;
	size_t num;
	const char *delim;
	read_handler handler;
	void *ctx;
	error_handler err;
	void *err_ctx;
	bool closed;
	bool eof;
	bool failed;
	size_t limit;
	unsigned misalign;
	unsigned long writes;
};

static struct mem_reader *g_rd;
static struct websocket *g_ws;
static struct http_connection *g_conn_for_report;
static unsigned g_cbmask = 3;

/* several connections side by side in one process ("use <k>" selects the one the following commands talk to): whatever one
 * connection's compression leaves behind in the process is there when the next one sends */
#define SLOTS 4
static struct slot {
	struct mem_reader *rd;
	struct websocket *ws;
	struct http_connection *conn;
	unsigned cbmask;
} g_slots[SLOTS];
static unsigned g_cur;

static void use_slot(unsigned k)
{
	g_slots[g_cur].rd = g_rd;
	g_slots[g_cur].ws = g_ws;
	g_slots[g_cur].conn = g_conn_for_report;
	g_slots[g_cur].cbmask = g_cbmask;
	g_cur = k % SLOTS;
	g_rd = g_slots[g_cur].rd;
	g_ws = g_slots[g_cur].ws;
	g_conn_for_report = g_slots[g_cur].conn;
	g_cbmask = g_slots[g_cur].cbmask ? g_slots[g_cur].cbmask : 3;
}

#define WRITE_CAP ((size_t)64 << 20)

static int rd_read_exactly(void *this_ptr, size_t num, read_handler handler, void *handler_context)
{
	struct mem_reader *r = this_ptr;
	r->kind = RD_EXACTLY;
	r->num = num;
	r->handler = handler;
	r->ctx = handler_context;
	return 0;
}

static int rd_read_until(void *this_ptr, const char *delim, read_handler handler, void *handler_context)
{
	struct mem_reader *r = this_ptr;
	r->kind = RD_UNTIL;
	r->delim = delim;
	r->handler = handler;
	r->ctx = handler_context;
	return 0;
}

static int rd_writev(void *this_ptr, struct socket_io_vector *io_vec, unsigned int count)
{
	struct mem_reader *r = this_ptr;
	size_t total = 0;
	bool absurd = false;
	for (unsigned i = 0; i < count; i++) {
		if (io_vec[i].iov_len > WRITE_CAP || total + io_vec[i].iov_len > WRITE_CAP) {
			absurd = true;
		}
		total += io_vec[i].iov_len;
	}
	r->writes++;
	if (absurd) {
		/* a real writev() would walk iov_len bytes from iov_base: nothing sane to copy here */
		printf("{\"ev\":\"w_absurd\",\"iov\":[");
		for (unsigned i = 0; i < count; i++) {
			printf("%s%zu", i ? "," : "", io_vec[i].iov_len);
		}
		printf("],\"head\":\"");
		if (count > 0 && io_vec[0].iov_len <= 32) {
			put_hex(io_vec[0].iov_base, io_vec[0].iov_len);
		}
		printf("\"}\n");
		fflush(stdout);
		return 0;
	}
	uint8_t *copy = malloc(total ? total : 1);
	size_t off = 0;
	for (unsigned i = 0; i < count; i++) {
		/* touches exactly the bytes the kernel would read */
		memcpy(copy + off, io_vec[i].iov_base, io_vec[i].iov_len);
		off += io_vec[i].iov_len;
	}
	ev_bytes("w", copy, total, NULL);
	free(copy);
	return 0;
}

static int rd_close(void *this_ptr)
{
	struct mem_reader *r = this_ptr;
	if (r->closed) {
		ev_simple("br_close_twice", NULL);
	}
	r->closed = true;
	ev_simple("br_close", NULL);
	return 0;
}

static void rd_set_error_handler(void *this_ptr, error_handler handler, void *error_context)
{
	struct mem_reader *r = this_ptr;
	r->err = handler;
	r->err_ctx = error_context;
}

static void rd_fail(struct mem_reader *r, const char *why)
{
	char extra[80];
	snprintf(extra, sizeof(extra), ",\"why\":\"%s\"", why);
	ev_simple("reader_error", extra);
	r->failed = true;
	if (r->err != NULL && !r->closed) {
		r->err(r->err_ctx);
	}
}

static void rd_pump(struct mem_reader *r)
{
	while (!r->closed && !r->failed && r->kind != RD_NONE) {
		size_t avail = r->visible - r->in_off;
		size_t take = 0;
		bool have = false;
		if (r->kind == RD_EXACTLY) {
			if (r->num > r->limit) {
				rd_fail(r, "toomuchdata");
				return;
			}
			if (avail >= r->num) {
				take = r->num;
				have = true;
			}
		} else {
			size_t dl = strlen(r->delim);
			uint8_t *f = avail >= dl ? memmem(r->in + r->in_off, avail, r->delim, dl) : NULL;
			if (f != NULL) {
				take = (size_t)(f - (r->in + r->in_off)) + dl;
				have = true;
			} else if (avail > r->limit) {
				rd_fail(r, "toomuchdata");
				return;
			}
		}
		if (!have) {
			if (r->eof && r->visible == r->in_len) {
				read_handler h = r->handler;
				r->eof = false;
				h(r->ctx, NULL, 0);
				return;
			}
			return;
		}
		uint8_t *block = malloc(take + r->misalign + (take + r->misalign == 0));
		uint8_t *chunk = block + r->misalign;
		memcpy(chunk, r->in + r->in_off, take);
		r->in_off += take;
		enum bs_read_callback_return ret = r->handler(r->ctx, chunk, take);
		free(block);
		if (ret == BS_CLOSED) {
			if (!r->closed) {
				ev_simple("closed_without_br_close", NULL);
			}
			return;
		}
	}
}

static void rd_append(struct mem_reader *r, const uint8_t *p, size_t n)
{
	if (r->in_len + n > r->in_cap) {
		size_t cap = (r->in_len + n) * 2 + 64;
		r->in = realloc(r->in, cap);
		r->in_cap = cap;
	}
	memcpy(r->in + r->in_len, p, n);
	r->in_len += n;
}

/* ------------------------------------------------------------------ websocket callbacks */

static void release_ws(struct websocket *s)
{
	if (s == g_ws) {
		g_ws = NULL;
	}
	free(s);
}

static void on_error(struct websocket *s)
{
	ev_simple("ws_error", NULL);
	release_ws(s);
}

static enum websocket_callback_return on_text(struct websocket *s, char *msg, size_t length)
{
	(void)s;
	ev_bytes("text", (uint8_t *)msg, length, NULL);
	return WS_OK;
}

static enum websocket_callback_return on_binary(struct websocket *s, uint8_t *msg, size_t length)
{
	(void)s;
	ev_bytes("binary", msg, length, NULL);
	return WS_OK;
}

static enum websocket_callback_return on_text_frame(struct websocket *s, char *msg, size_t length, bool last)
{
	(void)s;
	ev_bytes("text_frame", (uint8_t *)msg, length, last ? ",\"last\":true" : ",\"last\":false");
	return WS_OK;
}

static enum websocket_callback_return on_binary_frame(struct websocket *s, uint8_t *msg, size_t length, bool last)
{
	(void)s;
	ev_bytes("binary_frame", msg, length, last ? ",\"last\":true" : ",\"last\":false");
	return WS_OK;
}

static enum websocket_callback_return on_ping(struct websocket *s, uint8_t *msg, size_t length)
{
	(void)s;
	ev_bytes("ping", msg, length, NULL);
	return WS_OK;
}

static enum websocket_callback_return on_pong(struct websocket *s, uint8_t *msg, size_t length)
{
	(void)s;
	ev_bytes("pong", msg, length, NULL);
	return WS_OK;
}

static enum websocket_callback_return on_close(struct websocket *s, enum ws_status_code code)
{
	char extra[40];
	snprintf(extra, sizeof(extra), ",\"code\":%d", (int)code);
	ev_simple("close_received", extra);
	release_ws(s);
	return WS_CLOSED;
}

/* what websocket_peer.c registers with the buffered socket */
static void on_reader_error(void *context)
{
	struct websocket *s = context;
	websocket_close(s, WS_CLOSE_GOING_AWAY);
	release_ws(s);
}

#define CRLF "\r\n"

static int create_ws(struct http_connection *connection)
{
	struct websocket *s = calloc(1, sizeof(*s));
	connection->parser.data = s;
	struct buffered_reader *br = &connection->br;
	br->set_error_handler(br->this_ptr, on_reader_error, s);
	if (websocket_init(s, connection, true, on_error, NULL) < 0) {
		ev_simple("websocket_init_failed", NULL);
		free(s);
		connection->parser.data = NULL;
		return -1;
	}
	if (g_cbmask & 1) {
		s->text_message_received = on_text;
		s->binary_message_received = on_binary;
	}
	if (g_cbmask & 2) {
		s->text_frame_received = on_text_frame;
		s->binary_frame_received = on_binary_frame;
	}
	s->ping_received = on_ping;
	s->pong_received = on_pong;
	s->close_received = on_close;
	g_ws = s;
	br->read_until(br->this_ptr, CRLF, websocket_read_header_line, s);
	return 0;
}

static const struct url_handler handlers[] = {
	{
		.request_target = "/ws",
		.create = create_ws,
		.on_header_field = websocket_upgrade_on_header_field,
		.on_header_value = websocket_upgrade_on_header_value,
		.on_headers_complete = websocket_upgrade_on_headers_complete,
		.on_body = NULL,
		.on_message_complete = NULL,
	},
};

static struct http_server g_server = {
	.handler = handlers,
	.num_handlers = 1,
};

/* ------------------------------------------------------------------ commands */

static void free_reader(void)
{
	if (g_rd != NULL) {
		free(g_rd->in);
		free(g_rd);
		g_rd = NULL;
	}
}

static void shutdown_conn(void)
{
	if (g_ws != NULL) {
		struct websocket *s = g_ws;
		websocket_close(s, WS_CLOSE_GOING_AWAY);
		release_ws(s);
	} else if (g_rd != NULL && !g_rd->closed && g_conn_for_report != NULL) {
		/* connection without websocket (upgrade never reached create): what the server does at exit */
		free_connection(g_conn_for_report);
	}
	g_conn_for_report = NULL;
	free_reader();
}

static void done(void)
{
	printf("{\"ev\":\"done\",\"alive\":%s,\"reader_closed\":%s}\n", g_ws != NULL ? "true" : "false",
	       (g_rd == NULL || g_rd->closed) ? "true" : "false");
	fflush(stdout);
}

static int hexval(int c)
{
	if (c >= '0' && c <= '9') return c - '0';
	if (c >= 'a' && c <= 'f') return c - 'a' + 10;
	if (c >= 'A' && c <= 'F') return c - 'A' + 10;
	return -1;
}

/* exact-size heap buffer: ASan flags every access beyond the payload */
static uint8_t *unhex(const char *s, size_t *out_len)
{
	while (*s == ' ') s++;
	size_t n = 0;
	const char *p = s;
	while (hexval(p[0]) >= 0 && hexval(p[1]) >= 0) {
		n++;
		p += 2;
	}
	if (*s == '-') n = 0;
	uint8_t *b = malloc(n);
	if (n != 0 && b == NULL) {
		abort();
	}
	for (size_t i = 0; i < n; i++) {
		b[i] = (uint8_t)(hexval(s[2 * i]) * 16 + hexval(s[2 * i + 1]));
	}
	*out_len = n;
	return b;
}

static void cmd_conn(const char *args)
{
	unsigned level = 0, cbmask = 3, misalign = 0;
	unsigned long limit = 1UL << 20;
	sscanf(args, "%u %u %u %lu", &level, &cbmask, &misalign, &limit);
	shutdown_conn();
	g_cbmask = cbmask;
	struct mem_reader *r = calloc(1, sizeof(*r));
	r->limit = limit;
	r->misalign = misalign & 15;
	g_rd = r;
	struct buffered_reader br;
	memset(&br, 0, sizeof(br));
	br.this_ptr = r;
	br.read_exactly = rd_read_exactly;
	br.read_until = rd_read_until;
	br.writev = rd_writev;
	br.close = rd_close;
	br.set_error_handler = rd_set_error_handler;
	struct http_connection *connection = alloc_http_connection();
	if (connection == NULL) {
		ev_simple("alloc_http_connection_failed", NULL);
		return;
	}
	g_conn_for_report = connection;
	int ret = init_http_connection2(connection, &g_server, &br, false, level);
	char extra[40];
	snprintf(extra, sizeof(extra), ",\"ret\":%d", ret);
	ev_simple("conn", extra);
}

static void after_pump(void)
{
	if (g_rd != NULL && g_rd->closed) {
		/* free_connection() released the http_connection */
		g_conn_for_report = NULL;
	}
}

static void cmd_feed(const char *args, size_t chunk)
{
	size_t n;
	uint8_t *b = unhex(args, &n);
	if (g_rd == NULL || g_rd->closed || g_rd->failed) {
		ev_simple("feed_ignored", NULL);
		free(b);
		return;
	}
	rd_append(g_rd, b, n);
	free(b);
	if (chunk == 0) {
		g_rd->visible = g_rd->in_len;
		rd_pump(g_rd);
	} else {
		while (g_rd->visible < g_rd->in_len && !g_rd->closed && !g_rd->failed) {
			size_t step = g_rd->in_len - g_rd->visible;
			if (step > chunk) step = chunk;
			g_rd->visible += step;
			rd_pump(g_rd);
		}
	}
	after_pump();
}

static void cmd_eof(void)
{
	if (g_rd == NULL || g_rd->closed || g_rd->failed) {
		ev_simple("feed_ignored", NULL);
		return;
	}
	g_rd->eof = true;
	g_rd->visible = g_rd->in_len;
	rd_pump(g_rd);
	after_pump();
}

static void cmd_send(const char *args)
{
	while (*args == ' ') args++;
	char kind = *args;
	if (kind) args++;
	size_t n;
	uint8_t *b = unhex(args, &n);
	if (g_ws == NULL) {
		ev_simple("send_ignored", NULL);
		free(b);
		return;
	}
	int ret;
	if (kind == 't') {
		ret = websocket_send_text_frame(g_ws, (char *)b, n);
	} else if (kind == 'b') {
		ret = websocket_send_binary_frame(g_ws, b, n);
	} else {
		ret = websocket_send_ping_frame(g_ws, b, n);
	}
	free(b);
	char extra[40];
	snprintf(extra, sizeof(extra), ",\"ret\":%d", ret);
	ev_simple("sent", extra);
}

static void cmd_state(void)
{
	if (g_ws == NULL) {
		ev_simple("state", ",\"alive\":false");
		return;
	}
	const struct websocket *s = g_ws;
	printf("{\"ev\":\"state\",\"alive\":true,\"upgrade_complete\":%s,\"accepted\":%s,\"level\":%u,"
	       "\"client_max_window_bits\":%u,\"server_max_window_bits\":%u,"
	       "\"client_no_context_takeover\":%s,\"server_no_context_takeover\":%s,\"response_strlen\":%ld}\n",
	       s->upgrade_complete ? "true" : "false",
	       s->extension_compression.accepted ? "true" : "false",
	       s->extension_compression.compression_level,
	       s->extension_compression.client_max_window_bits,
	       s->extension_compression.server_max_window_bits,
	       s->extension_compression.client_no_context_takeover ? "true" : "false",
	       s->extension_compression.server_no_context_takeover ? "true" : "false",
	       (s->extension_compression.accepted && s->extension_compression.response) ? (long)strlen(s->extension_compression.response) : -1L);
	fflush(stdout);
}

int main(void)
{
	char *line = NULL;
	size_t cap = 0;
	setvbuf(stdout, NULL, _IOFBF, 1 << 16);
	init_random();
	ev_simple("hello", NULL);
	while (getline(&line, &cap, stdin) > 0) {
		size_t l = strlen(line);
		while (l > 0 && (line[l - 1] == '\n' || line[l - 1] == '\r')) {
			line[--l] = 0;
		}
		if (strncmp(line, "conn ", 5) == 0) {
			cmd_conn(line + 5);
		} else if (strncmp(line, "feedc ", 6) == 0) {
			char *end;
			unsigned long chunk = strtoul(line + 6, &end, 10);
			cmd_feed(end, chunk ? chunk : 1);
		} else if (strncmp(line, "feed ", 5) == 0) {
			cmd_feed(line + 5, 0);
		} else if (strcmp(line, "eof") == 0) {
			cmd_eof();
		} else if (strncmp(line, "send ", 5) == 0) {
			cmd_send(line + 5);
		} else if (strncmp(line, "ping ", 5) == 0) {
			size_t n;
			uint8_t *b = unhex(line + 5, &n);
			if (g_ws != NULL) {
				int ret = websocket_send_ping_frame(g_ws, b, n);
				char extra[40];
				snprintf(extra, sizeof(extra), ",\"ret\":%d", ret);
				ev_simple("sent", extra);
			} else {
				ev_simple("send_ignored", NULL);
			}
			free(b);
		} else if (strncmp(line, "use ", 4) == 0) {
			use_slot((unsigned)strtoul(line + 4, NULL, 10));
			ev_simple("using", NULL);
		} else if (strcmp(line, "heap") == 0) {
			/* every connection of the process is ended, then: what the daemon's allocator still accounts */
			for (unsigned k = 0; k < SLOTS; k++) {
				use_slot(k);
				shutdown_conn();
			}
			printf("{\"ev\":\"heap\",\"bytes\":%zu}\n", cjet_get_alloc_size());
			fflush(stdout);
		} else if (strcmp(line, "state") == 0) {
			cmd_state();
		} else if (strcmp(line, "shutdown") == 0) {
			shutdown_conn();
		} else if (strcmp(line, "quit") == 0) {
			for (unsigned k = 0; k < SLOTS; k++) {
				use_slot(k);
				shutdown_conn();
			}
			done();
			break;
		} else {
			ev_simple("unknown_command", NULL);
		}
		done();
	}
	for (unsigned k = 0; k < SLOTS; k++) {
		use_slot(k);
		shutdown_conn();
	}
	free(line);
	close_random();
	return 0;
}
