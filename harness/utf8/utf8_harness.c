/*
 * C18 harness: drives the REAL cjet UTF-8 validator (src/utf8_checker.c) through every entry
 * point and compares each verdict with an independent RFC 3629 reference automaton.
 *
 *   utf8_harness <mode> <part> <nparts> <seed> [args]
 *
 * modes
 *   product               breadth-first product {validator struct reached by real calls} x
 *                         {reference state}, all 256 bytes, complete and incomplete
 *   w32alpha              from EVERY product state: all words over the 24 byte alphabet
 *   w32rand N             N seeded random words (3 generators) from the initial state
 *   w32all                all 2^32 words from the initial state (range partitioned)
 *   w64alpha K auto       all 8-byte words over the K (6|12) byte alphabet; auto=1 also through
 *                         the auto-aligned entry point at all 8 start alignments
 *   w64lanes              all 32^4 lead-byte combinations C0..DF of four 2-byte lanes
 *   w64rand N             N seeded random 8-byte words
 *   chunk MAXU SAMPLE     all strings of <= MAXU code units over the unit alphabet, all 8
 *                         alignments, all splits into <= 3 calls, 5 presentations; strings of
 *                         exactly 4 units are sampled 1/SAMPLE (SAMPLE=1: all)
 *   chunkrand N           N seeded random longer texts (<= 96 bytes; every third one up to 400 bytes, built from long plain
 *                         runs with arbitrary units right behind them), random alignment and cuts
 *
 * One JSON line on stdout.  Exit status 0 unless the harness itself is misused.
 *
 * The reference automaton below is written from RFC 3629 section 4 (UTF8-octets grammar), not
 * from cjet's code:
 *   UTF8-1 = %x00-7F
 *   UTF8-2 = %xC2-DF UTF8-tail
 *   UTF8-3 = %xE0 %xA0-BF UTF8-tail / %xE1-EC 2( UTF8-tail ) / %xED %x80-9F UTF8-tail /
 *            %xEE-EF 2( UTF8-tail )
 *   UTF8-4 = %xF0 %x90-BF 2( UTF8-tail ) / %xF1-F3 3( UTF8-tail ) / %xF4 %x80-8F 2( UTF8-tail )
 *   UTF8-tail = %x80-BF
 */
#define _GNU_SOURCE
#include <inttypes.h>
#include <stdbool.h>
#include <stdint.h>
#include <stdio.h>
#include <stdlib.h>
#include <string.h>

#include "utf8_checker.h"

#if !defined(__BYTE_ORDER__) || __BYTE_ORDER__ != __ORDER_LITTLE_ENDIAN__
#error "the harness presents words as consecutive text bytes on a little-endian host"
#endif

/* ------------------------------------------------------------------ reference automaton */

enum { R_START, R_T1, R_T2, R_E0, R_ED, R_T3, R_F0, R_F4, R_DEAD, R_N };
static const char *RNAME[R_N] = {"start", "tail1", "tail2", "after-E0", "after-ED", "tail3",
                                 "after-F0", "after-F4", "dead"};

/* class of an input (for keys and coverage signatures) */
enum { K_WELL, K_PREFIX, K_OVERLONG2, K_OVERLONG3, K_OVERLONG4, K_SURROGATE, K_ABOVE, K_STRAY, K_BADLEAD, K_INTERRUPTED,
       K_TRUNC_END, K_N };
static const char *KNAME[K_N] = {"well-formed", "incomplete-prefix", "overlong-2byte", "overlong-3byte",
                                 "overlong-4byte", "surrogate",
                                 "above-u10ffff", "stray-continuation", "invalid-lead-byte",
                                 "interrupted-sequence", "truncated-at-end"};

static uint8_t RT[R_N][256];   /* transition */
static uint8_t RC[R_N][256];   /* why the transition is dead */

static void rrange(int st, int lo, int hi, int to)
{
	for (int b = lo; b <= hi; b++) RT[st][b] = (uint8_t)to;
}

static void crange(int st, int lo, int hi, int cls)
{
	for (int b = lo; b <= hi; b++) RC[st][b] = (uint8_t)cls;
}

static void ref_init(void)
{
	for (int s = 0; s < R_N; s++) {
		rrange(s, 0, 255, R_DEAD);
		crange(s, 0, 255, K_INTERRUPTED);
	}
	rrange(R_START, 0x00, 0x7F, R_START);
	rrange(R_START, 0xC2, 0xDF, R_T1);
	rrange(R_START, 0xE0, 0xE0, R_E0);
	rrange(R_START, 0xE1, 0xEC, R_T2);
	rrange(R_START, 0xED, 0xED, R_ED);
	rrange(R_START, 0xEE, 0xEF, R_T2);
	rrange(R_START, 0xF0, 0xF0, R_F0);
	rrange(R_START, 0xF1, 0xF3, R_T3);
	rrange(R_START, 0xF4, 0xF4, R_F4);
	rrange(R_T1, 0x80, 0xBF, R_START);
	rrange(R_T2, 0x80, 0xBF, R_T1);
	rrange(R_E0, 0xA0, 0xBF, R_T1);
	rrange(R_ED, 0x80, 0x9F, R_T1);
	rrange(R_T3, 0x80, 0xBF, R_T2);
	rrange(R_F0, 0x90, 0xBF, R_T2);
	rrange(R_F4, 0x80, 0x8F, R_T2);

	crange(R_START, 0x80, 0xBF, K_STRAY);
	crange(R_START, 0xC0, 0xC1, K_OVERLONG2);
	crange(R_START, 0xF5, 0xFF, K_BADLEAD);
	crange(R_E0, 0x80, 0x9F, K_OVERLONG3);
	crange(R_ED, 0xA0, 0xBF, K_SURROGATE);
	crange(R_F0, 0x80, 0x8F, K_OVERLONG4);
	crange(R_F4, 0x90, 0xBF, K_ABOVE);
}

/* run n bytes from (*r, *cls) */
static inline void ref_run(const uint8_t *b, int n, int *r, int *cls)
{
	int s = *r;
	for (int i = 0; i < n; i++) {
		int t = RT[s][b[i]];
		if (t == R_DEAD && s != R_DEAD) *cls = RC[s][b[i]];
		s = t;
	}
	*r = s;
}

/* ------------------------------------------------------------------ entry points */

enum { E_BYTE, E_TEXT, E_W32, E_W64, E_AUTO, E_N, X_W32MIX = E_N, X_W64MIX, X_N };
static const char *ENAME[X_N] = {"byte", "text", "word32", "word64", "auto-aligned", "word32-or-byte",
                                 "word64-or-word32-or-byte"};

static inline bool call_entry(int e, struct cjet_utf8_checker *c, const uint8_t *p, size_t n, bool comp)
{
	switch (e) {
	case E_BYTE: return cjet_is_byte_sequence_valid(c, p, n, comp);
	case E_TEXT: return cjet_is_text_valid(c, (const char *)p, n, comp);
	case E_W32: return cjet_is_word_sequence_valid(c, (const uint32_t *)(const void *)p, n / 4, comp);
	case E_W64: return cjet_is_word64_sequence_valid(c, (const uint64_t *)(const void *)p, n / 8, comp);
	default: return cjet_is_word_sequence_valid_auto_alligned(c, p, n, comp);
	}
}

static inline int resolve(int e, const uint8_t *p, size_t n)
{
	if (e < E_N) return e;
	if (e == X_W64MIX && n > 0 && n % 8 == 0 && ((uintptr_t)p) % 8 == 0) return E_W64;
	if (n > 0 && n % 4 == 0 && ((uintptr_t)p) % 4 == 0) return E_W32;
	return E_BYTE;
}

/* ------------------------------------------------------------------ bookkeeping */

static uint64_t CNT[E_N][K_N][2][2];
static uint64_t n_calls, n_inputs, n_presentations, n_transitions, n_newstates, n_muted;
static int mute;

struct wit {
	int from_idx;          /* product state the presentation started from (-1: initial) */
	const uint8_t *bytes;  /* all bytes of the text presented so far incl. this call */
	int nbytes;
	int total;             /* length of the whole text (chunk modes), else nbytes */
	int complete;
	int offset;            /* start address modulo 8, -1 n/a */
	int cut1, cut2;        /* -1 n/a */
	int callno;
	int present;           /* X_* presentation, -1 n/a */
};

struct mm {
	char key[112];
	uint64_t count;
	int nw;
	char w[3][640];
};
static struct mm MM[256];
static int nmm;

static int path_of(int idx, uint8_t *out, int max);

static void hexs(char *dst, size_t cap, const uint8_t *b, int n)
{
	size_t o = 0;
	dst[0] = 0;
	for (int i = 0; i < n && o + 3 < cap; i++) o += (size_t)snprintf(dst + o, cap - o, "%02x", b[i]);
}

static void mismatch(const char *key, const struct wit *w, const char *got, const char *expected, int r)
{
	if (mute) {
		n_muted++;
		return;
	}
	struct mm *m = NULL;
	for (int i = 0; i < nmm; i++)
		if (strcmp(MM[i].key, key) == 0) m = &MM[i];
	if (m == NULL) {
		if (nmm == (int)(sizeof(MM) / sizeof(MM[0]))) return;
		m = &MM[nmm++];
		snprintf(m->key, sizeof(m->key), "%s", key);
	}
	m->count++;
	if (m->nw >= 3) return;
	char hx[300], px[140] = "";
	uint8_t pb[64];
	hexs(hx, sizeof(hx), w->bytes, w->nbytes);
	if (w->from_idx > 0) {
		int n = path_of(w->from_idx, pb, (int)sizeof(pb));
		hexs(px, sizeof(px), pb, n);
	}
	char head[460];
	int hl = snprintf(head, sizeof(head), "bytes=%s%s%s len=", px, px[0] ? "|" : "", hx);
	for (int i = 0; i < m->nw; i++)
		if (strncmp(m->w[i], head, (size_t)hl) == 0) return; /* keep witnesses with distinct bytes */
	char *d = m->w[m->nw++];
	size_t o = 0, cap = sizeof(m->w[0]);
	o += (size_t)snprintf(d + o, cap - o, "%s%d is_complete=%d got=%s expected=%s reference_state=%s",
	                      head, w->nbytes, w->complete, got, expected, RNAME[r]);
	if (px[0]) o += (size_t)snprintf(d + o, cap - o, " (bytes before '|' were fed one at a time through the byte entry point)");
	if (w->present == -2)
		o += (size_t)snprintf(d + o, cap - o, " (zero-length call; the bytes were fed one at a time through the byte entry point before)");
	if (w->offset >= 0) o += (size_t)snprintf(d + o, cap - o, " start_address_mod_8=%d", w->offset);
	if (w->cut1 >= 0)
		o += (size_t)snprintf(d + o, cap - o, " text_len=%d calls_cut_at=%d,%d failing_call=%d presentation=%s",
		                      w->total, w->cut1, w->cut2, w->callno, w->present >= 0 ? ENAME[w->present] : "-");
}

static inline void judge(int e, bool v, int r, int cls, int comp, const struct wit *w)
{
	int k = (r == R_DEAD) ? cls : (r == R_START ? K_WELL : (comp ? K_TRUNC_END : K_PREFIX));
	CNT[e][k][comp][v ? 1 : 0]++;
	n_calls++;
	bool expected = comp ? (r == R_START) : (r != R_DEAD);
	if (__builtin_expect(v == expected, 1)) return;
	char key[112];
	if (v) {
		if (r == R_DEAD) snprintf(key, sizeof(key), "%s-accepts-ill-formed-%s", ENAME[e], KNAME[cls]);
		else snprintf(key, sizeof(key), "%s-accepts-truncated-sequence-when-complete", ENAME[e]);
	} else {
		if (r == R_START) snprintf(key, sizeof(key), "%s-rejects-well-formed", ENAME[e]);
		else snprintf(key, sizeof(key), "%s-rejects-well-formed-prefix", ENAME[e]);
	}
	mismatch(key, w, v ? "valid" : "invalid", expected ? "valid" : "invalid", r);
}

/* ------------------------------------------------------------------ product state set */

struct ps {
	struct cjet_utf8_checker c;
	uint8_t ref, via, bad;
	int parent;
};
#define MAXPS (1 << 16)
#define HSIZE (1 << 18)
static struct ps PS[MAXPS];
static int nps, nbase, ps_overflow;
static int HT[HSIZE];

static inline uint32_t pkey(const struct cjet_utf8_checker *c, int ref)
{
	return ((uint32_t)c->start_byte << 24) | ((uint32_t)c->length << 16) | ((uint32_t)c->next_byte << 8) | (uint32_t)ref;
}

static inline int ps_lookup(const struct cjet_utf8_checker *c, int ref)
{
	uint32_t k = pkey(c, ref);
	uint32_t h = (k * 2654435761u) >> 14;
	for (;;) {
		int i = HT[h & (HSIZE - 1)];
		if (i < 0) return -1;
		if (pkey(&PS[i].c, PS[i].ref) == k) return i;
		h++;
	}
}

static int ps_add(const struct cjet_utf8_checker *c, int ref, int parent, int via)
{
	if (nps == MAXPS) {
		ps_overflow = 1;
		return -1;
	}
	uint32_t k = pkey(c, ref);
	uint32_t h = (k * 2654435761u) >> 14;
	while (HT[h & (HSIZE - 1)] >= 0) h++;
	HT[h & (HSIZE - 1)] = nps;
	PS[nps].c = *c;
	PS[nps].ref = (uint8_t)ref;
	PS[nps].parent = parent;
	PS[nps].via = (uint8_t)via;
	PS[nps].bad = 0;
	return nps++;
}

static int path_of(int idx, uint8_t *out, int max)
{
	int n = 0;
	uint8_t tmp[64];
	while (idx > 0 && PS[idx].parent >= 0 && n < 64) {
		tmp[n++] = PS[idx].via;
		idx = PS[idx].parent;
	}
	if (n > max) n = max;
	for (int i = 0; i < n; i++) out[i] = tmp[n - 1 - i];
	return n;
}

static void successor(const struct cjet_utf8_checker *c, int ref, int parent, int via)
{
	if (ps_lookup(c, ref) < 0) ps_add(c, ref, parent, via);
}

/* explore everything reachable from PS[from..]; returns the number of mismatches seen */
static uint64_t explore(int from)
{
	uint64_t before_total = n_muted;
	uint64_t before = 0;
	for (int i = 0; i < nmm; i++) before += MM[i].count;
	static const int single[3] = {E_BYTE, E_TEXT, E_AUTO};
	uint8_t path[80];
	for (int q = from; q < nps; q++) {
		struct ps s = PS[q];
		int np = path_of(q, path, 64);
		/* zero-length calls through every entry point */
		for (int e = 0; e < E_N; e++)
			for (int comp = 0; comp < 2; comp++) {
				uint64_t dummy = 0;
				struct cjet_utf8_checker c = s.c;
				bool v = call_entry(e, &c, (const uint8_t *)&dummy, 0, comp);
				struct wit w = {-1, path, np, np, comp, -1, -1, -1, 0, -2};
				judge(e, v, s.ref, K_INTERRUPTED, comp, &w);
				if (v && !comp) successor(&c, s.ref, q, 0);
			}
		for (int b = 0; b < 256; b++) {
			uint8_t byte = (uint8_t)b;
			int r = RT[s.ref][b];
			int cls = RC[s.ref][b];
			path[np] = byte;
			n_transitions++;
			for (int k = 0; k < 3; k++)
				for (int comp = 0; comp < 2; comp++) {
					struct cjet_utf8_checker c = s.c;
					bool v = call_entry(single[k], &c, &byte, 1, comp);
					struct wit w = {-1, path, np + 1, np + 1, comp, -1, -1, -1, 0, -1};
					judge(single[k], v, r, cls, comp, &w);
					if (v && !comp && r != R_DEAD) successor(&c, r, q, b);
				}
		}
	}
	uint64_t after = 0;
	for (int i = 0; i < nmm; i++) after += MM[i].count;
	return (after - before) + (n_muted - before_total);
}

static void product_init(void)
{
	for (int i = 0; i < HSIZE; i++) HT[i] = -1;
	struct cjet_utf8_checker c;
	memset(&c, 0, sizeof(c));
	cjet_init_checker(&c);
	ps_add(&c, R_START, -1, 0);
}

/* after an accepted incomplete call: the validator's struct paired with the reference state must
 * be a pair from which every continuation gets reference-equal verdicts (= a product state whose
 * exploration showed no mismatch) */
static inline void follow_check(int e, const struct cjet_utf8_checker *c, int r, const struct wit *w)
{
	if (__builtin_expect(r == PS[0].ref && c->start_byte == PS[0].c.start_byte && c->length == PS[0].c.length &&
	                     c->next_byte == PS[0].c.next_byte && !PS[0].bad, 1))
		return;
	int idx = ps_lookup(c, r);
	if (idx < 0) {
		int first = nps;
		idx = ps_add(c, r, -1, 0);
		if (idx < 0) return;
		n_newstates++;
		mute++;
		uint64_t n = explore(idx);
		mute--;
		if (n)
			for (int k = first; k < nps; k++) PS[k].bad = 1;
	}
	if (PS[idx].bad) {
		char key[112];
		snprintf(key, sizeof(key), "%s-follow-on-state-diverges", ENAME[e]);
		mismatch(key, w, "valid+state", "a state with reference-equal continuations", r);
	}
}

/* ------------------------------------------------------------------ random */

static uint64_t rng_s;
static inline uint64_t rnd(void)
{
	uint64_t z = (rng_s += 0x9E3779B97F4A7C15ull);
	z = (z ^ (z >> 30)) * 0xBF58476D1CE4E5B9ull;
	z = (z ^ (z >> 27)) * 0x94D049BB133111EBull;
	return z ^ (z >> 31);
}

static const uint8_t ALPHA24[24] = {0x00, 0x7F, 0x80, 0x8F, 0x90, 0x9F, 0xA0, 0xBF, 0xC0, 0xC1, 0xC2, 0xDF,
                                    0xE0, 0xE1, 0xEC, 0xED, 0xEE, 0xEF, 0xF0, 0xF1, 0xF3, 0xF4, 0xF5, 0xFF};
static const uint8_t ALPHA12[12] = {0x00, 0x7F, 0x80, 0xBF, 0xC0, 0xC1, 0xC2, 0xDF, 0xE0, 0xED, 0xF0, 0xF4};
static const uint8_t ALPHA6[6] = {0x7F, 0x80, 0xBF, 0xC1, 0xC2, 0xE0};

/* grammar based: mostly well-formed units, sometimes damaged; corrupt = 1/corrupt damaged units */
static int gen_units(uint8_t *out, int n, unsigned corrupt)
{
	int o = 0;
	while (o < n) {
		uint64_t x = rnd();
		uint8_t u[4];
		int len;
		unsigned kind = (unsigned)(x & 7);
		x >>= 3;
		if (kind < 3) {
			len = 1;
			u[0] = (uint8_t)(x & 0x7F);
		} else if (kind < 5) {
			len = 2;
			u[0] = (uint8_t)(0xC2 + (x % 30));
			u[1] = (uint8_t)(0x80 + ((x >> 8) & 0x3F));
		} else if (kind < 7) {
			len = 3;
			u[0] = (uint8_t)(0xE0 + (x & 0xF));
			u[1] = (uint8_t)(0x80 + ((x >> 8) & 0x3F));
			u[2] = (uint8_t)(0x80 + ((x >> 16) & 0x3F));
			if (u[0] == 0xE0) u[1] |= 0x20;
			if (u[0] == 0xED) u[1] &= 0x9F;
		} else {
			len = 4;
			u[0] = (uint8_t)(0xF0 + ((x & 0xF) % 5));
			u[1] = (uint8_t)(0x80 + ((x >> 8) & 0x3F));
			u[2] = (uint8_t)(0x80 + ((x >> 16) & 0x3F));
			u[3] = (uint8_t)(0x80 + ((x >> 24) & 0x3F));
			if (u[0] == 0xF0 && u[1] < 0x90) u[1] |= 0x10;
			if (u[0] == 0xF4) u[1] &= 0x8F;
		}
		if (corrupt && (x >> 32) % corrupt == 0) {
			uint64_t y = rnd();
			switch (y & 7) {
			case 0: u[0] = (uint8_t)(0xC0 + ((y >> 8) & 1)); len = 2; u[1] = (uint8_t)(0x80 + ((y >> 16) & 0x3F)); break;
			case 1: u[(y >> 8) % (unsigned)len] = (uint8_t)(y >> 16); break;
			case 2: if (len > 1) len--; break;
			case 3: u[0] = 0xED; u[1] = (uint8_t)(0xA0 + ((y >> 8) & 0x1F)); u[2] = 0x80; len = 3; break;
			case 4: u[0] = 0xF4; u[1] = (uint8_t)(0x90 + ((y >> 8) & 0x2F)); u[2] = 0x80; u[3] = 0x80; len = 4; break;
			case 5: u[0] = 0xE0; u[1] = (uint8_t)(0x80 + ((y >> 8) & 0x1F)); u[2] = 0x80; len = 3; break;
			case 6: u[0] = 0xF0; u[1] = (uint8_t)(0x80 + ((y >> 8) & 0x0F)); u[2] = 0x80; u[3] = 0x80; len = 4; break;
			default: u[0] = ALPHA24[(y >> 8) % 24]; len = 1; break;
			}
		}
		for (int i = 0; i < len && o < n; i++) out[o++] = u[i];
	}
	return o;
}

static void gen_word(uint8_t *b, int n)
{
	uint64_t x = rnd();
	switch (x & 3) {
	case 0:
		for (int i = 0; i < n; i++) b[i] = (uint8_t)(rnd() >> 17);
		break;
	case 1:
		for (int i = 0; i < n; i++) b[i] = ALPHA24[(rnd() >> 11) % 24];
		break;
	case 2:
		gen_units(b, n, 4);
		break;
	default: {
		/* lanes of 2-byte forms with leads around the C1/C2 boundary, sometimes ASCII pairs */
		for (int i = 0; i + 1 < n; i += 2) {
			uint64_t y = rnd();
			if ((y & 7) == 0) {
				b[i] = (uint8_t)((y >> 8) & 0x7F);
				b[i + 1] = (uint8_t)((y >> 16) & 0x7F);
			} else {
				b[i] = (uint8_t)(0xC0 + ((y >> 8) & 0x1F));
				if ((y & 6) == 2) b[i] = (uint8_t)(0xC0 + ((y >> 8) & 3));
				b[i + 1] = (uint8_t)(0x80 + ((y >> 16) & 0x3F));
			}
		}
		break;
	}
	}
}

/* ------------------------------------------------------------------ word presentations */

static inline void present_w32(int from_idx, const uint8_t *b)
{
	const struct ps *from = &PS[from_idx];
	int r = from->ref, cls = K_INTERRUPTED;
	ref_run(b, 4, &r, &cls);
	uint32_t W;
	memcpy(&W, b, 4);
	n_inputs++;
	struct wit w = {from_idx, b, 4, 4, 0, -1, -1, -1, 0, -1};
	struct cjet_utf8_checker c = from->c;
	bool v = cjet_is_word_sequence_valid(&c, &W, 1, false);
	judge(E_W32, v, r, cls, 0, &w);
	if (v && r != R_DEAD) follow_check(E_W32, &c, r, &w);
	c = from->c;
	v = cjet_is_word_sequence_valid(&c, &W, 1, true);
	w.complete = 1;
	judge(E_W32, v, r, cls, 1, &w);
}

static _Alignas(64) uint8_t ABUF[64];

static inline void present_w64(int from_idx, const uint8_t *b, int with_auto, uint64_t counter)
{
	const struct ps *from = &PS[from_idx];
	int r = from->ref, cls = K_INTERRUPTED;
	ref_run(b, 8, &r, &cls);
	uint64_t W;
	memcpy(&W, b, 8);
	n_inputs++;
	struct wit w = {from_idx, b, 8, 8, 0, -1, -1, -1, 0, -1};
	struct cjet_utf8_checker c = from->c;
	bool v = cjet_is_word64_sequence_valid(&c, &W, 1, false);
	judge(E_W64, v, r, cls, 0, &w);
	if (v && r != R_DEAD) follow_check(E_W64, &c, r, &w);
	c = from->c;
	v = cjet_is_word64_sequence_valid(&c, &W, 1, true);
	w.complete = 1;
	judge(E_W64, v, r, cls, 1, &w);
	if (!with_auto) return;
	/* the same word as the aligned middle of a text handed to the auto-aligned entry point:
	 * (8 - o) ASCII bytes up to the next 8-byte boundary, the word, 0..3 ASCII bytes */
	int o = (int)(counter & 7);
	int post = (int)((counter >> 3) & 3);
	int pre = 8 - o;
	uint8_t *p = ABUF + o;
	memset(p, 'a', (size_t)pre);
	memcpy(p + pre, b, 8);
	memset(p + pre + 8, 'z', (size_t)post);
	int n = pre + 8 + post;
	int r2 = from->ref, cls2 = K_INTERRUPTED;
	ref_run(p, n, &r2, &cls2);
	for (int comp = 0; comp < 2; comp++) {
		struct wit w2 = {from_idx, p, n, n, comp, o, -1, -1, 0, -1};
		c = from->c;
		v = cjet_is_word_sequence_valid_auto_alligned(&c, p, (size_t)n, comp);
		judge(E_AUTO, v, r2, cls2, comp, &w2);
		if (!comp && v && r2 != R_DEAD) follow_check(E_AUTO, &c, r2, &w2);
	}
}

/* ------------------------------------------------------------------ chunked presentations */

static const struct { uint8_t n; uint8_t b[4]; } UNITS[] = {
	{1, {0x7F}},                    /* highest 1-byte */
	{2, {0xC2, 0x80}},              /* lowest 2-byte */
	{2, {0xDF, 0xBF}},              /* highest 2-byte */
	{3, {0xE0, 0xA0, 0x80}},        /* lowest 3-byte */
	{3, {0xED, 0x9F, 0xBF}},        /* just below the surrogates */
	{3, {0xEF, 0xBF, 0xBF}},        /* highest 3-byte */
	{4, {0xF0, 0x90, 0x80, 0x80}},  /* lowest 4-byte */
	{4, {0xF4, 0x8F, 0xBF, 0xBF}},  /* U+10FFFF */
	{2, {0xC0, 0x80}},              /* overlong 2-byte */
	{2, {0xC1, 0xBF}},              /* overlong 2-byte */
	{3, {0xE0, 0x9F, 0xBF}},        /* overlong 3-byte */
	{4, {0xF0, 0x8F, 0xBF, 0xBF}},  /* overlong 4-byte */
	{3, {0xED, 0xA0, 0x80}},        /* surrogate */
	{4, {0xF4, 0x90, 0x80, 0x80}},  /* above U+10FFFF */
	{2, {0xE2, 0x82}},              /* truncated 3-byte */
	{3, {0xF0, 0x9F, 0x98}},        /* truncated 4-byte */
	{1, {0xC2}},                    /* lone lead */
	{1, {0x80}},                    /* stray continuation */
};
#define NUNITS ((int)(sizeof(UNITS) / sizeof(UNITS[0])))

static void run_presentation(const uint8_t *p, int tn, const uint8_t *rs, const uint8_t *cl, int i, int j, int e,
                             int comp, int offset)
{
	int bounds[4] = {0, i, j, tn};
	struct cjet_utf8_checker c;
	cjet_init_checker(&c);
	n_presentations++;
	for (int k = 0; k < 3; k++) {
		const uint8_t *q = p + bounds[k];
		size_t len = (size_t)(bounds[k + 1] - bounds[k]);
		int cm = (k == 2) && comp;
		int ee = resolve(e, q, len);
		bool v = call_entry(ee, &c, q, len, cm);
		int r = rs[bounds[k + 1]];
		struct wit w = {-1, p, bounds[k + 1], tn, cm, offset, i, j, k, e};
		judge(ee, v, r, cl[bounds[k + 1]], cm, &w);
		if (!v || r == R_DEAD) break;
		if (!cm) follow_check(ee, &c, r, &w);
	}
}

static int uses_words(int e, const uint8_t *p, int tn, int i, int j)
{
	int bounds[4] = {0, i, j, tn};
	for (int k = 0; k < 3; k++)
		if (resolve(e, p + bounds[k], (size_t)(bounds[k + 1] - bounds[k])) != E_BYTE) return 1;
	return 0;
}

/* all alignments x cuts x presentations of one text; three_way=0: cuts into two calls only */
static void chunk_text(const uint8_t *T, int tn, int three_way)
{
	uint8_t rs[160], cl[160];
	int r = R_START, cls = K_INTERRUPTED;
	rs[0] = R_START;
	cl[0] = K_INTERRUPTED;
	for (int i = 0; i < tn; i++) {
		ref_run(T + i, 1, &r, &cls);
		rs[i + 1] = (uint8_t)r;
		cl[i + 1] = (uint8_t)cls;
	}
	n_inputs++;
	for (int o = 0; o < 8; o++) {
		/* exact-size heap block: any read outside the text is an ASan report */
		uint8_t *m = malloc((size_t)(o + tn) ? (size_t)(o + tn) : 1);
		if (m == NULL) exit(3);
		uint8_t *p = m + o;
		memcpy(p, T, (size_t)tn);
		for (int i = 0; i <= tn; i++)
			for (int j = three_way ? i : tn; j <= tn; j++)
				for (int e = 0; e < X_N; e++) {
					if (e == E_W32 || e == E_W64) continue;
					if (e >= E_N && !uses_words(e, p, tn, i, j)) continue;
					for (int comp = 0; comp < 2; comp++) run_presentation(p, tn, rs, cl, i, j, e, comp, o);
				}
		free(m);
	}
}

static void mode_chunk(int part, int nparts, uint64_t seed, int maxu, int sample)
{
	uint64_t index = 0;
	for (int k = 0; k <= maxu; k++) {
		uint64_t tot = 1;
		for (int i = 0; i < k; i++) tot *= (uint64_t)NUNITS;
		for (uint64_t x = 0; x < tot; x++, index++) {
			if ((int)(index % (uint64_t)nparts) != part) continue;
			if (k >= 4 && sample > 1) {
				uint64_t h = (x + seed) * 0x9E3779B97F4A7C15ull;
				if ((h >> 33) % (uint64_t)sample != 0) continue;
			}
			uint8_t S[16], T[40];
			int n = 0;
			uint64_t y = x;
			int ids[8];
			for (int i = k - 1; i >= 0; i--) {
				ids[i] = (int)(y % (uint64_t)NUNITS);
				y /= (uint64_t)NUNITS;
			}
			for (int i = 0; i < k; i++) {
				memcpy(S + n, UNITS[ids[i]].b, UNITS[ids[i]].n);
				n += UNITS[ids[i]].n;
			}
			chunk_text(S, n, 1);
			/* embedded between 8 ASCII bytes on either side: at the 8 alignments the units land at
			 * every position relative to the 8-byte words of the auto-aligned middle part */
			memset(T, 'a', 8);
			memcpy(T + 8, S, (size_t)n);
			memset(T + 8 + n, 'z', 8);
			chunk_text(T, n + 16, 0);
		}
	}
}

static void mode_chunkrand(uint64_t n)
{
	for (uint64_t t = 0; t < n; t++) {
		uint8_t T[512];
		int tn = (int)(rnd() % 97);
		unsigned corrupt = (rnd() & 1) ? 0 : (unsigned)(2 + rnd() % 30);
		gen_units(T, tn, corrupt);
		if ((rnd() % 3) == 0) {
			/* long texts made of long runs: plain ASCII (or two-byte characters) for about 8 / 16 / 32 / 64 / 128 bytes - whole
			 * cache lines of it, at every offset - and directly behind each run a few arbitrary (often ill-formed) units:
			 * whatever a fast path skips, the bytes right behind the skipped stretch are judged like all others */
			static const int RUN[] = {7, 8, 9, 15, 16, 17, 31, 32, 33, 47, 55, 56, 57, 62, 63, 64, 65, 66, 71, 72, 73, 79, 80, 81, 127, 128, 129, 136};
			tn = 0;
			int nruns = 1 + (int)(rnd() % 3);
			for (int r_ = 0; r_ < nruns && tn < 380; r_++) {
				int len = RUN[rnd() % (sizeof(RUN) / sizeof(RUN[0]))];
				int two = (rnd() % 4) == 0;
				for (int i = 0; i < len && tn < 380; i++) {
					if (two && i + 1 < len) {
						T[tn++] = (uint8_t)(0xC2 + (rnd() % 30));
						T[tn++] = (uint8_t)(0x80 + (rnd() & 0x3F));
						i++;
					} else {
						T[tn++] = (uint8_t)(0x20 + (rnd() % 0x5F));
					}
				}
				uint8_t piece[16];
				int pn = 1 + (int)(rnd() % 9);
				gen_units(piece, pn, (rnd() & 1) ? 0 : (unsigned)(2 + rnd() % 6));
				memcpy(T + tn, piece, (size_t)pn);
				tn += pn;
			}
			corrupt = 1;    /* (keeps the two-byte rewrite below away from these texts) */
		}
		if (corrupt == 0 && (rnd() & 3) == 0 && tn > 0) {
			/* only 2-byte forms and ASCII pairs: the texts the word fast paths skip over */
			for (int i = 0; i + 1 < tn; i += 2) {
				uint64_t y = rnd();
				if (y & 1) {
					T[i] = (uint8_t)(0xC2 + ((y >> 8) % 30));
					T[i + 1] = (uint8_t)(0x80 + ((y >> 16) & 0x3F));
				} else {
					T[i] = (uint8_t)((y >> 8) & 0x7F);
					T[i + 1] = (uint8_t)((y >> 16) & 0x7F);
				}
			}
			if (tn & 1) T[tn - 1] = 'x';
			if (rnd() % 3 == 0 && tn > 1) {
				/* one overlong 2-byte form hidden among them */
				int at = (int)((rnd() % (uint64_t)(tn - 1)) & ~1ull);
				T[at] = (uint8_t)(0xC0 + (rnd() & 1));
				T[at + 1] = 0x80;
			}
		}
		uint8_t rs[520], cl[520];
		int r = R_START, cls = K_INTERRUPTED;
		rs[0] = R_START;
		cl[0] = K_INTERRUPTED;
		for (int i = 0; i < tn; i++) {
			ref_run(T + i, 1, &r, &cls);
			rs[i + 1] = (uint8_t)r;
			cl[i + 1] = (uint8_t)cls;
		}
		n_inputs++;
		int o = (int)(rnd() & 7);
		uint8_t *m = malloc((size_t)(o + tn) ? (size_t)(o + tn) : 1);
		if (m == NULL) exit(3);
		uint8_t *p = m + o;
		memcpy(p, T, (size_t)tn);
		for (int rep = 0; rep < 6; rep++) {
			int i = (int)(rnd() % (uint64_t)(tn + 1)), j = (int)(rnd() % (uint64_t)(tn + 1));
			if (rep == 0) i = j = tn;
			if (rep == 1) i = 0, j = tn;
			if (i > j) {
				int x = i;
				i = j;
				j = x;
			}
			for (int e = 0; e < X_N; e++) {
				if (e == E_W32 || e == E_W64) continue;
				for (int comp = 0; comp < 2; comp++) run_presentation(p, tn, rs, cl, i, j, e, comp, o);
			}
		}
		free(m);
	}
}

/* ------------------------------------------------------------------ output */

static void jstr(const char *s)
{
	putchar('"');
	for (; *s; s++) {
		if (*s == '"' || *s == '\\') putchar('\\');
		if ((unsigned char)*s >= 0x20) putchar(*s);
	}
	putchar('"');
}

static void emit(const char *mode, int part, int nparts, uint64_t base_mismatches)
{
	printf("{\"mode\":\"%s\",\"part\":%d,\"nparts\":%d,\"inputs\":%" PRIu64 ",\"calls\":%" PRIu64
	       ",\"presentations\":%" PRIu64 ",\"product_states\":%d,\"product_base_states\":%d,\"product_transitions\":%" PRIu64
	       ",\"states_first_reached_by_other_entry\":%" PRIu64 ",\"state_overflow\":%d,\"base_product_mismatches\":%" PRIu64
	       ",\"mismatches\":[",
	       mode, part, nparts, n_inputs, n_calls, n_presentations, nps, nbase, n_transitions, n_newstates, ps_overflow,
	       base_mismatches);
	for (int i = 0; i < nmm; i++) {
		printf("%s{\"key\":", i ? "," : "");
		jstr(MM[i].key);
		printf(",\"count\":%" PRIu64 ",\"witnesses\":[", MM[i].count);
		for (int k = 0; k < MM[i].nw; k++) {
			if (k) putchar(',');
			jstr(MM[i].w[k]);
		}
		printf("]}");
	}
	printf("],\"counts\":[");
	int first = 1;
	for (int e = 0; e < E_N; e++)
		for (int k = 0; k < K_N; k++)
			for (int c = 0; c < 2; c++)
				for (int v = 0; v < 2; v++)
					if (CNT[e][k][c][v]) {
						printf("%s[\"%s\",\"%s\",%d,%d,%" PRIu64 "]", first ? "" : ",", ENAME[e], KNAME[k], c, v,
						       CNT[e][k][c][v]);
						first = 0;
					}
	printf("]}\n");
}

int main(int argc, char **argv)
{
	if (argc < 5) {
		fprintf(stderr, "usage: %s mode part nparts seed [args]\n", argv[0]);
		return 64;
	}
	const char *mode = argv[1];
	int part = atoi(argv[2]), nparts = atoi(argv[3]);
	uint64_t seed = strtoull(argv[4], NULL, 10);
	uint64_t a1 = argc > 5 ? strtoull(argv[5], NULL, 10) : 0;
	uint64_t a2 = argc > 6 ? strtoull(argv[6], NULL, 10) : 0;
	if (nparts < 1 || part < 0 || part >= nparts) return 64;
	rng_s = seed * 0x2545F4914F6CDD1Dull + (uint64_t)part * 0x9E3779B97F4A7C15ull + 12345;

	ref_init();
	product_init();
	int is_product = strcmp(mode, "product") == 0;
	/* the byte-wise product is always explored first: it is the set of (validator struct,
	 * reference state) pairs the other modes compare follow-on states against */
	if (!is_product) mute++;
	uint64_t base_mismatches = explore(0);
	if (!is_product) mute--;
	nbase = nps;
	if (!is_product) {
		/* counters of the other modes describe their own work only */
		memset(CNT, 0, sizeof(CNT));
		n_calls = 0;
		n_transitions = 0;
		n_muted = 0;
	}

	if (is_product) {
		/* nothing else */
	} else if (strcmp(mode, "w32alpha") == 0) {
		for (int s = 0; s < nbase; s++) {
			if (s % nparts != part) continue;
			uint8_t b[4];
			for (int i0 = 0; i0 < 24; i0++)
				for (int i1 = 0; i1 < 24; i1++)
					for (int i2 = 0; i2 < 24; i2++)
						for (int i3 = 0; i3 < 24; i3++) {
							b[0] = ALPHA24[i0];
							b[1] = ALPHA24[i1];
							b[2] = ALPHA24[i2];
							b[3] = ALPHA24[i3];
							present_w32(s, b);
						}
		}
	} else if (strcmp(mode, "w32rand") == 0) {
		for (uint64_t t = 0; t < a1; t++) {
			uint8_t b[4];
			gen_word(b, 4);
			present_w32(0, b);
		}
	} else if (strcmp(mode, "w32all") == 0) {
		uint64_t tot = 1ull << 32;
		uint64_t lo = tot / (uint64_t)nparts * (uint64_t)part;
		uint64_t hi = (part == nparts - 1) ? tot : tot / (uint64_t)nparts * (uint64_t)(part + 1);
		for (uint64_t x = lo; x < hi; x++) {
			uint8_t b[4] = {(uint8_t)(x >> 24), (uint8_t)(x >> 16), (uint8_t)(x >> 8), (uint8_t)x};
			present_w32(0, b);
		}
	} else if (strcmp(mode, "w64alpha") == 0) {
		int K = (int)a1;
		const uint8_t *A = K == 12 ? ALPHA12 : ALPHA6;
		if (K != 12 && K != 6) return 64;
		uint64_t tot = 1;
		for (int i = 0; i < 8; i++) tot *= (uint64_t)K;
		uint64_t lo = tot / (uint64_t)nparts * (uint64_t)part;
		uint64_t hi = (part == nparts - 1) ? tot : tot / (uint64_t)nparts * (uint64_t)(part + 1);
		for (uint64_t x = lo; x < hi; x++) {
			uint8_t b[8];
			uint64_t y = x;
			for (int i = 7; i >= 0; i--) {
				b[i] = A[y % (uint64_t)K];
				y /= (uint64_t)K;
			}
			present_w64(0, b, (int)a2, x);
		}
	} else if (strcmp(mode, "w64lanes") == 0) {
		uint64_t tot = 1ull << 20;
		for (uint64_t x = 0; x < tot; x++) {
			if ((int)(x % (uint64_t)nparts) != part) continue;
			for (int cv = 0; cv < 2; cv++) {
				uint8_t b[8];
				for (int l = 0; l < 4; l++) {
					b[2 * l] = (uint8_t)(0xC0 + ((x >> (5 * (3 - l))) & 0x1F));
					b[2 * l + 1] = cv ? 0xBF : 0x80;
				}
				present_w64(0, b, 1, x * 2 + (uint64_t)cv);
			}
		}
	} else if (strcmp(mode, "w64rand") == 0) {
		for (uint64_t t = 0; t < a1; t++) {
			uint8_t b[8];
			gen_word(b, 8);
			present_w64(0, b, 1, t);
		}
	} else if (strcmp(mode, "chunk") == 0) {
		mode_chunk(part, nparts, seed, (int)a1, (int)(a2 ? a2 : 1));
	} else if (strcmp(mode, "chunkrand") == 0) {
		mode_chunkrand(a1);
	} else {
		fprintf(stderr, "unknown mode %s\n", mode);
		return 64;
	}
	emit(mode, part, nparts, base_mismatches);
	return 0;
}
