/* C17 harness: type-erased interface to one instantiation of the REAL macros of
 * cjet's src/hashtable.h.  Each (key type, order) lives in its own translation unit
 * (DECLARE_HASHTABLE_* defines struct hashtable_<type>, so two instantiations of one key type
 * cannot share a TU) and exports one `struct ht_vt`. */
#ifndef CJV_HT_H
#define CJV_HT_H

#include <stddef.h>
#include <stdint.h>

enum { HT_STRING = 0, HT_U32 = 1, HT_U64 = 2 };

typedef union {
	uint64_t u;      /* uint32 keys are zero-extended */
	const char *s;
} ht_key;

struct ht_slot {
	int occupied;    /* key != (type)HASHTABLE_INVALIDENTRY */
	ht_key key;
	uint32_t hop;    /* hop_info of this position seen as a home bucket */
	uintptr_t val;   /* vals[0] */
	int torn;        /* vals[1..] inconsistent with vals[0] */
};

struct ht_vt {
	int kind;
	const char *type;        /* "string" | "uint32" | "uint64" */
	unsigned order;
	unsigned nvals;          /* value_entries of the instantiation */
	size_t slot_bytes;       /* sizeof(struct hashtable_<type>) */
	int rc_success, rc_full, rc_keyinval, rc_notfound;
	/* table_size_<name>, add_range_<name>, hop_range_<name>() */
	void (*geom)(uint32_t *table_size, uint32_t *add_range, uint32_t *hop_range);
	void *(*create)(void);
	void (*destroy)(void **t);   /* HASHTABLE_DELETE, which also NULLs the variable */
	/* prev == NULL passes a NULL prev_value to the real macro */
	int (*put)(void *t, ht_key k, uintptr_t v, uintptr_t *prev, int *prev_torn);
	int (*get)(void *t, ht_key k, uintptr_t *v, int *torn);
	/* v == NULL passes a NULL value pointer to the real macro */
	int (*remove)(void *t, ht_key k, uintptr_t *v, int *torn);
	void (*slot)(const void *t, uint32_t i, struct ht_slot *out);   /* read-only dump */
	uint32_t (*home)(ht_key k);  /* the real hash_func_<name>_<type> */
	ht_key (*invalid_key)(void); /* (type)HASHTABLE_INVALIDENTRY */
};

extern const struct ht_vt *const ht_all[];
extern const unsigned ht_all_n;

#endif
