/* C17 harness driver: runs operation sequences against ONE real instantiation of cjet's
 * hashtable.h (chosen by <type> <order>) and monitors every step:
 *   - a reference map (plain arrays) is compared over the WHOLE key universe after every op;
 *   - the slot array is dumped read-only after every op: structural invariants of hopscotch
 *     hashing, legitimacy of every HASHTABLE_FULL, displacement / wrap-around bookkeeping.
 *
 * usage: ht_harness <type> <order> info
 *        ht_harness <type> <order> exh  <universe> <maxlen> <first-op | -1>
 *        ht_harness <type> <order> rand <universe> <seed> <nops>
 *        ht_harness <type> <order> script <universe> [-v]     (op tokens on stdin)
 * op tokens: p<idx>:<flags> put, g<idx>:<flags> get, r<idx>:<flags> remove, i0:<flags> put of
 * the invalid key, j0:0 / k0:0 get / remove of the invalid key (integer keys only), x0:0 raw
 * prefill marker.  flags bit0: pass a prev_value / value pointer, bit1: use the alias copy of
 * the key (equal content, different address).
 *
 * environment: HT_OPLOG=<file> writes every op token to <file> as it is executed (to recover the
 * sequence when the real code crashes the process).
 * output (stdout): "info ...", "stat <name> <n>", "sig <name>", "viol <at> <key>\t<detail>",
 * "trace <tokens>", "done".  A missing "done" means the process died (sanitizer report). */
#define _GNU_SOURCE
#include <inttypes.h>
#include <stdarg.h>
#include <stdint.h>
#include <stdio.h>
#include <stdlib.h>
#include <string.h>
#include <unistd.h>

#include "ht.h"

/* alloc.c of cjet logs through these */
void log_err(const char *format, ...)
{
	va_list ap;
	va_start(ap, format);
	vfprintf(stderr, format, ap);
	va_end(ap);
}
void log_warn(const char *format, ...) { (void)format; }
void log_info(const char *format, ...) { (void)format; }

#define KLEN 48
#define F_PTR 1u
#define F_ALIAS 2u

struct ukey {
	ht_key k[2];     /* main and alias (for integer keys both equal) */
	uint32_t home;
	int group;       /* index of heavy bucket or -1 */
};

struct op {
	char kind;
	uint8_t flags;
	uint32_t idx;
};

static const struct ht_vt *vt;
static uint32_t T, A, HOPR, H, MASK;
static void *tab;

static struct ukey *U;
static unsigned NU, UCAP;
static char (*arena[2])[KLEN];
static unsigned ARENA_CAP;
static uint32_t *heavy;
static unsigned nheavy;

static unsigned char *r_present;
static uintptr_t *r_val;
static unsigned r_live;
static uintptr_t vcounter = 0x1000;

static struct ht_slot *prev, *cur;
static uint32_t *slot_home;
static unsigned char *referenced;
/* slots already reported as holding a stale copy of a key (with that key), so that follow-on
 * symptoms of the same slot are not reported under other keys */
static unsigned char *stale_mark;
static uint64_t *stale_key;

static struct op *oplog;
static FILE *oplog_file;
static int oplog_paths;
static size_t nlog, caplog;
static int stop;
static int verbose;

/* ---------- statistics, signatures, violations ---------- */

enum {
	ST_OPS, ST_PUT_NEW, ST_PUT_OVERWRITE, ST_PUT_FULL, ST_PUT_KEYINVAL, ST_GET_HIT, ST_GET_MISS,
	ST_REMOVE_HIT, ST_REMOVE_MISS, ST_DISPLACED_KEYS, ST_PUT_WITH_DISPLACEMENT, ST_CHAIN_GE2,
	ST_PUT_WRAPPED, ST_DISPLACED_WRAPPED, ST_GET_WRAPPED, ST_FULL_AFTER_PARTIAL_CHAIN,
	ST_FULL_TABLE_FULL, ST_FULL_OUT_OF_REACH, ST_FULL_DISPLACEMENT_FAILED, ST_UNIVERSE_GETS,
	ST_STRUCT_CHECKS, ST_EXH_SEQUENCES, ST_INVALID_LOOKUPS, ST_HOP_DISTANCE_MAX_REACHED,
	ST_BUCKET_SATURATED, ST_N
};
static const char *const st_name[ST_N] = {
	"ops", "put-new", "put-overwrite", "put-full", "put-keyinval", "get-hit", "get-miss",
	"remove-hit", "remove-miss", "displaced-keys", "put-with-displacement", "displacement-chain-ge2",
	"put-wrapped", "displaced-wrapped", "get-wrapped", "full-after-partial-chain",
	"full-table-full", "full-free-slot-out-of-reach", "full-displacement-failed", "universe-gets",
	"struct-checks", "exh-sequences", "invalid-key-lookups", "hop-distance-max-reached",
	"bucket-saturated"
};
static unsigned long long st[ST_N];

#define MAXVIOL 12
static struct {
	char key[96];
	char detail[900];
	size_t at;
	struct op *trace;   /* copy of the op log up to and including the offending op */
} viols[MAXVIOL];
static unsigned nviol;

static const char *fmt_key(ht_key k, char *buf, size_t n)
{
	if (vt->kind == HT_STRING) {
		size_t o = 0;
		const unsigned char *s = (const unsigned char *)k.s;
		buf[o++] = '"';
		for (; *s && o + 6 < n; ++s) {
			if (*s >= 0x20 && *s < 0x7f && *s != '"' && *s != '\\') {
				buf[o++] = (char)*s;
			} else {
				o += (size_t)snprintf(buf + o, n - o, "\\x%02x", *s);
			}
		}
		buf[o++] = '"';
		buf[o] = 0;
	} else {
		snprintf(buf, n, "0x%" PRIx64, k.u);
	}
	return buf;
}

static void viol(int fatal, const char *key, const char *fmt, ...)
{
	char full[96];
	unsigned i;
	va_list ap;
	snprintf(full, sizeof(full), "ht/%s:%s", key, vt->type);
	if (fatal) {
		stop = 1;
	}
	for (i = 0; i < nviol; ++i) {
		if (strcmp(viols[i].key, full) == 0) {
			return;
		}
	}
	if (nviol == MAXVIOL) {
		stop = 1;
		return;
	}
	strcpy(viols[nviol].key, full);
	va_start(ap, fmt);
	vsnprintf(viols[nviol].detail, sizeof(viols[nviol].detail), fmt, ap);
	va_end(ap);
	viols[nviol].at = nlog;   /* number of ops executed including the offending one */
	viols[nviol].trace = malloc((nlog + 1) * sizeof(*oplog));
	memcpy(viols[nviol].trace, oplog, nlog * sizeof(*oplog));
	nviol++;
}

/* ---------- key universes ---------- */

static int is_invalid(ht_key k)
{
	return k.u == vt->invalid_key().u;
}

static size_t cand_key(int fam, uint64_t n, ht_key *out, char *buf)
{
	out->u = 0;
	switch (vt->kind) {
	case HT_STRING: {
		int len;
		static const char tail[] = "abc";
		if (fam == 0) {
			len = snprintf(buf, KLEN, "dev/%" PRIu64 "/st%.*s", n, (int)(n % 4), tail);
		} else {
			/* bytes >= 0x80: the hash does signed char arithmetic */
			len = snprintf(buf, KLEN, "\xc3\xa4\xff/%" PRIx64 "\x80%.*s\xfe", n * 7, (int)(n % 3), tail);
		}
		out->s = buf;
		return (size_t)len;
	}
	case HT_U32:
		out->u = (fam == 0) ? (uint32_t)n : (uint32_t)(0xFFFFFFFEu - (uint32_t)n * 3u);
		return 0;
	default:
		if (fam == 0) {
			out->u = n;
		} else if ((n & 1) == 0) {
			out->u = UINT64_C(0xFFFFFFFFFFFFFFFE) - (n / 2) * UINT64_C(0x100000003);
		} else {
			out->u = ((n / 2) << 32) | UINT64_C(0xFFFFFFFF);   /* low half == (uint32_t)-1 */
		}
		return 0;
	}
}

static int heavy_index(uint32_t home)
{
	unsigned i;
	for (i = 0; i < nheavy; ++i) {
		if (heavy[i] == home) {
			return (int)i;
		}
	}
	return -1;
}

static int add_ukey(ht_key k)
{
	unsigned i;
	if (NU == UCAP) {
		fprintf(stderr, "universe capacity exceeded\n");
		exit(3);
	}
	if (vt->kind == HT_STRING) {
		for (i = 0; i < NU; ++i) {
			if (strcmp(U[i].k[0].s, k.s) == 0) {
				return 0;
			}
		}
		strncpy(arena[0][NU], k.s, KLEN - 1);
		strncpy(arena[1][NU], k.s, KLEN - 1);
		U[NU].k[0].u = 0;
		U[NU].k[1].u = 0;
		U[NU].k[0].s = arena[0][NU];
		U[NU].k[1].s = arena[1][NU];
	} else {
		for (i = 0; i < NU; ++i) {
			if (U[i].k[0].u == k.u) {
				return 0;
			}
		}
		U[NU].k[0] = k;
		U[NU].k[1] = k;
	}
	U[NU].home = vt->home(U[NU].k[0]);
	U[NU].group = -1;
	NU++;
	return 1;
}

/* scans candidate keys of family fam from *n on and takes those whose REAL home bucket still
 * wants keys (tgt[bucket] > 0) */
static void scan_keys(int fam, uint64_t *n, unsigned *tgt)
{
	unsigned long long remaining = 0;
	uint32_t b;
	char buf[KLEN];
	uint64_t limit = *n + (uint64_t)T * 40000u + 100000u;
	for (b = 0; b < T; ++b) {
		remaining += tgt[b];
	}
	for (; remaining > 0 && *n < limit; ++*n) {
		ht_key k;
		uint32_t h;
		cand_key(fam, *n, &k, buf);
		if (is_invalid(k)) {
			continue;
		}
		h = vt->home(k);
		if (h >= T) {
			fprintf(stderr, "home bucket %u outside table\n", h);
			exit(3);
		}
		if (tgt[h] > 0 && add_ukey(k)) {
			tgt[h]--;
			remaining--;
		}
	}
	if (remaining > 0) {
		fprintf(stderr, "could not find enough colliding keys (%llu missing)\n", remaining);
		exit(3);
	}
}

static void alloc_universe(unsigned cap)
{
	UCAP = cap;
	ARENA_CAP = cap;
	U = calloc(cap, sizeof(*U));
	arena[0] = calloc(cap, KLEN);
	arena[1] = calloc(cap, KLEN);
	r_present = calloc(cap, 1);
	r_val = calloc(cap, sizeof(*r_val));
}

static void want(unsigned *tgt, int64_t bucket, unsigned n)
{
	uint32_t b = (uint32_t)(bucket & (int64_t)MASK);
	if (tgt[b] < n) {
		tgt[b] = n;
	}
}

static void add_heavy(unsigned *tgt, int64_t bucket, unsigned n)
{
	uint32_t b = (uint32_t)(bucket & (int64_t)MASK);
	if (heavy_index(b) < 0) {
		heavy[nheavy++] = b;
	}
	want(tgt, b, n);
}

static void add_extras(void)
{
	ht_key k;
	k.u = 0;
	if (vt->kind == HT_STRING) {
		k.s = "";
		add_ukey(k);
		k.s = "\xff";
		add_ukey(k);
	} else {
		k.u = 0;
		add_ukey(k);
		k.u = (vt->kind == HT_U32) ? 0xFFFFFFFEu : UINT64_C(0xFFFFFFFF);
		add_ukey(k);
		if (vt->kind == HT_U64) {
			k.u = UINT64_C(0xFFFFFFFFFFFFFFFE);
			add_ukey(k);
			k.u = UINT64_C(0xFFFFFFFF00000000);
			add_ukey(k);
		}
	}
}

/* universes of the random / adversarial histories.  bit0 of uni: bucket layout, bit1: family */
static void build_random_universe(unsigned uni)
{
	unsigned *tgt = calloc(T, sizeof(*tgt));
	unsigned hc = H + 2;   /* more keys than one bucket's hop_info / add range can hold */
	int layout = uni & 1;
	int fam = (uni >> 1) & 1;
	uint64_t n = 0;
	unsigned i;
	int64_t b;
	heavy = calloc(8, sizeof(*heavy));
	if (T >= 128) {
		if (layout == 0) {
			/* three saturated buckets 32 apart across the END of the table + a neighbour */
			add_heavy(tgt, (int64_t)T - 33, hc);
			add_heavy(tgt, (int64_t)T - 1, hc);
			add_heavy(tgt, 31, hc);
			add_heavy(tgt, (int64_t)T - 2, hc);
			for (b = -72; b < 72; ++b) {
				want(tgt, b, 1);
			}
		} else {
			int64_t m = T / 2;
			add_heavy(tgt, m, hc);
			add_heavy(tgt, m + 32, hc);
			add_heavy(tgt, m + 1, hc);
			add_heavy(tgt, m + 31, hc);
			add_heavy(tgt, 0, hc);
			for (b = m - 40; b < m + 100; ++b) {
				want(tgt, b, 2);
			}
			for (b = -8; b < 8; ++b) {
				want(tgt, b, 1);
			}
		}
	} else if (T >= 32) {
		if (layout == 0) {
			add_heavy(tgt, (int64_t)T - 1, hc);
			add_heavy(tgt, (int64_t)T - 2, hc);
			add_heavy(tgt, (int64_t)T / 2 - 1, hc);
			for (b = 0; b < (int64_t)T; ++b) {
				want(tgt, b, 2);
			}
		} else {
			add_heavy(tgt, 0, hc);
			add_heavy(tgt, (int64_t)T - H, hc);
			add_heavy(tgt, (int64_t)T / 2, hc);
			for (b = 0; b < (int64_t)T; ++b) {
				want(tgt, b, 1);
			}
		}
	} else {
		if (layout == 0) {
			add_heavy(tgt, (int64_t)T - 1, hc);
			add_heavy(tgt, (int64_t)T - 2, hc);
		} else {
			add_heavy(tgt, 0, hc);
			add_heavy(tgt, (int64_t)T - 1, hc);
		}
		for (b = 0; b < (int64_t)T; ++b) {
			want(tgt, b, 2);
		}
	}
	{
		unsigned long long total = 0;
		for (i = 0; i < T; ++i) {
			total += tgt[i];
		}
		alloc_universe((unsigned)total + 8);
	}
	scan_keys(fam, &n, tgt);
	add_extras();
	for (i = 0; i < NU; ++i) {
		U[i].group = heavy_index(U[i].home);
	}
	free(tgt);
}

/* universes of the exhaustive enumeration: the first 5 keys are operated on, the others are
 * ballast put once before the enumeration (and watched like every key of the universe) */
#define EXH_KEYS 5
static void build_exh_universe(unsigned uni)
{
	unsigned *tgt = calloc(T, sizeof(*tgt));
	uint64_t n = 0;
	int64_t b;
	heavy = calloc(8, sizeof(*heavy));
	alloc_universe(EXH_KEYS + T + 8);
	switch (uni) {
	case 0:   /* all five in the LAST bucket: every probe wraps */
		tgt[T - 1] = 5;
		scan_keys(0, &n, tgt);
		break;
	case 1:   /* neighbouring buckets overlapping across the end of the table */
		tgt[T - 2] = 1;
		tgt[T - 1] = 2;
		tgt[0] = 2;
		scan_keys(0, &n, tgt);
		break;
	default:  /* crowded table: only the slots T-2, T-1, 0 are free */
		tgt[T - 2] = 1;
		tgt[T - 1] = 3;
		tgt[0] = 1;
		scan_keys(1, &n, tgt);
		for (b = 1; b <= (int64_t)T - 3; ++b) {
			tgt[b] = 1;
		}
		scan_keys(1, &n, tgt);
		break;
	}
	free(tgt);
}

/* ---------- monitors ---------- */

static void dump(struct ht_slot *d)
{
	uint32_t i;
	for (i = 0; i < T; ++i) {
		vt->slot(tab, i, &d[i]);
	}
}

static int slot_same(const struct ht_slot *a, const struct ht_slot *b)
{
	return a->occupied == b->occupied && a->key.u == b->key.u && a->hop == b->hop && a->val == b->val && a->torn == b->torn;
}

static int key_pointer_ok(ht_key k)
{
	int a;
	for (a = 0; a < 2; ++a) {
		const char *base = arena[a][0];
		if (k.s >= base && k.s < base + (size_t)ARENA_CAP * KLEN && ((size_t)(k.s - base) % KLEN) == 0) {
			return 1;
		}
	}
	return 0;
}

static int keys_equal(ht_key a, ht_key b)
{
	if (vt->kind == HT_STRING) {
		return strcmp(a.s, b.s) == 0;
	}
	return a.u == b.u;
}

/* ---- legitimacy of HASHTABLE_FULL when a free slot exists in the add range but not in the hop range ---------------------
 * Hopscotch moves the free slot towards the home bucket: an entry whose own home bucket lies at most HOPR-1 slots in front of
 * the free slot, and which sits in front of the free slot, may hop into it. Implementations may choose differently among
 * such entries, so FULL is only called illegitimate when EVERY sequence of legal hops ends with a free slot in reach
 * (state taken from prev[], the table before the call). Depends only on the position of the free slot: memoised. */
static signed char *hop_memo;
static const struct ht_vt *hop_vt;
static int every_hop_sequence_succeeds(uint32_t home, uint32_t freepos)
{
	uint32_t k;
	int any = 0;
	if (((freepos - home) & MASK) < HOPR) {
		return 1;
	}
	if (hop_memo[freepos] >= 0) {
		return hop_memo[freepos];
	}
	hop_memo[freepos] = 0; /* guards against cycles through wrap-around */
	for (k = 1; k < HOPR; ++k) {
		uint32_t s = (freepos - k) & MASK;
		uint32_t hs;
		if (!prev[s].occupied) {
			continue;
		}
		hs = hop_vt->home(prev[s].key);
		if (((freepos - hs) & MASK) < HOPR && ((s - hs) & MASK) < ((freepos - hs) & MASK)) {
			any = 1;
			if (!every_hop_sequence_succeeds(home, s)) {
				return 0;
			}
		}
	}
	hop_memo[freepos] = (signed char)any;
	return any;
}

/* structural invariants of the dump in cur[]; fills slot_home[] and referenced[] */
static unsigned check_structure(void)
{
	uint32_t i, b;
	unsigned occ = 0, nstale = 0;
	char kb[200];
	st[ST_STRUCT_CHECKS]++;
	memset(referenced, 0, T);
	for (b = 0; b < T; ++b) {
		uint32_t hop = cur[b].hop;
		while (hop != 0) {
			unsigned d = (unsigned)__builtin_ctz(hop);
			hop &= hop - 1;
			if (d >= H) {
				viol(0, "hop-bit-beyond-reach", "bucket %u has hop bit %u set; reach is %u (table order %u)", b, d, H, vt->order);
			}
			if (referenced[(b + d) & MASK] < 255) {
				referenced[(b + d) & MASK]++;
			}
		}
	}
	for (i = 0; i < T; ++i) {
		slot_home[i] = 0xffffffffu;
		if (stale_mark[i] && (!cur[i].occupied || referenced[i] || cur[i].key.u != stale_key[i])) {
			stale_mark[i] = 0;
		}
		if (!cur[i].occupied) {
			if (referenced[i]) {
				viol(0, "hop-bit-points-at-free-slot", "slot %u is free but a hop bit points at it (order %u)", i, vt->order);
			}
			continue;
		}
		occ++;
		if (vt->kind == HT_STRING && !key_pointer_ok(cur[i].key)) {
			viol(1, "slot-holds-foreign-key-pointer", "slot %u holds a key pointer that was never passed to put (order %u)", i, vt->order);
			continue;
		}
		slot_home[i] = vt->home(cur[i].key);
		{
			uint32_t h = slot_home[i];
			uint32_t d = (i - h) & MASK;
			if (d >= HOPR || ((cur[h].hop >> d) & 1u) == 0) {
				/* is the same key live somewhere else?  then this is a stale copy */
				uint32_t hop = cur[h].hop;
				int live_elsewhere = 0;
				while (hop != 0) {
					unsigned dd = (unsigned)__builtin_ctz(hop);
					uint32_t s = (h + dd) & MASK;
					hop &= hop - 1;
					if (s != i && cur[s].occupied && (vt->kind != HT_STRING || key_pointer_ok(cur[s].key)) && keys_equal(cur[s].key, cur[i].key)) {
						live_elsewhere = 1;
					}
				}
				if (live_elsewhere || stale_mark[i]) {
					stale_mark[i] = 1;
					stale_key[i] = cur[i].key.u;
					nstale++;
					viol(0, "stale-key-left-in-vacated-slot",
					     "order %u: slot %u still holds key %s (home bucket %u) although no hop bit leads to it and the key lives in another slot: the slot looks occupied to put and is lost for ever",
					     vt->order, i, fmt_key(cur[i].key, kb, sizeof(kb)), h);
				} else {
					viol(0, "occupied-slot-not-reachable-from-home-bucket",
					     "order %u: slot %u holds key %s whose home bucket %u has no hop bit for distance %u", vt->order, i,
					     fmt_key(cur[i].key, kb, sizeof(kb)), h, d);
				}
			}
		}
		if (cur[i].torn) {
			viol(0, "value-torn", "order %u: slot %u holds a value whose words are inconsistent", vt->order, i);
		}
		if (referenced[i] > 1) {
			viol(0, "slot-referenced-by-two-hop-bits", "order %u: slot %u is referenced by %u hop bits", vt->order, i, referenced[i]);
		}
	}
	for (b = 0; b < T; ++b) {
		uint32_t hop = cur[b].hop;
		while (hop != 0) {
			unsigned d = (unsigned)__builtin_ctz(hop);
			uint32_t s = (b + d) & MASK;
			hop &= hop - 1;
			if (cur[s].occupied && slot_home[s] != 0xffffffffu && slot_home[s] != b) {
				viol(0, "hop-bit-points-at-foreign-key", "order %u: hop bit %u of bucket %u points at slot %u whose key %s hashes to bucket %u",
				     vt->order, d, b, s, fmt_key(cur[s].key, kb, sizeof(kb)), slot_home[s]);
			}
		}
	}
	if (occ - nstale != r_live) {
		viol(0, "occupied-slots-differ-from-live-keys", "order %u: %u slots look occupied (%u of them stale copies) but the map holds %u keys", vt->order, occ, nstale, r_live);
	}
	return occ;
}

static void check_universe(void)
{
	unsigned i;
	char kb[200];
	unsigned par = (unsigned)nlog;
	for (i = 0; i < NU && !stop; ++i) {
		uintptr_t v = 0;
		int torn = 0;
		int rc = vt->get(tab, U[i].k[(i + par) & 1], &v, &torn);
		if (r_present[i]) {
			if (rc != vt->rc_success) {
				viol(1, "get-loses-present-key", "order %u: get(%s) [home bucket %u] returns %d but the key was stored and never removed", vt->order,
				     fmt_key(U[i].k[0], kb, sizeof(kb)), U[i].home, rc);
			} else if (v != r_val[i] || torn) {
				viol(1, "get-differs-from-reference", "order %u: get(%s) [home bucket %u] returns value %#lx%s, most recently stored %#lx", vt->order,
				     fmt_key(U[i].k[0], kb, sizeof(kb)), U[i].home, (unsigned long)v, torn ? " (torn)" : "", (unsigned long)r_val[i]);
			}
		} else if (rc == vt->rc_success) {
			viol(1, "get-finds-absent-key", "order %u: get(%s) [home bucket %u] succeeds with value %#lx but the key is not in the map", vt->order,
			     fmt_key(U[i].k[0], kb, sizeof(kb)), U[i].home, (unsigned long)v);
		} else if (rc != vt->rc_notfound) {
			viol(1, "get-bad-return-code", "order %u: get of an absent key returns %d", vt->order, rc);
		}
	}
	st[ST_UNIVERSE_GETS] += NU;
}

static void log_op(char kind, uint32_t idx, unsigned flags)
{
	if (nlog == caplog) {
		caplog = caplog ? caplog * 2 : 1024;
		oplog = realloc(oplog, caplog * sizeof(*oplog));
	}
	oplog[nlog].kind = kind;
	oplog[nlog].idx = idx;
	oplog[nlog].flags = (uint8_t)flags;
	nlog++;
	if (oplog_file != NULL) {
		/* HT_OPLOG=<file>: the sequence survives a crash of the process.  One token per op for
		 * linear histories, the whole current path per line for the enumeration. */
		if (oplog_paths) {
			size_t j;
			rewind(oplog_file);
			if (ftruncate(fileno(oplog_file), 0) != 0) {
				return;
			}
			for (j = 0; j < nlog; ++j) {
				fprintf(oplog_file, " %c%u:%u", oplog[j].kind, oplog[j].idx, oplog[j].flags);
			}
		} else {
			fprintf(oplog_file, " %c%u:%u", kind, idx, flags);
		}
		fflush(oplog_file);
	}
}

static int table_changed(void)
{
	uint32_t i;
	for (i = 0; i < T; ++i) {
		if (!slot_same(&prev[i], &cur[i])) {
			return (int)i + 1;
		}
	}
	return 0;
}

/* executes one operation on the real table and checks everything.  prev[] must hold the dump
 * of the state before the operation. */
static void do_op(char kind, uint32_t idx, unsigned flags)
{
	char kb[200];
	ht_key key;
	uint32_t home;
	uintptr_t out = 0, v;
	int torn = 0, rc, c;
	int inserted = 0, full = 0;
	struct ht_slot *tmp;
	const char *opname = "?";
	log_op(kind, idx, flags);
	st[ST_OPS]++;
	if (kind == 'i' || kind == 'j' || kind == 'k') {
		key = vt->invalid_key();
		home = 0;
	} else {
		key = U[idx].k[(flags & F_ALIAS) ? 1 : 0];
		home = U[idx].home;
	}
	switch (kind) {
	case 'p':
		opname = "put";
		v = ++vcounter;
		rc = vt->put(tab, key, v, (flags & F_PTR) ? &out : NULL, &torn);
		if (r_present[idx]) {
			if (rc != vt->rc_success) {
				viol(1, "put-of-existing-key-refused", "order %u: put(%s) of a key already stored returns %d", vt->order, fmt_key(key, kb, sizeof(kb)), rc);
			} else {
				if ((flags & F_PTR) && (out != r_val[idx] || torn)) {
					viol(0, "put-prev-value-wrong", "order %u: put(%s) reports previous value %#lx, stored was %#lx", vt->order,
					     fmt_key(key, kb, sizeof(kb)), (unsigned long)out, (unsigned long)r_val[idx]);
				}
				r_val[idx] = v;
				st[ST_PUT_OVERWRITE]++;
			}
		} else {
			if ((flags & F_PTR) && (out != 0 || torn)) {
				viol(0, "put-prev-value-not-cleared", "order %u: put(%s) of a new key reports previous value %#lx", vt->order,
				     fmt_key(key, kb, sizeof(kb)), (unsigned long)out);
			}
			if (rc == vt->rc_success) {
				r_present[idx] = 1;
				r_val[idx] = v;
				r_live++;
				inserted = 1;
				st[ST_PUT_NEW]++;
			} else if (rc == vt->rc_full) {
				full = 1;
				st[ST_PUT_FULL]++;
			} else {
				viol(1, "put-bad-return-code", "order %u: put(%s) returns %d", vt->order, fmt_key(key, kb, sizeof(kb)), rc);
			}
		}
		break;
	case 'i':
		opname = "put-invalid-key";
		rc = vt->put(tab, key, ++vcounter, (flags & F_PTR) ? &out : NULL, &torn);
		if (rc != vt->rc_keyinval) {
			viol(1, "invalid-key-not-refused", "order %u: put of the key HASHTABLE_INVALIDENTRY returns %d instead of HASHTABLE_KEYINVAL", vt->order, rc);
		}
		st[ST_PUT_KEYINVAL]++;
		break;
	case 'j':
		opname = "get-invalid-key";
		rc = vt->get(tab, key, &out, &torn);
		if (rc == vt->rc_success) {
			viol(1, "get-finds-absent-key", "order %u: get of the key HASHTABLE_INVALIDENTRY (never storable) succeeds", vt->order);
		}
		st[ST_INVALID_LOOKUPS]++;
		break;
	case 'k':
		opname = "remove-invalid-key";
		rc = vt->remove(tab, key, NULL, &torn);
		if (rc == vt->rc_success) {
			viol(1, "remove-of-absent-key-succeeds", "order %u: remove of the key HASHTABLE_INVALIDENTRY (never storable) succeeds", vt->order);
		}
		st[ST_INVALID_LOOKUPS]++;
		break;
	case 'g':
		opname = "get";
		rc = vt->get(tab, key, &out, &torn);
		if (r_present[idx]) {
			if (rc != vt->rc_success) {
				viol(1, "get-loses-present-key", "order %u: get(%s) [home bucket %u] returns %d but the key was stored and never removed", vt->order,
				     fmt_key(key, kb, sizeof(kb)), home, rc);
			} else if (out != r_val[idx] || torn) {
				viol(1, "get-differs-from-reference", "order %u: get(%s) [home bucket %u] returns value %#lx%s, most recently stored %#lx", vt->order,
				     fmt_key(key, kb, sizeof(kb)), home, (unsigned long)out, torn ? " (torn)" : "", (unsigned long)r_val[idx]);
			}
			st[ST_GET_HIT]++;
		} else {
			if (rc == vt->rc_success) {
				viol(1, "get-finds-absent-key", "order %u: get(%s) succeeds but the key is not in the map", vt->order, fmt_key(key, kb, sizeof(kb)));
			} else if (rc != vt->rc_notfound) {
				viol(1, "get-bad-return-code", "order %u: get of an absent key returns %d", vt->order, rc);
			}
			st[ST_GET_MISS]++;
		}
		break;
	case 'r':
		opname = "remove";
		rc = vt->remove(tab, key, (flags & F_PTR) ? &out : NULL, &torn);
		if (r_present[idx]) {
			if (rc != vt->rc_success) {
				viol(1, "remove-of-present-key-fails", "order %u: remove(%s) [home bucket %u] returns %d but the key is stored", vt->order,
				     fmt_key(key, kb, sizeof(kb)), home, rc);
			} else {
				if ((flags & F_PTR) && (out != r_val[idx] || torn)) {
					viol(0, "remove-returns-wrong-value", "order %u: remove(%s) hands out value %#lx, stored was %#lx", vt->order,
					     fmt_key(key, kb, sizeof(kb)), (unsigned long)out, (unsigned long)r_val[idx]);
				}
				r_present[idx] = 0;
				r_live--;
			}
			st[ST_REMOVE_HIT]++;
		} else {
			if (rc == vt->rc_success) {
				viol(1, "remove-of-absent-key-succeeds", "order %u: remove(%s) succeeds but the key is not in the map", vt->order, fmt_key(key, kb, sizeof(kb)));
			} else if (rc != vt->rc_notfound) {
				viol(1, "remove-bad-return-code", "order %u: remove of an absent key returns %d", vt->order, rc);
			}
			st[ST_REMOVE_MISS]++;
		}
		break;
	default:
		fprintf(stderr, "bad op kind %c\n", kind);
		exit(3);
	}
	if (verbose) {
		printf("op %zu %s key=%s home=%u flags=%u -> %s\n", nlog - 1, opname, (kind == 'i' || kind == 'j' || kind == 'k') ? "INVALID" : fmt_key(key, kb, sizeof(kb)), home, flags,
		       rc == vt->rc_success ? "SUCCESS" : rc == vt->rc_keyinval ? "KEYINVAL" : rc != vt->rc_full ? "?" : (kind == 'p' || kind == 'i') ? "FULL" : "NOTFOUND");
	}

	/* read-only dump and slot level bookkeeping */
	dump(cur);
	{
		unsigned occ = check_structure();
		if (kind == 'p' && (inserted || full)) {
			uint32_t i;
			unsigned moved = 0, moved_wrapped = 0;
			for (i = 0; i < T; ++i) {
				if (cur[i].occupied && (!prev[i].occupied || prev[i].key.u != cur[i].key.u)) {
					if (inserted && cur[i].key.u == key.u) {
						continue;
					}
					moved++;
					if (slot_home[i] != 0xffffffffu && i < slot_home[i]) {
						moved_wrapped++;
					}
				}
			}
			if (moved) {
				st[ST_DISPLACED_KEYS] += moved;
				st[ST_DISPLACED_WRAPPED] += moved_wrapped;
				if (inserted) {
					st[ST_PUT_WITH_DISPLACEMENT]++;
					if (moved >= 2) {
						st[ST_CHAIN_GE2]++;
					}
				} else {
					st[ST_FULL_AFTER_PARTIAL_CHAIN]++;
				}
			}
			if (inserted) {
				uint32_t hop = cur[home].hop;
				while (hop != 0) {
					unsigned d = (unsigned)__builtin_ctz(hop);
					uint32_t s = (home + d) & MASK;
					hop &= hop - 1;
					if (cur[s].occupied && cur[s].key.u == key.u) {
						if (home + d >= T) {
							st[ST_PUT_WRAPPED]++;
						}
						if (d == H - 1) {
							st[ST_HOP_DISTANCE_MAX_REACHED]++;
						}
					}
				}
				if (H == 32 ? cur[home].hop == 0xffffffffu : cur[home].hop == ((1u << H) - 1)) {
					st[ST_BUCKET_SATURATED]++;
				}
			}
			if (full) {
				uint32_t d;
				int free_in_add_range = 0;
				for (d = 0; d < H; ++d) {
					uint32_t s = (home + d) & MASK;
					if (!prev[s].occupied || !cur[s].occupied) {
						viol(0, "full-with-free-slot-in-reach",
						     "order %u: put(%s) [home bucket %u] returns HASHTABLE_FULL although slot %u, %u positions from the home bucket, is free (placeable without any displacement)",
						     vt->order, fmt_key(key, kb, sizeof(kb)), home, s, d);
					} else if (!referenced[s]) {
						viol(0, "full-with-dead-slot-in-reach",
						     "order %u: put(%s) [home bucket %u] returns HASHTABLE_FULL although slot %u, %u positions from the home bucket, holds no live key (no hop bit leads to it): placeable without any displacement",
						     vt->order, fmt_key(key, kb, sizeof(kb)), home, s, d);
					}
				}
				for (d = 0; d < A; ++d) {
					if (!cur[(home + d) & MASK].occupied) {
						free_in_add_range = 1;
					}
				}
				if (occ < T && free_in_add_range && T >= 2 * HOPR) {
					uint32_t f = home;
					for (d = 0; d < A; ++d) {
						f = (home + d) & MASK;
						if (!prev[f].occupied) {
							break;
						}
					}
					if (d < A && d >= HOPR) {
						if (hop_memo == NULL) {
							hop_memo = malloc(T);
						}
						memset(hop_memo, -1, T);
						hop_vt = vt;
						if (every_hop_sequence_succeeds(home, f)) {
							viol(0, "full-although-displacement-possible",
							     "order %u: put(%s) [home bucket %u] returns HASHTABLE_FULL although the free slot %u (%u positions away) can be brought into reach: every sequence of legal hops succeeds",
							     vt->order, fmt_key(key, kb, sizeof(kb)), home, f, d);
						}
					}
				}
				if (occ == T) {
					st[ST_FULL_TABLE_FULL]++;
				} else if (free_in_add_range) {
					st[ST_FULL_DISPLACEMENT_FAILED]++;
				} else {
					st[ST_FULL_OUT_OF_REACH]++;
				}
			}
		} else if (kind == 'g' || kind == 'j' || kind == 'i' || kind == 'k' || (kind == 'r' && rc != vt->rc_success)) {
			c = table_changed();
			if (c) {
				viol(0, kind == 'g' || kind == 'j' ? "get-modifies-table" : kind == 'i' ? "refused-put-modifies-table" : "remove-of-absent-key-modifies-table",
				     "order %u: %s changed slot %d", vt->order, opname, c - 1);
			}
		}
		if (kind == 'g' && rc == vt->rc_success) {
			uint32_t hop = cur[home].hop;
			while (hop != 0) {
				unsigned d = (unsigned)__builtin_ctz(hop);
				uint32_t s = (home + d) & MASK;
				hop &= hop - 1;
				if (home + d >= T && cur[s].occupied && slot_home[s] == home && keys_equal(cur[s].key, key)) {
					st[ST_GET_WRAPPED]++;
				}
			}
		}
	}
	if (!stop) {
		check_universe();
	}
	tmp = prev;
	prev = cur;
	cur = tmp;
}

/* ---------- PRNG ---------- */

static uint64_t rs[4];
static uint64_t splitmix(uint64_t *x)
{
	uint64_t z = (*x += UINT64_C(0x9e3779b97f4a7c15));
	z = (z ^ (z >> 30)) * UINT64_C(0xbf58476d1ce4e5b9);
	z = (z ^ (z >> 27)) * UINT64_C(0x94d049bb133111eb);
	return z ^ (z >> 31);
}
static uint64_t rnd(void)
{
	uint64_t r = ((rs[1] * 5) << 7 | (rs[1] * 5) >> 57) * 9, t = rs[1] << 17;
	rs[2] ^= rs[0];
	rs[3] ^= rs[1];
	rs[1] ^= rs[2];
	rs[0] ^= rs[3];
	rs[2] ^= t;
	rs[3] = (rs[3] << 45) | (rs[3] >> 19);
	return r;
}
static unsigned rnd_below(unsigned n)
{
	return (unsigned)(rnd() % n);
}

/* ---------- random / adversarial histories ---------- */

static unsigned long long budget;
static unsigned *scratch;

static int more(void)
{
	return !stop && st[ST_OPS] < budget;
}

static void shuffle(unsigned *a, unsigned n)
{
	unsigned i;
	for (i = n; i > 1; --i) {
		unsigned j = rnd_below(i), t = a[i - 1];
		a[i - 1] = a[j];
		a[j] = t;
	}
}

/* a subset of colliding keys: the keys of 1..3 heavy buckets and of their neighbours, or of a
 * random window of buckets */
static unsigned pick_subset(unsigned *out)
{
	unsigned n = 0, i;
	if (nheavy > 0 && rnd_below(4) != 0) {
		unsigned mask = 0, k, cnt = 1 + rnd_below(3);
		int spill = (int)rnd_below(4);
		for (k = 0; k < cnt; ++k) {
			mask |= 1u << rnd_below(nheavy);
		}
		for (i = 0; i < NU; ++i) {
			unsigned g;
			int take = 0;
			for (g = 0; g < nheavy; ++g) {
				if ((mask >> g) & 1u) {
					uint32_t d = (U[i].home - heavy[g]) & MASK;
					uint32_t e = (heavy[g] - U[i].home) & MASK;
					if (d == 0 || (spill && (d <= (unsigned)spill || e <= (unsigned)spill))) {
						take = 1;
					}
				}
			}
			if (take) {
				out[n++] = i;
			}
		}
	} else {
		uint32_t w = 1 + rnd_below(T < 100 ? T : 100);
		uint32_t lo = (U[rnd_below(NU)].home - rnd_below(w)) & MASK;
		for (i = 0; i < NU; ++i) {
			if (((U[i].home - lo) & MASK) < w) {
				out[n++] = i;
			}
		}
	}
	if (n == 0) {
		out[n++] = rnd_below(NU);
	}
	return n;
}

static unsigned rflags(void)
{
	return rnd_below(4);
}

/* directed adversarial opening of every history: saturate the heavy buckets one after the other
 * (more keys than one bucket can hold), then take single keys out of each of them and put every
 * refused key again: puts whose nearest free slot is beyond the hop range of their bucket, with
 * and without movable entries in between */
static void preamble(void)
{
	unsigned g, i, j, n, m;
	unsigned *absent = scratch + NU / 2 + 1;
	for (g = 0; g < nheavy && more(); ++g) {
		for (i = 0; i < NU && more(); ++i) {
			if (U[i].group == (int)g) {
				do_op('p', i, i & 3u);
			}
		}
	}
	for (g = 0; g < nheavy && more(); ++g) {
		n = 0;
		for (i = 0; i < NU; ++i) {
			if (U[i].group == (int)g && r_present[i]) {
				scratch[n++] = i;
			}
		}
		for (j = 0; j < 5 && j < n && more(); ++j) {
			unsigned victim = scratch[(j * 7 + 1) % n];
			if (!r_present[victim]) {
				continue;
			}
			do_op('r', victim, j & 1u);
			m = 0;
			for (i = 0; i < NU && m < NU / 2; ++i) {
				if (U[i].group >= 0 && !r_present[i] && i != victim) {
					absent[m++] = i;
				}
			}
			for (i = 0; i < m && more(); ++i) {
				do_op('p', absent[i], (i + j) & 3u);
			}
			do_op('p', victim, 1);
		}
	}
}

static void random_history(void)
{
	unsigned i, n;
	preamble();
	while (more()) {
		unsigned ph = rnd_below(12);
		switch (ph) {
		case 0:   /* fill to refusal: every key of the universe in random order */
			for (i = 0; i < NU; ++i) {
				scratch[i] = i;
			}
			shuffle(scratch, NU);
			for (i = 0; i < NU && more(); ++i) {
				do_op('p', scratch[i], rflags());
			}
			break;
		case 1:   /* fill bucket by bucket: saturate the heavy buckets one after the other */
		{
			unsigned g, start = nheavy ? rnd_below(nheavy) : 0;
			int ordered = (int)rnd_below(2);
			for (g = 0; g < nheavy && more(); ++g) {
				unsigned hg = (start + g) % nheavy, skip = rnd_below(3) == 0 ? 1 + rnd_below(3) : 0;
				n = 0;
				for (i = 0; i < NU; ++i) {
					if (U[i].group == (int)hg) {
						scratch[n++] = i;
					}
				}
				if (!ordered) {
					shuffle(scratch, n);
				}
				for (i = 0; i + skip < n && more(); ++i) {
					do_op('p', scratch[i], rflags());
				}
			}
			break;
		}
		case 2:   /* remove a fraction of what is stored */
		{
			unsigned pct = (unsigned[]){ 5, 20, 50, 90, 100 }[rnd_below(5)];
			for (i = 0; i < NU && more(); ++i) {
				if (r_present[i] && rnd_below(100) < pct) {
					do_op('r', i, rflags());
				}
			}
			break;
		}
		case 3:   /* refill: everything that is absent */
			n = 0;
			for (i = 0; i < NU; ++i) {
				if (!r_present[i]) {
					scratch[n++] = i;
				}
			}
			shuffle(scratch, n);
			for (i = 0; i < n && more(); ++i) {
				do_op('p', scratch[i], rflags());
			}
			break;
		case 4:
		case 5:
		case 6:   /* churn on colliding keys */
		{
			unsigned cnt, pput = 25 + rnd_below(45);
			n = pick_subset(scratch);
			cnt = n * (1 + rnd_below(6));
			for (i = 0; i < cnt && more(); ++i) {
				unsigned k = scratch[rnd_below(n)], r = rnd_below(100);
				do_op(r < pput ? 'p' : r < pput + 12 ? 'g' : 'r', k, rflags());
			}
			break;
		}
		case 7:   /* remove single keys of a crowded subset and put the refused ones again */
		{
			unsigned rounds;
			n = pick_subset(scratch);
			for (rounds = 0; rounds < 40 && more(); ++rounds) {
				unsigned k = scratch[rnd_below(n)];
				if (r_present[k]) {
					do_op('r', k, rflags());
				}
				for (i = 0; i < n && more(); ++i) {
					if (!r_present[scratch[i]] && rnd_below(3) != 0) {
						do_op('p', scratch[i], rflags());
					}
				}
			}
			break;
		}
		case 8:   /* plain mix over the whole universe */
		{
			unsigned cnt = 50 + rnd_below(400), pput = 20 + rnd_below(60);
			for (i = 0; i < cnt && more(); ++i) {
				unsigned r = rnd_below(100);
				do_op(r < pput ? 'p' : r < pput + 15 ? 'g' : 'r', rnd_below(NU), rflags());
			}
			break;
		}
		case 9:   /* edge operations */
			do_op('i', 0, rflags());
			if (vt->kind != HT_STRING) {
				do_op('j', 0, 0);
				do_op('k', 0, 0);
			}
			for (i = 0; i < 10 && more(); ++i) {
				unsigned k = rnd_below(NU);
				do_op(rnd_below(2) ? 'r' : 'g', k, rflags());
			}
			break;
		case 10:  /* empty the table */
			if (rnd_below(3) == 0) {
				for (i = 0; i < NU && more(); ++i) {
					if (r_present[i]) {
						do_op('r', i, rflags());
					}
				}
			}
			break;
		default:  /* overwrite what is stored */
			for (i = 0; i < NU && more(); ++i) {
				if (r_present[i] && rnd_below(4) == 0) {
					do_op('p', i, rflags());
				}
			}
			break;
		}
	}
}

/* ---------- exhaustive enumeration ---------- */

#define MAXDEPTH 10
static unsigned char *sv_raw[MAXDEPTH];
static unsigned char *sv_present[MAXDEPTH];
static uintptr_t *sv_val[MAXDEPTH];
static struct ht_slot *sv_prev[MAXDEPTH];
static unsigned sv_live[MAXDEPTH];

static void dfs(unsigned depth, unsigned maxlen, int first)
{
	unsigned opi;
	size_t raw_bytes = (size_t)T * vt->slot_bytes;
	size_t base = nlog;
	if (depth == maxlen) {
		st[ST_EXH_SEQUENCES]++;
		return;
	}
	/* snapshot of the state the real code produced; restored bit-exactly for every child */
	memcpy(sv_raw[depth], tab, raw_bytes);
	memcpy(sv_present[depth], r_present, NU);
	memcpy(sv_val[depth], r_val, NU * sizeof(*r_val));
	memcpy(sv_prev[depth], prev, T * sizeof(*prev));
	sv_live[depth] = r_live;
	for (opi = 0; opi < 3 * EXH_KEYS && !stop; ++opi) {
		unsigned k = opi % EXH_KEYS, what = opi / EXH_KEYS;
		unsigned flags = ((depth + k) & 1u) | ((((depth >> 1) + k) & 1u) << 1);
		if (depth == 0 && first >= 0 && (int)opi != first) {
			continue;
		}
		memcpy(tab, sv_raw[depth], raw_bytes);
		memcpy(r_present, sv_present[depth], NU);
		memcpy(r_val, sv_val[depth], NU * sizeof(*r_val));
		memcpy(prev, sv_prev[depth], T * sizeof(*prev));
		memset(stale_mark, 0, T);
		r_live = sv_live[depth];
		nlog = base;
		do_op("pgr"[what], k, flags);
		if (!stop) {
			dfs(depth + 1, maxlen, first);
		}
	}
}

static void exhaustive(unsigned maxlen, int first)
{
	unsigned i;
	if (maxlen > MAXDEPTH) {
		maxlen = MAXDEPTH;
	}
	for (i = EXH_KEYS; i < NU && !stop; ++i) {
		do_op('p', i, 0);   /* ballast */
	}
	for (i = 0; i < MAXDEPTH; ++i) {
		sv_raw[i] = malloc((size_t)T * vt->slot_bytes);
		sv_present[i] = malloc(NU);
		sv_val[i] = malloc(NU * sizeof(*r_val));
		sv_prev[i] = malloc(T * sizeof(*prev));
	}
	if (!stop) {
		dfs(0, maxlen, first);
	}
	for (i = 0; i < MAXDEPTH; ++i) {
		free(sv_raw[i]);
		free(sv_present[i]);
		free(sv_val[i]);
		free(sv_prev[i]);
	}
}

/* ---------- script replay ---------- */

static void run_script(void)
{
	char tok[64];
	while (!stop && scanf("%63s", tok) == 1) {
		char kind = tok[0];
		unsigned idx = 0, flags = 0;
		if (sscanf(tok + 1, "%u:%u", &idx, &flags) < 1) {
			fprintf(stderr, "bad token %s\n", tok);
			exit(3);
		}
		if (kind == 'i' || kind == 'j' || kind == 'k') {
			if (vt->kind == HT_STRING && kind != 'i') {
				continue;
			}
			idx = 0;
		} else if (idx >= NU) {
			fprintf(stderr, "key index %u outside universe of %u\n", idx, NU);
			exit(3);
		}
		do_op(kind, idx, flags);
	}
}

/* ---------- main ---------- */

int main(int argc, char **argv)
{
	unsigned i, order, uni;
	const char *mode;
	int exh_universe = 0;
	if (argc < 4) {
		fprintf(stderr, "usage: %s <type> <order> <mode> ...\n", argv[0]);
		return 3;
	}
	order = (unsigned)atoi(argv[2]);
	mode = argv[3];
	for (i = 0; i < ht_all_n; ++i) {
		if (strcmp(ht_all[i]->type, argv[1]) == 0 && ht_all[i]->order == order) {
			vt = ht_all[i];
		}
	}
	if (vt == NULL) {
		fprintf(stderr, "no instantiation %s/%u\n", argv[1], order);
		return 3;
	}
	vt->geom(&T, &A, &HOPR);
	MASK = T - 1;
	H = A < HOPR ? A : HOPR;
	if (strcmp(mode, "info") == 0) {
		printf("info type=%s order=%u table_size=%u add_range=%u hop_range=%u nvals=%u slot_bytes=%zu\n", vt->type, vt->order, T, A, HOPR, vt->nvals, vt->slot_bytes);
		printf("done\n");
		return 0;
	}
	if (argc < 5) {
		return 3;
	}
	uni = (unsigned)atoi(argv[4]);
	if (strcmp(mode, "exh") == 0 || (strcmp(mode, "script") == 0 && uni >= 100)) {
		exh_universe = 1;
		build_exh_universe(uni % 100);
	} else {
		build_random_universe(uni);
	}
	tab = vt->create();
	if (tab == NULL) {
		fprintf(stderr, "HASHTABLE_CREATE failed\n");
		return 3;
	}
	prev = calloc(T, sizeof(*prev));
	cur = calloc(T, sizeof(*cur));
	slot_home = calloc(T, sizeof(*slot_home));
	referenced = calloc(T, 1);
	stale_mark = calloc(T, 1);
	stale_key = calloc(T, sizeof(*stale_key));
	scratch = calloc(2 * NU + 4, sizeof(*scratch));
	dump(prev);
	for (i = 0; i < T; ++i) {
		if (prev[i].occupied || prev[i].hop != 0) {
			memcpy(cur, prev, T * sizeof(*cur));
			viol(1, "fresh-table-not-empty", "order %u: slot %u of a freshly created table is occupied or has hop bits", vt->order, i);
			break;
		}
	}
	printf("info type=%s order=%u table_size=%u add_range=%u hop_range=%u nvals=%u universe=%u%s keys=%u heavy_buckets=%u\n", vt->type, vt->order, T, A, HOPR, vt->nvals,
	       uni, exh_universe ? "(exhaustive)" : "", NU, nheavy);

	if (getenv("HT_OPLOG") != NULL) {
		oplog_file = fopen(getenv("HT_OPLOG"), "w");
		oplog_paths = strcmp(mode, "exh") == 0;
	}
	if (strcmp(mode, "exh") == 0 && argc >= 7) {
		exhaustive((unsigned)atoi(argv[5]), atoi(argv[6]));
	} else if (strcmp(mode, "rand") == 0 && argc >= 7) {
		uint64_t seed = strtoull(argv[5], NULL, 0);
		for (i = 0; i < 4; ++i) {
			rs[i] = splitmix(&seed);
		}
		budget = strtoull(argv[6], NULL, 0);
		random_history();
	} else if (strcmp(mode, "script") == 0) {
		verbose = argc >= 6 && strcmp(argv[5], "-v") == 0;
		run_script();
	} else {
		fprintf(stderr, "bad mode\n");
		return 3;
	}

	/* HASHTABLE_DELETE must release the table and clear the variable */
	vt->destroy(&tab);
	if (tab != NULL) {
		viol(0, "delete-leaves-pointer", "order %u: HASHTABLE_DELETE did not clear the table variable", vt->order);
	}

	for (i = 0; i < ST_N; ++i) {
		if (st[i]) {
			printf("stat %s %llu\n", st_name[i], st[i]);
		}
	}
	{
		static const struct { int s; const char *sig; } sg[] = {
			{ ST_PUT_WITH_DISPLACEMENT, "displacement" }, { ST_CHAIN_GE2, "displacement-chain>=2" },
			{ ST_PUT_WRAPPED, "wraparound-put" }, { ST_DISPLACED_WRAPPED, "wraparound-displacement" },
			{ ST_GET_WRAPPED, "wraparound-get" }, { ST_FULL_TABLE_FULL, "FULL-table-completely-full" },
			{ ST_FULL_OUT_OF_REACH, "FULL-with-unreachable-slot" }, { ST_FULL_DISPLACEMENT_FAILED, "FULL-displacement-failed" },
			{ ST_FULL_AFTER_PARTIAL_CHAIN, "FULL-after-partial-chain" }, { ST_PUT_OVERWRITE, "overwrite" },
			{ ST_REMOVE_MISS, "remove-absent" }, { ST_PUT_KEYINVAL, "KEYINVAL" },
			{ ST_HOP_DISTANCE_MAX_REACHED, "hop-distance-max" }, { ST_BUCKET_SATURATED, "bucket-saturated" },
		};
		for (i = 0; i < sizeof(sg) / sizeof(sg[0]); ++i) {
			if (st[sg[i].s]) {
				printf("sig %s\n", sg[i].sig);
			}
		}
	}
	for (i = 0; i < nviol; ++i) {
		size_t j;
		printf("viol %zu %s\t%s\n", viols[i].at, viols[i].key, viols[i].detail);
		printf("trace");
		for (j = 0; j < viols[i].at; ++j) {
			printf(" %c%u:%u", viols[i].trace[j].kind, viols[i].trace[j].idx, viols[i].trace[j].flags);
		}
		printf("\n");
		free(viols[i].trace);
	}
	printf("done\n");
	if (oplog_file != NULL) {
		fclose(oplog_file);
	}
	free(prev);
	free(cur);
	free(slot_home);
	free(referenced);
	free(stale_mark);
	free(stale_key);
	free(scratch);
	free(U);
	free(arena[0]);
	free(arena[1]);
	free(r_present);
	free(r_val);
	free(heavy);
	free(oplog);
	return 0;
}
