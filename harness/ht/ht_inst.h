/* C17 harness: one instantiation of the real hashtable.h macros.
 * The including stub defines HT_KIND (0 string, 1 uint32, 2 uint64), HT_ORDER, HT_NVALS and
 * HT_VT_NAME.  Nothing of the table logic is re-implemented here: every operation goes through
 * HASHTABLE_CREATE/PUT/GET/REMOVE/DELETE; the only direct accesses are the read-only slot dump
 * and the call of the real hash function. */
#include <stdint.h>
#include <string.h>

#include "hashtable.h"
#include "ht.h"

#if HT_KIND == 0
DECLARE_HASHTABLE_STRING(HTN, HT_ORDER, HT_NVALS)
typedef struct hashtable_string ht_tab;
typedef const char *ht_ktype;
#define HT_TYPE_STR "string"
#define HT_HASH(k) hash_func_HTN_string(k)
#define HT_K(k) ((k).s)
static ht_key mk_key(ht_ktype k) { ht_key r; r.u = 0; r.s = k; return r; }
#elif HT_KIND == 1
DECLARE_HASHTABLE_UINT32(HTN, HT_ORDER, HT_NVALS)
typedef struct hashtable_uint32_t ht_tab;
typedef uint32_t ht_ktype;
#define HT_TYPE_STR "uint32"
#define HT_HASH(k) hash_func_HTN_uint32_t(k)
#define HT_K(k) ((uint32_t)(k).u)
static ht_key mk_key(ht_ktype k) { ht_key r; r.u = k; return r; }
#else
DECLARE_HASHTABLE_UINT64(HTN, HT_ORDER, HT_NVALS)
typedef struct hashtable_uint64_t ht_tab;
typedef uint64_t ht_ktype;
#define HT_TYPE_STR "uint64"
#define HT_HASH(k) hash_func_HTN_uint64_t(k)
#define HT_K(k) ((k).u)
static ht_key mk_key(ht_ktype k) { ht_key r; r.u = k; return r; }
#endif

#define HT_VMIX UINT64_C(0x9e3779b97f4a7c15)

static void mkval(struct value_HTN *v, uintptr_t x)
{
	unsigned j;
	for (j = 0; j < HT_NVALS; ++j) {
		v->vals[j] = (void *)(uintptr_t)(x ^ (uintptr_t)(j * HT_VMIX));
	}
}

/* all-zero (the memset of the real code) reads as 0 and is not torn */
static int rdval(const struct value_HTN *v, uintptr_t *x)
{
	unsigned j;
	int torn = 0;
	*x = (uintptr_t)v->vals[0];
	for (j = 1; j < HT_NVALS; ++j) {
		uintptr_t want = (*x == 0) ? 0 : (*x ^ (uintptr_t)(j * HT_VMIX));
		if ((uintptr_t)v->vals[j] != want) {
			torn = 1;
		}
	}
	return torn;
}

static void *w_create(void)
{
	return HASHTABLE_CREATE(HTN);
}

static void w_destroy(void **t)
{
	ht_tab *tab = (ht_tab *)*t;
	HASHTABLE_DELETE(HTN, tab);
	*t = tab;
}

static int w_put(void *t, ht_key k, uintptr_t v, uintptr_t *prev, int *prev_torn)
{
	struct value_HTN val, pv;
	int rc;
	mkval(&val, v);
	if (prev != NULL) {
		memset(&pv, 0xA5, sizeof(pv));
		rc = HASHTABLE_PUT(HTN, (ht_tab *)t, HT_K(k), val, &pv);
		*prev_torn = rdval(&pv, prev);
	} else {
		rc = HASHTABLE_PUT(HTN, (ht_tab *)t, HT_K(k), val, NULL);
	}
	return rc;
}

static int w_get(void *t, ht_key k, uintptr_t *v, int *torn)
{
	struct value_HTN val;
	int rc;
	memset(&val, 0xA5, sizeof(val));
	rc = HASHTABLE_GET(HTN, (ht_tab *)t, HT_K(k), &val);
	*torn = rdval(&val, v);
	return rc;
}

static int w_remove(void *t, ht_key k, uintptr_t *v, int *torn)
{
	int rc;
	if (v != NULL) {
		struct value_HTN val;
		memset(&val, 0xA5, sizeof(val));
		rc = HASHTABLE_REMOVE(HTN, (ht_tab *)t, HT_K(k), &val);
		*torn = rdval(&val, v);
	} else {
		rc = HASHTABLE_REMOVE(HTN, (ht_tab *)t, HT_K(k), NULL);
	}
	return rc;
}

static void w_slot(const void *t, uint32_t i, struct ht_slot *out)
{
	const ht_tab *e = &((const ht_tab *)t)[i];
	out->occupied = (e->key != (ht_ktype)HASHTABLE_INVALIDENTRY);
	out->key = mk_key(e->key);
	out->hop = e->hop_info;
	out->torn = rdval(&e->value, &out->val);
}

static uint32_t w_home(ht_key k)
{
	return HT_HASH(HT_K(k));
}

static ht_key w_invalid_key(void)
{
	return mk_key((ht_ktype)HASHTABLE_INVALIDENTRY);
}

/* the real geometry constants of the instantiation */
static void w_geom(uint32_t *table_size, uint32_t *add_range, uint32_t *hop_range)
{
	*table_size = table_size_HTN;
	*add_range = add_range_HTN;
	*hop_range = hop_range_HTN();
}

const struct ht_vt HT_VT_NAME = {
	HT_KIND, HT_TYPE_STR, HT_ORDER, HT_NVALS, sizeof(ht_tab),
	HASHTABLE_SUCCESS, HASHTABLE_FULL, HASHTABLE_KEYINVAL, HASHTABLE_INVALIDENTRY,
	w_geom, w_create, w_destroy, w_put, w_get, w_remove, w_slot, w_home, w_invalid_key,
};
