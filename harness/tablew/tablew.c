/* C17 supplement: the path-index wrappers of src/table.c (element_table_put / _get / _remove) against a linear reference map.
 * usage: tablew <seed> <nops> key1 key2 ...   (keys are given hex-encoded, "-" is the empty string)
 * prints one line per deviation ("VIOL <kind> <detail>") and a summary line "done ops=.. puts=.. gets=.. removes=.. full=.." */
#include <stdint.h>
#include <stdio.h>
#include <stdlib.h>
#include <string.h>

#include "table.h"

void log_err(const char *format, ...)
{
	(void)format;
}

#define MAXK 256
static char *keys[MAXK];
static void *ref[MAXK];
static int nk;

static unsigned int rs;
static unsigned int rnd(void)
{
	rs = rs * 1103515245u + 12345u;
	return (rs >> 16) & 0x7fff;
}

static char *unhex(const char *h)
{
	if (strcmp(h, "-") == 0) return strdup("");
	size_t n = strlen(h) / 2;
	char *s = malloc(n + 1);
	for (size_t i = 0; i < n; i++) {
		unsigned int b;
		sscanf(h + 2 * i, "%2x", &b);
		s[i] = (char)b;
	}
	s[n] = 0;
	return s;
}

int main(int argc, char **argv)
{
	if (argc < 4) return 3;
	rs = (unsigned int)strtoul(argv[1], NULL, 10);
	long nops = strtol(argv[2], NULL, 10);
	for (int i = 3; i < argc && nk < MAXK; i++) keys[nk++] = unhex(argv[i]);
	if (element_hashtable_create() != 0) {
		printf("VIOL create table could not be created\n");
		return 1;
	}
	long puts = 0, gets = 0, removes = 0, full = 0, viol = 0;
	static int values[MAXK * 64];
	int nv = 0;
	for (long op = 0; op < nops; op++) {
		int k = (int)(rnd() % (unsigned int)nk);
		unsigned int what = rnd() % 10;
		if (what < 4) {
			void *v = &values[nv++ % (MAXK * 64)];
			char *copy = strdup(keys[k]);
			int rc = element_table_put(keys[k], v);     /* the table keeps the pointer: the stored key outlives the call */
			free(copy);
			puts++;
			if (rc == 0) {
				ref[k] = v;
			} else {
				full++;
				int live = 0;
				for (int i = 0; i < nk; i++) live += ref[i] != NULL;
				if (live < 32) {
					printf("VIOL put-refused key %d refused (rc %d) with only %d keys stored\n", k, rc, live);
					viol++;
				}
			}
		} else if (what < 8) {
			char *copy = strdup(keys[k]);
			void *g = element_table_get(copy);
			free(copy);
			gets++;
			if (g != ref[k]) {
				printf("VIOL get-differs key %d (len %zu): table %p reference %p\n", k, strlen(keys[k]), g, ref[k]);
				viol++;
			}
		} else {
			char *copy = strdup(keys[k]);
			element_table_remove(copy);
			free(copy);
			removes++;
			ref[k] = NULL;
		}
		if (viol > 20) break;
	}
	/* final sweep */
	for (int k = 0; k < nk; k++) {
		void *g = element_table_get(keys[k]);
		if (g != ref[k]) {
			printf("VIOL final-get-differs key %d (len %zu): table %p reference %p\n", k, strlen(keys[k]), g, ref[k]);
			viol++;
		}
	}
	element_hashtable_delete();
	printf("done ops=%ld puts=%ld gets=%ld removes=%ld full=%ld viol=%ld\n", nops, puts, gets, removes, full, viol);
	return viol ? 1 : 0;
}
