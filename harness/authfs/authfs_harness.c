/*
 * authfs_harness: the REAL cjet credential-file code (posix/auth_file.c, authenticate.c, groups.c,
 * response.c, json/cJSON.c, alloc.c, jet_string.c, linux/random.c, posix/log.c) linked with GNU ld
 * --wrap on the file-system calls, for property C20 (authorised, effective, crash-atomic password
 * changes).  No cjet source is modified; the only things replaced are struct peer's owner module
 * (peer.c: one logging stub) and syslog (captured).
 *
 *   authfs_harness run   <credential-file> [fault ...]   < script      (JSON lines on stdout)
 *   authfs_harness probe <credential-file>               < pairs       (JSON lines on stdout)
 *
 * All script tokens are hex encoded ("-" = absent, "" is written as "=").
 *
 * run-mode script lines:
 *   check  <user> <password>              credentials_ok() directly (in-process state)
 *   auth   <user> <password>              handle_authentication() on a fresh stub peer
 *   login  <peerid> <user> <password>     handle_authentication() on persistent stub peer 0..15
 *   passwd <peeruser|-> <target> <new>    handle_change_password(); stub peer whose user_name is set
 *                                         as handle_authentication would have left it (- = NULL)
 *   ppasswd <peerid> <target> <new>       handle_change_password() on a persistent stub peer
 *   snap   <path>                         copy the credential file as it is on disk now to <path>
 *
 * faults (numbering: the n-th MUTATING call on the credential file's directory / descriptors
 * after load_passwd_data returned; open with O_CREAT/O_TRUNC, creat, ftruncate, truncate, write,
 * pwrite, writev, fsync, fdatasync, rename, unlink, link are numbered; lseek, close and plain open
 * are logged with n=0):
 *   crash-at=<n>        _exit(42) instead of performing call n
 *   crash-after=<n>     perform call n (possibly short), then _exit(42)
 *   short=<n>:<k>       call n, if it is a write/pwrite, accepts only k bytes
 *   fail=<n>:<ERRNO>    call n is not performed and fails with that errno (name or number)
 *
 * mmap of a file (read-only) is given a guard page behind it (see __wrap_mmap).
 *
 * Crash model: the file on disk after _exit() holds exactly the effects of the calls completed so
 * far in program order (no page-cache reordering).
 *
 * probe-mode: load_passwd_data(<file>) in this fresh process, then for each stdin line
 * "<user> <password>" (hex) report whether credentials_ok() accepts it.
 *
 * exit codes: 0 normal, 42 injected crash, 3 usage / harness problem, 4 load_passwd_data failed
 * (run mode only; probe mode reports {"load":-1} and exits 0).
 */
#include <errno.h>
#include <fcntl.h>
#include <limits.h>
#include <stdarg.h>
#include <stdbool.h>
#include <stdint.h>
#include <stdio.h>
#include <stdlib.h>
#include <string.h>
#include <sys/mman.h>
#include <sys/stat.h>
#include <sys/types.h>
#include <sys/uio.h>
#include <unistd.h>

#include "alloc.h"
#include "authenticate.h"
#include "jet_random.h"
#include "jet_string.h"
#include "list.h"
#include "peer.h"
#include "json/cJSON.h"

/* ------------------------------------------------------------------------------------------ */
/* real functions behind --wrap */
int __real_open(const char *path, int flags, ...);
int __real_openat(int dirfd, const char *path, int flags, ...);
int __real_creat(const char *path, mode_t mode);
int __real_ftruncate(int fd, off_t len);
int __real_truncate(const char *path, off_t len);
off_t __real_lseek(int fd, off_t off, int whence);
ssize_t __real_write(int fd, const void *buf, size_t n);
ssize_t __real_pwrite(int fd, const void *buf, size_t n, off_t off);
ssize_t __real_writev(int fd, const struct iovec *iov, int cnt);
int __real_fsync(int fd);
int __real_fdatasync(int fd);
int __real_rename(const char *a, const char *b);
int __real_link(const char *a, const char *b);
int __real_close(int fd);
int __real_unlink(const char *path);
FILE *__real_fopen(const char *path, const char *mode);
void *__real_mmap(void *addr, size_t len, int prot, int flags, int fd, off_t off);

static FILE *out;
static char watch_dir[PATH_MAX];
static bool armed = false;
static int ncall = 0;
/* kept inverted so that this diagnostic copy never makes a leaked buffer look reachable to LeakSanitizer */
static uintptr_t first_write_buf_inv = 0;

#define MAX_FD 1024
static bool tracked[MAX_FD];

enum { F_CRASH_AT, F_CRASH_AFTER, F_SHORT, F_FAIL };
struct fault {
	int kind;
	int n;
	long arg;
	bool used;
};
static struct fault faults[16];
static int nfaults = 0;

static void die(const char *fmt, ...)
{
	va_list ap;
	va_start(ap, fmt);
	fprintf(stderr, "authfs_harness: ");
	vfprintf(stderr, fmt, ap);
	fprintf(stderr, "\n");
	va_end(ap);
	if (out) {
		fflush(out);
	}
	_exit(3);
}

static const struct {
	const char *name;
	int no;
} errnos[] = {{"ENOSPC", ENOSPC}, {"EIO", EIO}, {"EINTR", EINTR}, {"EDQUOT", EDQUOT}, {"EFBIG", EFBIG},
              {"EBADF", EBADF}, {"EACCES", EACCES}, {"EROFS", EROFS}, {"EMFILE", EMFILE}, {"ENOMEM", ENOMEM},
              {"EAGAIN", EAGAIN}, {"ENOENT", ENOENT}, {"EPERM", EPERM}, {"EINVAL", EINVAL}};

static const char *errno_name(int e)
{
	static char buf[16];
	for (size_t i = 0; i < sizeof(errnos) / sizeof(errnos[0]); i++) {
		if (errnos[i].no == e) {
			return errnos[i].name;
		}
	}
	snprintf(buf, sizeof(buf), "%d", e);
	return buf;
}

static int errno_value(const char *s)
{
	for (size_t i = 0; i < sizeof(errnos) / sizeof(errnos[0]); i++) {
		if (strcmp(errnos[i].name, s) == 0) {
			return errnos[i].no;
		}
	}
	int v = atoi(s);
	if (v <= 0) {
		die("unknown errno '%s'", s);
	}
	return v;
}

static void json_str(FILE *f, const char *s)
{
	fputc('"', f);
	for (; *s; s++) {
		unsigned char c = (unsigned char)*s;
		if (c == '"' || c == '\\') {
			fprintf(f, "\\%c", c);
		} else if (c < 0x20 || c >= 0x7f) {
			fprintf(f, "\\u%04x", c);
		} else {
			fputc(c, f);
		}
	}
	fputc('"', f);
}

/* is this path inside the watched directory (or the directory itself)? */
static bool watched_path(const char *path)
{
	if (watch_dir[0] == '\0' || path == NULL) {
		return false;
	}
	char tmp[PATH_MAX];
	char res[PATH_MAX];
	if (realpath(path, res) != NULL) {
		size_t l = strlen(watch_dir);
		if (strncmp(res, watch_dir, l) == 0 && (res[l] == '\0' || res[l] == '/')) {
			return true;
		}
		return false;
	}
	/* does not exist (yet): resolve its directory */
	if (strlen(path) >= sizeof(tmp)) {
		return false;
	}
	strcpy(tmp, path);
	char *slash = strrchr(tmp, '/');
	const char *dir = ".";
	if (slash != NULL) {
		if (slash == tmp) {
			dir = "/";
		} else {
			*slash = '\0';
			dir = tmp;
		}
	}
	if (realpath(dir, res) == NULL) {
		return false;
	}
	size_t l = strlen(watch_dir);
	return strncmp(res, watch_dir, l) == 0 && (res[l] == '\0' || res[l] == '/');
}

static bool is_tracked(int fd)
{
	return fd >= 0 && fd < MAX_FD && tracked[fd];
}

static const char *base_name(const char *p)
{
	const char *s = strrchr(p, '/');
	return s ? s + 1 : p;
}

/* fault lookup for the call that is about to get number n */
static struct fault *fault_for(int n, int kind)
{
	for (int i = 0; i < nfaults; i++) {
		if (faults[i].n == n && faults[i].kind == kind) {
			return &faults[i];
		}
	}
	return NULL;
}

/* begin a numbered call: returns its number, performs crash-at */
static int begin_call(const char *name, const char *args)
{
	if (!armed) {
		return 0;
	}
	int n = ++ncall;
	if (fault_for(n, F_CRASH_AT) != NULL) {
		fprintf(out, "{\"ev\":\"crash\",\"when\":\"before\",\"n\":%d,\"name\":\"%s\",\"args\":", n, name);
		json_str(out, args);
		fprintf(out, "}\n");
		fflush(out);
		_exit(42);
	}
	return n;
}

static void end_call(int n, const char *name, const char *args, long ret, int err, const char *fault)
{
	fprintf(out, "{\"ev\":\"call\",\"n\":%d,\"name\":\"%s\",\"args\":", n, name);
	json_str(out, args);
	fprintf(out, ",\"ret\":%ld,\"errno\":\"%s\",\"fault\":", ret, ret < 0 ? errno_name(err) : "");
	if (fault) {
		json_str(out, fault);
	} else {
		fprintf(out, "null");
	}
	fprintf(out, "}\n");
	fflush(out);
	if (n > 0 && fault_for(n, F_CRASH_AFTER) != NULL) {
		fprintf(out, "{\"ev\":\"crash\",\"when\":\"after\",\"n\":%d,\"name\":\"%s\"}\n", n, name);
		fflush(out);
		_exit(42);
	}
	errno = err;
}

/* returns true when call n must fail; sets *err */
static bool must_fail(int n, int *err)
{
	struct fault *f = n > 0 ? fault_for(n, F_FAIL) : NULL;
	if (f == NULL) {
		return false;
	}
	f->used = true;
	*err = (int)f->arg;
	return true;
}

/* ------------------------------------------------------------------------------------------ */
/* wrappers */

int __wrap_open(const char *path, int flags, ...)
{
	mode_t mode = 0;
	if ((flags & O_CREAT) || (flags & O_TMPFILE) == O_TMPFILE) {
		va_list ap;
		va_start(ap, flags);
		mode = (mode_t)va_arg(ap, int);
		va_end(ap);
	}
	if (!watched_path(path)) {
		return __real_open(path, flags, mode);
	}
	char args[PATH_MAX + 64];
	snprintf(args, sizeof(args), "%s flags=0x%x%s%s%s", base_name(path), flags, (flags & O_CREAT) ? " O_CREAT" : "",
	         (flags & O_TRUNC) ? " O_TRUNC" : "", (flags & O_APPEND) ? " O_APPEND" : "");
	bool mutating = (flags & (O_CREAT | O_TRUNC)) != 0;
	int n = mutating ? begin_call("open", args) : 0;
	int err = 0;
	int fd;
	const char *fault = NULL;
	if (must_fail(n, &err)) {
		fd = -1;
		fault = "fail";
	} else {
		fd = __real_open(path, flags, mode);
		err = errno;
		if (fd >= 0) {
			if (fd >= MAX_FD) {
				die("descriptor number too large");
			}
			tracked[fd] = true;
		}
	}
	end_call(n, "open", args, fd, err, fault);
	return fd;
}

int __wrap_openat(int dirfd, const char *path, int flags, ...)
{
	mode_t mode = 0;
	if ((flags & O_CREAT) || (flags & O_TMPFILE) == O_TMPFILE) {
		va_list ap;
		va_start(ap, flags);
		mode = (mode_t)va_arg(ap, int);
		va_end(ap);
	}
	if (dirfd == AT_FDCWD || path[0] == '/') {
		if (watched_path(path)) {
			return __wrap_open(path, flags, mode);
		}
	} else if (is_tracked(dirfd)) {
		die("openat relative to a watched directory descriptor is not instrumented");
	}
	return __real_openat(dirfd, path, flags, mode);
}

int __wrap_creat(const char *path, mode_t mode)
{
	return __wrap_open(path, O_CREAT | O_WRONLY | O_TRUNC, mode);
}

FILE *__wrap_fopen(const char *path, const char *mode)
{
	if (armed && watched_path(path) && (strchr(mode, 'w') || strchr(mode, 'a') || strchr(mode, '+'))) {
		/* stdio writes cannot be intercepted by --wrap (libc internal): refuse to be blind */
		die("fopen(%s, %s) on the credential directory is not instrumented", path, mode);
	}
	return __real_fopen(path, mode);
}

int __wrap_ftruncate(int fd, off_t len)
{
	if (!is_tracked(fd)) {
		return __real_ftruncate(fd, len);
	}
	char args[64];
	snprintf(args, sizeof(args), "fd=%d len=%lld", fd, (long long)len);
	int n = begin_call("ftruncate", args);
	int err = 0;
	int ret;
	const char *fault = NULL;
	if (must_fail(n, &err)) {
		ret = -1;
		fault = "fail";
	} else {
		ret = __real_ftruncate(fd, len);
		err = errno;
	}
	end_call(n, "ftruncate", args, ret, err, fault);
	return ret;
}

int __wrap_truncate(const char *path, off_t len)
{
	if (!watched_path(path)) {
		return __real_truncate(path, len);
	}
	char args[PATH_MAX + 64];
	snprintf(args, sizeof(args), "%s len=%lld", base_name(path), (long long)len);
	int n = begin_call("truncate", args);
	int err = 0;
	int ret;
	const char *fault = NULL;
	if (must_fail(n, &err)) {
		ret = -1;
		fault = "fail";
	} else {
		ret = __real_truncate(path, len);
		err = errno;
	}
	end_call(n, "truncate", args, ret, err, fault);
	return ret;
}

off_t __wrap_lseek(int fd, off_t off, int whence)
{
	if (!is_tracked(fd)) {
		return __real_lseek(fd, off, whence);
	}
	off_t ret = __real_lseek(fd, off, whence);
	int err = errno;
	if (armed) {
		char args[96];
		snprintf(args, sizeof(args), "fd=%d off=%lld whence=%d", fd, (long long)off, whence);
		end_call(0, "lseek", args, (long)ret, err, NULL);
	}
	errno = err;
	return ret;
}

static ssize_t do_write(const char *name, int fd, const void *buf, size_t len, bool positional, off_t off)
{
	char args[160];
	if (first_write_buf_inv == 0) {
		first_write_buf_inv = ~(uintptr_t)buf;
	}
	off_t pos = positional ? off : __real_lseek(fd, 0, SEEK_CUR);
	snprintf(args, sizeof(args), "fd=%d len=%zu at=%lld bufoff=%lld", fd, len, (long long)pos,
	         (long long)((intptr_t)((uintptr_t)buf - ~first_write_buf_inv)));
	int n = begin_call(name, args);
	int err = 0;
	ssize_t ret;
	char faultbuf[48];
	const char *fault = NULL;
	struct fault *sh = n > 0 ? fault_for(n, F_SHORT) : NULL;
	if (must_fail(n, &err)) {
		ret = -1;
		fault = "fail";
	} else {
		size_t todo = len;
		if (sh != NULL) {
			sh->used = true;
			if ((size_t)sh->arg < todo) {
				todo = (size_t)sh->arg;
			}
			snprintf(faultbuf, sizeof(faultbuf), "short:%zu", todo);
			fault = faultbuf;
		}
		if (todo == 0 && len != 0) {
			ret = 0;
		} else if (positional) {
			ret = __real_pwrite(fd, buf, todo, off);
		} else {
			ret = __real_write(fd, buf, todo);
		}
		err = errno;
	}
	end_call(n, name, args, (long)ret, err, fault);
	return ret;
}

ssize_t __wrap_write(int fd, const void *buf, size_t len)
{
	if (!is_tracked(fd)) {
		return __real_write(fd, buf, len);
	}
	return do_write("write", fd, buf, len, false, 0);
}

ssize_t __wrap_pwrite(int fd, const void *buf, size_t len, off_t off)
{
	if (!is_tracked(fd)) {
		return __real_pwrite(fd, buf, len, off);
	}
	return do_write("pwrite", fd, buf, len, true, off);
}

ssize_t __wrap_writev(int fd, const struct iovec *iov, int cnt)
{
	if (is_tracked(fd)) {
		die("writev on the credential file is not instrumented");
	}
	return __real_writev(fd, iov, cnt);
}

static int sync_call(const char *name, int fd, int (*real)(int))
{
	char args[32];
	snprintf(args, sizeof(args), "fd=%d", fd);
	int n = begin_call(name, args);
	int err = 0;
	int ret;
	const char *fault = NULL;
	if (must_fail(n, &err)) {
		ret = -1;
		fault = "fail";
	} else {
		ret = real(fd);
		err = errno;
	}
	end_call(n, name, args, ret, err, fault);
	return ret;
}

int __wrap_fsync(int fd)
{
	if (!is_tracked(fd)) {
		return __real_fsync(fd);
	}
	return sync_call("fsync", fd, __real_fsync);
}

int __wrap_fdatasync(int fd)
{
	if (!is_tracked(fd)) {
		return __real_fdatasync(fd);
	}
	return sync_call("fdatasync", fd, __real_fdatasync);
}

static int two_path_call(const char *name, const char *a, const char *b, int (*real)(const char *, const char *))
{
	char args[2 * PATH_MAX + 8];
	snprintf(args, sizeof(args), "%s -> %s", base_name(a), base_name(b));
	int n = begin_call(name, args);
	int err = 0;
	int ret;
	const char *fault = NULL;
	if (must_fail(n, &err)) {
		ret = -1;
		fault = "fail";
	} else {
		ret = real(a, b);
		err = errno;
	}
	end_call(n, name, args, ret, err, fault);
	return ret;
}

int __wrap_rename(const char *a, const char *b)
{
	if (!watched_path(a) && !watched_path(b)) {
		return __real_rename(a, b);
	}
	return two_path_call("rename", a, b, __real_rename);
}

int __wrap_link(const char *a, const char *b)
{
	if (!watched_path(a) && !watched_path(b)) {
		return __real_link(a, b);
	}
	return two_path_call("link", a, b, __real_link);
}

int __wrap_unlink(const char *path)
{
	if (!watched_path(path)) {
		return __real_unlink(path);
	}
	char args[PATH_MAX];
	snprintf(args, sizeof(args), "%s", base_name(path));
	int n = begin_call("unlink", args);
	int err = 0;
	int ret;
	const char *fault = NULL;
	if (must_fail(n, &err)) {
		ret = -1;
		fault = "fail";
	} else {
		ret = __real_unlink(path);
		err = errno;
	}
	end_call(n, "unlink", args, ret, err, fault);
	return ret;
}

int __wrap_close(int fd)
{
	if (!is_tracked(fd)) {
		return __real_close(fd);
	}
	tracked[fd] = false;
	int ret = __real_close(fd);
	int err = errno;
	if (armed) {
		char args[32];
		snprintf(args, sizeof(args), "fd=%d", fd);
		end_call(0, "close", args, ret, err, NULL);
	}
	errno = err;
	return ret;
}

/*
 * Red zone for file mappings: a read-only file mapping requested by the code under test is placed
 * directly in front of an inaccessible page, so that reading past the last page of the mapping
 * (e.g. parsing an unterminated text whose size is a multiple of the page size) faults
 * deterministically instead of depending on whatever happens to be mapped next.
 */
void *__wrap_mmap(void *addr, size_t len, int prot, int flags, int fd, off_t off)
{
	if (addr != NULL || fd < 0 || len == 0 || (flags & MAP_FIXED) || prot != PROT_READ) {
		return __real_mmap(addr, len, prot, flags, fd, off);
	}
	size_t page = (size_t)sysconf(_SC_PAGESIZE);
	size_t rounded = (len + page - 1) / page * page;
	char *area = __real_mmap(NULL, rounded + page, PROT_NONE, MAP_PRIVATE | MAP_ANONYMOUS, -1, 0);
	if (area == MAP_FAILED) {
		return __real_mmap(addr, len, prot, flags, fd, off);
	}
	void *p = __real_mmap(area, len, prot, flags | MAP_FIXED, fd, off);
	if (p == MAP_FAILED) {
		int e = errno;
		munmap(area, rounded + page);
		errno = e;
	}
	return p;
}

/* captured instead of going to the system log */
void __wrap_syslog(int prio, const char *fmt, ...)
{
	char buf[512];
	va_list ap;
	va_start(ap, fmt);
	vsnprintf(buf, sizeof(buf), fmt, ap);
	va_end(ap);
	if (out) {
		fprintf(out, "{\"ev\":\"log\",\"prio\":%d,\"msg\":", prio);
		json_str(out, buf);
		fprintf(out, "}\n");
		fflush(out);
	}
}

/* peer.c is not linked: response.c needs only this */
void log_peer_err(const struct peer *p, const char *fmt, ...)
{
	(void)p;
	char buf[512];
	va_list ap;
	va_start(ap, fmt);
	vsnprintf(buf, sizeof(buf), fmt, ap);
	va_end(ap);
	if (out) {
		fprintf(out, "{\"ev\":\"log\",\"prio\":3,\"peer\":true,\"msg\":");
		json_str(out, buf);
		fprintf(out, "}\n");
		fflush(out);
	}
}

/* ------------------------------------------------------------------------------------------ */

static char *unhex(const char *tok)
{
	if (tok == NULL) {
		die("missing token");
	}
	if (strcmp(tok, "-") == 0) {
		return NULL;
	}
	if (strcmp(tok, "=") == 0) {
		char *e = malloc(1);
		e[0] = '\0';
		return e;
	}
	size_t l = strlen(tok);
	if (l % 2) {
		die("odd hex token '%s'", tok);
	}
	char *r = malloc(l / 2 + 1);
	for (size_t i = 0; i < l / 2; i++) {
		unsigned int v;
		if (sscanf(tok + 2 * i, "%2x", &v) != 1) {
			die("bad hex token '%s'", tok);
		}
		r[i] = (char)v;
	}
	r[l / 2] = '\0';
	return r;
}

static void init_stub_peer(struct peer *p)
{
	memset(p, 0, sizeof(*p));
	INIT_LIST_HEAD(&p->element_list);
	INIT_LIST_HEAD(&p->next_peer);
	INIT_LIST_HEAD(&p->fetch_list);
	p->user_name = NULL;
	p->is_local_connection = false;
}

static void free_stub_peer(struct peer *p)
{
	if (p->user_name != NULL) {
		cjet_free(p->user_name);
		p->user_name = NULL;
	}
}

static cJSON *make_request(int id, const char *method, const char *user, const char *password)
{
	cJSON *req = cJSON_CreateObject();
	cJSON_AddItemToObject(req, "id", cJSON_CreateNumber(id));
	cJSON_AddItemToObject(req, "method", cJSON_CreateString(method));
	cJSON *params = cJSON_CreateObject();
	cJSON_AddItemToObject(params, "user", cJSON_CreateString(user));
	cJSON_AddItemToObject(params, "password", cJSON_CreateString(password));
	cJSON_AddItemToObject(req, "params", params);
	return req;
}

static uint64_t file_fnv(const char *path, long *size)
{
	uint64_t h = 1469598103934665603ULL;
	*size = -1;
	int fd = __real_open(path, O_RDONLY);
	if (fd < 0) {
		return 0;
	}
	unsigned char buf[4096];
	long total = 0;
	ssize_t r;
	while ((r = read(fd, buf, sizeof(buf))) > 0) {
		for (ssize_t i = 0; i < r; i++) {
			h ^= buf[i];
			h *= 1099511628211ULL;
		}
		total += r;
	}
	__real_close(fd);
	*size = total;
	return h;
}

static void report_response(int idx, const char *op, cJSON *response, const char *cred_path)
{
	long size;
	uint64_t h = file_fnv(cred_path, &size);
	fprintf(out, "{\"ev\":\"result\",\"idx\":%d,\"op\":\"%s\",", idx, op);
	if (response == NULL) {
		fprintf(out, "\"ok\":false,\"response\":null");
	} else {
		const cJSON *result = cJSON_GetObjectItem(response, "result");
		const cJSON *error = cJSON_GetObjectItem(response, "error");
		bool ok = (result != NULL) && (result->type == cJSON_True) && (error == NULL);
		char *txt = cJSON_PrintUnformatted(response);
		fprintf(out, "\"ok\":%s,\"response\":%s", ok ? "true" : "false", txt ? txt : "null");
		if (txt) {
			cjet_free(txt);
		}
	}
	fprintf(out, ",\"ncalls\":%d,\"file_size\":%ld,\"file_fnv\":\"%016llx\"}\n", ncall, size, (unsigned long long)h);
	fflush(out);
}

static int copy_file(const char *from, const char *to)
{
	int in = __real_open(from, O_RDONLY);
	if (in < 0) {
		return -1;
	}
	int o = __real_open(to, O_WRONLY | O_CREAT | O_TRUNC, 0600);
	if (o < 0) {
		__real_close(in);
		return -1;
	}
	char buf[4096];
	ssize_t r;
	while ((r = read(in, buf, sizeof(buf))) > 0) {
		ssize_t w = 0;
		while (w < r) {
			ssize_t x = __real_write(o, buf + w, (size_t)(r - w));
			if (x < 0) {
				__real_close(in);
				__real_close(o);
				return -1;
			}
			w += x;
		}
	}
	__real_close(in);
	__real_close(o);
	return 0;
}

static void parse_fault(const char *arg)
{
	if (nfaults >= (int)(sizeof(faults) / sizeof(faults[0]))) {
		die("too many faults");
	}
	struct fault *f = &faults[nfaults];
	memset(f, 0, sizeof(*f));
	char err[32];
	if (sscanf(arg, "crash-at=%d", &f->n) == 1) {
		f->kind = F_CRASH_AT;
	} else if (sscanf(arg, "crash-after=%d", &f->n) == 1) {
		f->kind = F_CRASH_AFTER;
	} else if (sscanf(arg, "short=%d:%ld", &f->n, &f->arg) == 2) {
		f->kind = F_SHORT;
		if (f->arg < 0) {
			die("bad fault '%s'", arg);
		}
	} else if (sscanf(arg, "fail=%d:%31s", &f->n, err) == 2) {
		f->kind = F_FAIL;
		f->arg = errno_value(err);
	} else {
		die("bad fault '%s'", arg);
	}
	if (f->n < 1) {
		die("bad fault '%s'", arg);
	}
	nfaults++;
}

#define MAX_PEERS 16

static int run_mode(const char *cred, int argc, char **argv)
{
	for (int i = 0; i < argc; i++) {
		parse_fault(argv[i]);
	}
	char cred_real[PATH_MAX];
	if (realpath(cred, cred_real) == NULL) {
		die("cannot resolve %s", cred);
	}
	strcpy(watch_dir, cred_real);
	char *slash = strrchr(watch_dir, '/');
	if (slash == NULL || slash == watch_dir) {
		die("credential file must live in a scratch directory");
	}
	*slash = '\0';

	int ret = load_passwd_data(cred);
	fprintf(out, "{\"ev\":\"load\",\"ret\":%d}\n", ret);
	fflush(out);
	if (ret != 0) {
		return 4;
	}
	armed = true;

	static struct peer peers[MAX_PEERS];
	for (int i = 0; i < MAX_PEERS; i++) {
		init_stub_peer(&peers[i]);
	}

	char line[8192];
	int idx = 0;
	while (fgets(line, sizeof(line), stdin) != NULL) {
		char *save = NULL;
		char *op = strtok_r(line, " \t\r\n", &save);
		if (op == NULL || op[0] == '#') {
			continue;
		}
		idx++;
		char *a = strtok_r(NULL, " \t\r\n", &save);
		char *b = strtok_r(NULL, " \t\r\n", &save);
		char *c = strtok_r(NULL, " \t\r\n", &save);
		first_write_buf_inv = 0;
		if (strcmp(op, "check") == 0) {
			char *user = unhex(a);
			char *pw = unhex(b);
			const cJSON *auth = credentials_ok(user, pw);
			fprintf(out, "{\"ev\":\"result\",\"idx\":%d,\"op\":\"check\",\"ok\":%s}\n", idx, auth ? "true" : "false");
			fflush(out);
			free(user);
			free(pw);
		} else if (strcmp(op, "auth") == 0 || strcmp(op, "login") == 0) {
			struct peer tmp;
			struct peer *p;
			char *user;
			char *pw;
			if (op[0] == 'a') {
				init_stub_peer(&tmp);
				p = &tmp;
				user = unhex(a);
				pw = unhex(b);
			} else {
				int id = a ? atoi(a) : -1;
				if (id < 0 || id >= MAX_PEERS) {
					die("bad peer id");
				}
				p = &peers[id];
				user = unhex(b);
				pw = unhex(c);
			}
			if (user == NULL || pw == NULL) {
				die("auth needs user and password");
			}
			cJSON *req = make_request(idx, "authenticate", user, pw);
			cJSON *resp = handle_authentication(p, req);
			report_response(idx, op, resp, cred_real);
			fprintf(out, "{\"ev\":\"peer\",\"idx\":%d,\"user_name_set\":%s,\"groups\":[%u,%u,%u]}\n", idx,
			        p->user_name ? "true" : "false", (unsigned)p->fetch_groups, (unsigned)p->set_groups,
			        (unsigned)p->call_groups);
			fflush(out);
			if (resp) {
				cJSON_Delete(resp);
			}
			cJSON_Delete(req);
			if (p == &tmp) {
				free_stub_peer(&tmp);
			}
			free(user);
			free(pw);
		} else if (strcmp(op, "passwd") == 0 || strcmp(op, "ppasswd") == 0) {
			struct peer tmp;
			struct peer *p;
			if (op[1] == 'a') {
				init_stub_peer(&tmp);
				p = &tmp;
				char *peer_user = unhex(a);
				if (peer_user != NULL) {
					tmp.user_name = duplicate_string(peer_user);
					free(peer_user);
				}
			} else {
				int id = a ? atoi(a) : -1;
				if (id < 0 || id >= MAX_PEERS) {
					die("bad peer id");
				}
				p = &peers[id];
			}
			char *target = unhex(b);
			char *pw = unhex(c);
			if (target == NULL || pw == NULL) {
				die("passwd needs target and password");
			}
			cJSON *req = make_request(idx, "passwd", target, pw);
			cJSON *resp = handle_change_password(p, req);
			report_response(idx, op, resp, cred_real);
			if (resp) {
				cJSON_Delete(resp);
			}
			cJSON_Delete(req);
			if (p == &tmp) {
				free_stub_peer(&tmp);
			}
			free(target);
			free(pw);
		} else if (strcmp(op, "snap") == 0) {
			char *to = unhex(a);
			int r = copy_file(cred_real, to);
			fprintf(out, "{\"ev\":\"result\",\"idx\":%d,\"op\":\"snap\",\"ok\":%s}\n", idx, r == 0 ? "true" : "false");
			fflush(out);
			free(to);
		} else {
			die("unknown op '%s'", op);
		}
	}
	armed = false;
	for (int i = 0; i < MAX_PEERS; i++) {
		free_stub_peer(&peers[i]);
	}
	for (int i = 0; i < nfaults; i++) {
		if ((faults[i].kind == F_SHORT || faults[i].kind == F_FAIL) && !faults[i].used) {
			fprintf(out, "{\"ev\":\"fault-unused\",\"n\":%d,\"kind\":%d}\n", faults[i].n, faults[i].kind);
		}
	}
	fprintf(out, "{\"ev\":\"end\",\"ncalls\":%d}\n", ncall);
	fflush(out);
	free_passwd_data();
	return 0;
}

static int probe_mode(const char *cred)
{
	int ret = load_passwd_data(cred);
	fprintf(out, "{\"ev\":\"load\",\"ret\":%d}\n", ret);
	fflush(out);
	if (ret != 0) {
		return 0;
	}
	char line[8192];
	int idx = 0;
	while (fgets(line, sizeof(line), stdin) != NULL) {
		char *save = NULL;
		char *a = strtok_r(line, " \t\r\n", &save);
		char *b = strtok_r(NULL, " \t\r\n", &save);
		if (a == NULL) {
			continue;
		}
		idx++;
		char *user = unhex(a);
		char *pw = unhex(b);
		const cJSON *auth = credentials_ok(user, pw);
		fprintf(out, "{\"ev\":\"probe\",\"idx\":%d,\"ok\":%s}\n", idx, auth ? "true" : "false");
		fflush(out);
		free(user);
		free(pw);
	}
	fprintf(out, "{\"ev\":\"end\"}\n");
	fflush(out);
	free_passwd_data();
	return 0;
}

int main(int argc, char **argv)
{
	out = stdout;
	if (argc < 3) {
		die("usage: authfs_harness run|probe <credential-file> [faults]");
	}
	/* as parse.c:init_parser(): auth_file.c releases cJSON_Print output with cjet_free */
	cJSON_Hooks hooks = {.malloc_fn = cjet_malloc, .free_fn = cjet_free};
	cJSON_InitHooks(&hooks);
	if (init_random() < 0) {
		die("init_random failed");
	}
	int rc;
	if (strcmp(argv[1], "run") == 0) {
		rc = run_mode(argv[2], argc - 3, argv + 3);
	} else if (strcmp(argv[1], "probe") == 0) {
		rc = probe_mode(argv[2]);
	} else {
		die("unknown mode");
		rc = 3;
	}
	close_random();
	return rc;
}
